//! C12 — output options do not perturb the integration.

use crate::env::{EvKind, EventSpec};
use crate::explore::{describe, dim, lattice};
use crate::problems::{base, reflect, warp, Base, Prob, Warp};
use crate::report::{is_thorough, CaseOut, Report, Violation};
use crate::run::{mname, run, Cfg, Outcome, M6};
use ivp::prelude::*;
use serde_json::{json, Value};
use std::sync::Arc;

fn vdp(mu: f64) -> Prob {
    Prob {
        name: format!("vanderpol(mu={})", mu),
        n: 2,
        f: Arc::new(move |_t, y, d| {
            d[0] = y[1];
            d[1] = mu * (1.0 - y[0] * y[0]) * y[1] - y[0];
        }),
        jac: Some(Arc::new(move |_t, y| vec![0.0, 1.0, -2.0 * mu * y[0] * y[1] - 1.0, mu * (1.0 - y[0] * y[0])])),
        flow: None,
        y0: vec![2.0, 0.0],
        linear_homogeneous: false,
    }
}

fn problems() -> Vec<(Prob, f64)> {
    vec![(base(Base::Harmonic(2.0)), 3.0), (warp(&base(Base::Logistic(2.0)), Warp::Sin), 3.0), (base(Base::Lin3), 2.0), (vdp(3.0), 4.0), (warp(&base(Base::Rational), Warp::Quad), 1.5)]
}

// ---------------------------------------------------------------------------------------------
// call sequences: "repeating the same call yields bit-identical results" - also when other calls were made in
// between, in the same process and thread.  Every ordered pair (i, j) of a small alphabet of calls is executed in a
// fresh child process as the sequence i, j, i; the child prints a fingerprint of each result.

fn seq_calls() -> Vec<(String, Prob, Cfg)> {
    let mut v = vec![];
    for m in M6 {
        // scenario 0: scalar decay, forward
        let p = base(Base::Decay(-1.0));
        let mut c = Cfg::new(m, 0.0, 1.0, &p.y0).tol(1e-6, 1e-8);
        c.user_jac = true;
        v.push((format!("{} decay n=1 forward", mname(m)), p, c));
        // scenario 1: oscillator, dense output, looser tolerance
        let p = base(Base::Harmonic(2.0));
        let mut c = Cfg::new(m, 0.0, 2.0, &p.y0).tol(1e-4, 1e-6);
        c.user_jac = true;
        c.dense = true;
        v.push((format!("{} harmonic n=2 forward dense", mname(m)), p, c));
        // scenario 2: three components, backward, requested times, differenced Jacobian
        let p = reflect(&base(Base::Lin3));
        let mut c = Cfg::new(m, 0.0, -1.5, &p.y0).tol(1e-8, 1e-10);
        c.t_eval = Some((0..=6).map(|i| -1.5 * i as f64 / 6.0).collect());
        v.push((format!("{} lin3 n=3 backward t_eval", mname(m)), p, c));
        // scenario 3: nonlinear scalar with events and a large state scale
        let p0 = base(Base::Logistic(2.0));
        let mut c = Cfg::new(m, 0.5, 2.0, &p0.y0).tol(1e-5, 1e-7);
        c.events = vec![EventSpec::new(EvKind::Y(0, 0.8)), EventSpec::new(EvKind::T(1.3)).dir(Direction::Positive)];
        c.first_step = if m == Method::RK4 { Some(0.03) } else { None };
        v.push((format!("{} logistic n=1 events", mname(m)), p0.clone(), c.clone()));
        // scenario 4: the same with the first event terminal
        let mut c4 = c.clone();
        c4.events[0].terminal = Some(1);
        v.push((format!("{} logistic n=1 first event terminal", mname(m)), p0.clone(), c4));
        // scenario 5 / 6: the oscillator with 13 requested times, and with 3
        let p = base(Base::Harmonic(2.0));
        let mut c5 = Cfg::new(m, 0.0, 2.0, &p.y0).tol(1e-4, 1e-6);
        c5.user_jac = true;
        c5.t_eval = Some((0..=12).map(|i| 2.0 * i as f64 / 12.0).collect());
        v.push((format!("{} harmonic n=2 t_eval(13)", mname(m)), p.clone(), c5.clone()));
        let mut c6 = c5.clone();
        c6.t_eval = Some(vec![0.4, 1.0, 1.6]);
        v.push((format!("{} harmonic n=2 t_eval(3)", mname(m)), p.clone(), c6));
        // scenario 7: the oscillator from the same initial data under a small max_step, dense
        let mut c7 = Cfg::new(m, 0.0, 2.0, &p.y0).tol(1e-4, 1e-6);
        c7.user_jac = true;
        c7.max_step = Some(0.01);
        c7.dense = true;
        v.push((format!("{} harmonic n=2 max_step 0.01", mname(m)), p.clone(), c7));
        // scenario 8: three components with a banded Jacobian storage (the band holds everything)
        let p3 = base(Base::Lin3);
        let mut c8 = Cfg::new(m, 0.0, 1.5, &p3.y0).tol(1e-6, 1e-8);
        c8.user_jac = true;
        c8.jac_storage = ivp::matrix::MatrixStorage::Banded { ml: 2, mu: 2 };
        v.push((format!("{} lin3 n=3 banded(2,2) Jacobian", mname(m)), p3, c8));
        // scenario 9: a different scalar problem continued from where scenario 0 ends (x0 = 1, y0 = e^-1)
        let p9 = Prob { y0: vec![(-1.0f64).exp()], ..base(Base::Logistic(1.5)) };
        let mut c9 = Cfg::new(m, 1.0, 2.0, &p9.y0).tol(1e-6, 1e-8);
        c9.user_jac = true;
        v.push((format!("{} logistic n=1 continued from (1, e^-1)", mname(m)), p9, c9));
    }
    v
}

fn seq_fp(p: &Prob, c: &Cfg) -> u128 {
    let r = run(p, c);
    let mut h = r.st.fp;
    h.s(&r.outcome_name());
    if let Some(s) = r.sol() {
        h.fs(&s.t);
        for y in &s.y {
            h.fs(y);
        }
        for l in &s.t_events {
            h.fs(l);
        }
        for u in [s.nfev, s.njev, s.nlu, s.nstep, s.naccpt, s.nrejct] {
            h.u(u as u64);
        }
        if let Some((a, b)) = s.sol_span() {
            if let Ok(v) = s.sol(a + 0.37 * (b - a)) {
                h.fs(&v);
            }
        }
    }
    h.as_u128()
}

/// child mode: `ivpv C12 --seq i j` runs calls i, j, i in this (fresh) process and prints the three fingerprints
pub fn seq_child(i: usize, j: usize) -> i32 {
    let calls = seq_calls();
    let (a, b) = (&calls[i], &calls[j]);
    let f1 = seq_fp(&a.1, &a.2);
    let f2 = seq_fp(&b.1, &b.2);
    let f3 = seq_fp(&a.1, &a.2);
    println!("SEQ {:032x} {:032x} {:032x}", f1, f2, f3);
    0
}

fn seq_spawn(i: usize, j: usize) -> Option<(u128, u128, u128)> {
    let exe = std::env::current_exe().ok()?;
    let out = std::process::Command::new(exe).arg("C12").arg("--seq").arg(i.to_string()).arg(j.to_string()).output().ok()?;
    let txt = String::from_utf8_lossy(&out.stdout).to_string();
    let line = txt.lines().find(|l| l.starts_with("SEQ "))?;
    let f: Vec<u128> = line.split_whitespace().skip(1).filter_map(|x| u128::from_str_radix(x, 16).ok()).collect();
    if f.len() == 3 {
        Some((f[0], f[1], f[2]))
    } else {
        None
    }
}

/// verdict for the ordered pair (i, j); `alone_j` is the fingerprint of call j as the first call of a fresh process
fn seq_verdict(i: usize, j: usize, got: Option<(u128, u128, u128)>, alone_j: Option<u128>, calls: &[(String, Prob, Cfg)]) -> Vec<Violation> {
    let key = format!("seq:{}.{}", i, j);
    let case = json!({"key": key, "first_call": calls[i].0, "second_call": calls[j].0});
    let mut v = vec![];
    match (got, alone_j) {
        (Some((a1, b2, a3)), Some(bj)) => {
            if a1 != a3 {
                v.push(Violation::new(&key, "repeat-after-other-call", format!("the call [{}] gives a different result when it is repeated after the call [{}] in the same process", calls[i].0, calls[j].0), case.clone()));
            }
            if b2 != bj {
                v.push(Violation::new(&key, "call-after-other-call", format!("the call [{}] gives a different result after the call [{}] than as the first call of a process", calls[j].0, calls[i].0), case.clone()));
            }
        }
        _ => v.push(Violation::new(&key, "sequence-crashed", format!("the sequence [{}], [{}], [{}] did not run to completion in a child process", calls[i].0, calls[j].0, calls[i].0), case)),
    }
    v
}

pub fn run_check(replay: Option<Value>) -> i32 {
    let mut rep = Report::new("C12", "model_checking");
    let only = replay.as_ref().and_then(|c| c["key"].as_str().map(|s| s.to_string()));
    if let Some(o) = &only {
        if let Some(rest) = o.strip_prefix("seq:") {
            let ij: Vec<usize> = rest.split('.').filter_map(|x| x.parse().ok()).collect();
            let calls = seq_calls();
            if ij.len() == 2 && ij[0] < calls.len() && ij[1] < calls.len() {
                let vs = seq_verdict(ij[0], ij[1], seq_spawn(ij[0], ij[1]), seq_spawn(ij[1], ij[1]).map(|f| f.0), &calls);
                for v in &vs {
                    println!("replay: VIOLATED [{}]: {}", v.sig["check"], v.msg);
                }
                if vs.is_empty() {
                    println!("replay: property holds on this case");
                }
                return if vs.is_empty() { 0 } else { 1 };
            }
            return 2;
        }
    }
    let thorough = is_thorough();
    let probs = problems();
    let tols: Vec<f64> = if thorough { vec![1e-2, 1e-3, 1e-4, 1e-5, 1e-6, 1e-7, 1e-8, 1e-9, 1e-10] } else { vec![1e-3, 1e-6, 1e-9] };
    let dims = vec![
        dim("method", &M6.iter().map(|m| mname(*m)).collect::<Vec<_>>()),
        dim("problem", &probs.iter().map(|p| p.0.name.clone()).collect::<Vec<_>>()),
        dim("tol", &tols),
        dim("direction", &["forward", "backward(reflected)"]),
        dim("jacobian", &["user", "finite-difference"]),
        dim("t_eval_shape", &["13 points incl. both ends", "3 interior points only", "every second accepted time of the plain run and a neighbour 1e-13 away", "13 points, the last one an ulp short of xend", "257 points incl. both ends"]),
        dim("first_step", &["automatic", "span/37"]),
    ];
    lattice(&mut rep, "c12", &dims, only.as_deref(), |key, idx| {
        let m = M6[idx[0]];
        let (p0, span) = &probs[idx[1]];
        let tol = tols[idx[2]];
        let backward = idx[3] == 1;
        if idx[4] == 1 && !crate::run::is_implicit(m) {
            return None;
        }
        if backward && (p0.name.starts_with("vanderpol") || p0.name.contains("Quad")) {
            return None;
        }
        let p = if backward { reflect(p0) } else { p0.clone() };
        let xend = if backward { -*span } else { *span };
        let mut c0 = Cfg::new(m, 0.0, xend, &p.y0).tol(tol, tol * 1e-2);
        c0.user_jac = idx[4] == 0;
        if idx[6] == 1 {
            c0.first_step = Some(xend / 37.0);
        }
        let te: Vec<f64> = if idx[5] == 4 {
            // more requested times than any default step count
            (0..=256).map(|i| xend * i as f64 / 256.0).collect()
        } else if idx[5] == 0 {
            (0..=12).map(|i| xend * i as f64 / 12.0).collect()
        } else if idx[5] == 3 {
            // the integration interval is what the caller said, also when the grid misses xend by rounding
            (0..=12).map(|i| if i == 12 { xend * (1.0 - f64::EPSILON) } else { xend * i as f64 / 12.0 }).collect()
        } else {
            vec![0.21 * xend, 0.5 * xend, 0.83 * xend]
        };
        let desc = json!({"key": key, "point": describe(&dims, idx), "cfg": c0.json(&p.name)});
        let mut out = CaseOut::default();
        macro_rules! viol {
            ($c:expr, $m:expr) => {
                out.violations.push(Violation::new(key, $c, $m, desc.clone()).with("method", mname(m)))
            };
        }
        let plain = run(&p, &c0);
        let ps = match &plain.out {
            Outcome::Ok(s) if s.status == Status::Success => s,
            _ => {
                viol!("outcome", format!("plain run ended with {}", plain.outcome_name()));
                return Some(out);
            }
        };
        // shape 2: requested times that coincide exactly with accepted step ends (and near misses)
        let te: Vec<f64> = if idx[5] == 2 {
            let mut v = vec![];
            for (k, t) in ps.t.iter().enumerate() {
                if k % 2 == 0 && k > 0 {
                    v.push(*t);
                    let nb = t + 1e-13 * xend.signum() * (1.0 + t.abs());
                    if (nb - xend) * xend.signum() < 0.0 {
                        v.push(nb);
                    }
                }
            }
            if v.is_empty() {
                return None;
            }
            v
        } else {
            te
        };
        out.events = plain.st.n_ode;
        let stats = |s: &Solution| (s.nfev, s.njev, s.nlu, s.nstep, s.naccpt, s.nrejct);
        for subset in 0..8u32 {
            let mut c = c0.clone();
            let (with_te, with_dense, with_ev) = (subset & 1 != 0, subset & 2 != 0, subset & 4 != 0);
            if with_te {
                c.t_eval = Some(te.clone());
            }
            c.dense = with_dense;
            if with_ev {
                c.events = vec![EventSpec::new(EvKind::Y(0, 0.5 * p.y0[0])), EventSpec::new(EvKind::Cos(2.0)), EventSpec::new(EvKind::T(0.37 * xend)).dir(Direction::Positive)];
                // an event function that is exactly zero at an interior accepted step end
                if ps.t.len() > 4 {
                    c.events.push(EventSpec::new(EvKind::T(ps.t[ps.t.len() / 2])));
                }
                // an event function with a restricted domain: not a number from 0.61 of the span on
                c.events.push(EventSpec::new(EvKind::SqrtUntil(0.61 * xend, xend.signum())));
            }
            let label = format!("{{{}{}{}}}", if with_te { "t_eval " } else { "" }, if with_dense { "dense " } else { "" }, if with_ev { "events" } else { "" });
            let (r1, r2) = (run(&p, &c), run(&p, &c));
            out.events += r1.st.n_ode + r2.st.n_ode;
            let (s1, s2) = match (&r1.out, &r2.out) {
                (Outcome::Ok(a), Outcome::Ok(b)) => (a, b),
                _ => {
                    viol!("outcome", format!("subset {} ended with {} / {}", label, r1.outcome_name(), r2.outcome_name()));
                    continue;
                }
            };
            // repeatability
            let same = s1.t.len() == s2.t.len()
                && s1.t.iter().zip(&s2.t).all(|(a, b)| a.to_bits() == b.to_bits())
                && s1.y.iter().zip(&s2.y).all(|(a, b)| a.iter().zip(b).all(|(u, v)| u.to_bits() == v.to_bits()))
                && r1.st.fp == r2.st.fp
                && stats(s1) == stats(s2)
                && s1.t_events == s2.t_events;
            if !same {
                viol!("not-repeatable", format!("subset {}: repeating the call gives different results", label));
            }
            // same integration as the plain run
            if s1.status != Status::Success {
                viol!("status", format!("subset {}: status {:?}", label, s1.status));
            }
            if r1.st.fp != plain.st.fp {
                viol!("integration-perturbed", format!("subset {}: the sequence of RHS evaluations (times and states) differs from the plain run ({} vs {} calls)", label, r1.st.n_ode, plain.st.n_ode));
            }
            if stats(s1) != stats(ps) {
                viol!("statistics", format!("subset {}: (nfev,njev,nlu,nstep,naccpt,nrejct) = {:?}, plain run {:?}", label, stats(s1), stats(ps)));
            }
            if !with_te {
                let same_grid = s1.t.len() == ps.t.len() && s1.t.iter().zip(&ps.t).all(|(a, b)| a.to_bits() == b.to_bits()) && s1.y.iter().zip(&ps.y).all(|(a, b)| a.iter().zip(b).all(|(u, v)| u.to_bits() == v.to_bits()));
                if !same_grid {
                    viol!("steps", format!("subset {}: accepted steps / states differ from the plain run", label));
                }
            } else if idx[5] == 0 {
                // final state: the requested xend value against the plain run's last sample
                let (yl, pl) = (s1.y.last().unwrap(), ps.y.last().unwrap());
                let d = yl.iter().zip(pl).fold(0.0f64, |a, (u, v)| a.max((u - v).abs()));
                let sc = 1.0 + pl.iter().fold(0.0f64, |a, v| a.max(v.abs()));
                if s1.t.len() != te.len() || d > 64.0 * f64::EPSILON * sc {
                    viol!("final-state", format!("subset {}: value at xend differs from the plain run's final state by {:e}", label, d));
                }
            }
            if with_dense && !with_te {
                // the plain run's samples are reproduced by sol_many
                if let Ok(v) = s1.sol_many(&ps.t) {
                    for (a, b) in v.iter().zip(&ps.y) {
                        let d = a.iter().zip(b).fold(0.0f64, |m2, (u, w)| m2.max((u - w).abs()));
                        if d > 1e-12 * (1.0 + b.iter().fold(0.0f64, |m2, w| m2.max(w.abs()))) + 1e-11 {
                            viol!("dense-vs-plain", format!("subset {}: sol_many at the plain run's times differs by {:e}", label, d));
                            break;
                        }
                    }
                }
            }
            out.validated += 4;
        }
        out.tag("eight-subsets");
        out.fp = Some(plain.st.fp.as_u128());
        out.sample = Some(desc);
        Some(out)
    });
    // very long runs (more than 1.3e5 accepted steps, forced by max_step / RK4's fixed step): output options
    // must not bring a step budget or anything else that depends on the length of the run
    let ldims = vec![dim("method", &M6.iter().map(|m| mname(*m)).collect::<Vec<_>>()), dim("direction", &["forward", "backward(reflected)"])];
    lattice(&mut rep, "long", &ldims, only.as_deref(), |key, idx| {
        let m = M6[idx[0]];
        let p0 = base(Base::Harmonic(1.0));
        let p = if idx[1] == 1 { reflect(&p0) } else { p0 };
        let xend = if idx[1] == 1 { -13.0 } else { 13.0 };
        let mut c0 = Cfg::new(m, 0.0, xend, &p.y0).tol(1e-6, 1e-8);
        c0.user_jac = true;
        if m == Method::RK4 {
            c0.first_step = Some(xend / 130_000.5);
        } else {
            c0.max_step = Some(1e-4);
        }
        c0.budget = 50_000_000;
        let desc = json!({"key": key, "point": describe(&ldims, idx), "cfg": c0.json(&p.name)});
        let mut out = CaseOut::default();
        let plain = run(&p, &c0);
        let ps = match &plain.out {
            Outcome::Ok(s) if s.status == Status::Success && s.naccpt > 100_000 => s,
            _ => {
                out.violations.push(Violation::new(key, "outcome", format!("plain long run ended with {} ({} accepted steps)", plain.outcome_name(), plain.sol().map(|s| s.naccpt).unwrap_or(0)), desc).with("method", mname(m)));
                return Some(out);
            }
        };
        out.events = plain.st.n_ode;
        for (label, dense, te) in [("{dense}", true, false), ("{t_eval}", false, true), ("{t_eval dense}", true, true)] {
            let mut c = c0.clone();
            c.dense = dense;
            if te {
                c.t_eval = Some((0..=4).map(|i| xend * i as f64 / 4.0).collect());
            }
            let r = run(&p, &c);
            out.events += r.st.n_ode;
            match &r.out {
                Outcome::Ok(s) => {
                    let st = |s: &Solution| (s.nfev, s.njev, s.nlu, s.nstep, s.naccpt, s.nrejct);
                    if s.status != ps.status || r.st.fp != plain.st.fp || st(s) != st(ps) {
                        out.violations.push(Violation::new(key, "integration-perturbed", format!("subset {} of a {}-step run: status {:?} (plain {:?}), statistics {:?} (plain {:?}), RHS record {}", label, ps.naccpt, s.status, ps.status, st(s), st(ps), if r.st.fp == plain.st.fp { "identical" } else { "differs" }), desc.clone()).with("method", mname(m)));
                    }
                    out.validated += 1;
                }
                _ => out.violations.push(Violation::new(key, "outcome", format!("subset {} ended with {}", label, r.outcome_name()), desc.clone()).with("method", mname(m))),
            }
        }
        out.tag("long-run");
        out.fp = Some(plain.st.fp.as_u128() ^ 0x10);
        out.sample = Some(desc);
        Some(out)
    });
    // tiny spans (3e-13 and 4e-14, below every absolute time constant of the library): requesting output
    // must not turn the run into something else (e.g. into the zero-length shortcut)
    let tdims = vec![dim("method", &M6.iter().map(|m| mname(*m)).collect::<Vec<_>>()), dim("direction", &["forward", "backward(reflected)"]), dim("span", &[3e-13, 4e-14])];
    lattice(&mut rep, "tiny", &tdims, only.as_deref(), |key, idx| {
        let m = M6[idx[0]];
        let p0 = crate::problems::timescale(&base(Base::Harmonic(1.0)), 1e13);
        let p = if idx[1] == 1 { reflect(&p0) } else { p0 };
        let span = [3e-13, 4e-14][idx[2]];
        let xend = if idx[1] == 1 { -span } else { span };
        let mut c0 = Cfg::new(m, 0.0, xend, &p.y0).tol(1e-6, 1e-8);
        c0.user_jac = true;
        let desc = json!({"key": key, "point": describe(&tdims, idx), "cfg": c0.json(&p.name)});
        let mut out = CaseOut::default();
        let plain = run(&p, &c0);
        let ps = match &plain.out {
            Outcome::Ok(s) => s,
            _ => {
                out.violations.push(Violation::new(key, "outcome", format!("plain run over a span of {:e} ended with {}", span, plain.outcome_name()), desc).with("method", mname(m)));
                return Some(out);
            }
        };
        out.events = plain.st.n_ode;
        for (label, dense, te) in [("{dense}", true, false), ("{t_eval}", false, true), ("{t_eval dense}", true, true)] {
            let mut c = c0.clone();
            c.dense = dense;
            if te {
                c.t_eval = Some(vec![0.0, xend / 3.0, xend]);
            }
            let r = run(&p, &c);
            out.events += r.st.n_ode;
            match &r.out {
                Outcome::Ok(s) => {
                    let st = |s: &Solution| (s.nfev, s.njev, s.nlu, s.nstep, s.naccpt, s.nrejct);
                    if s.status != ps.status || r.st.fp != plain.st.fp || st(s) != st(ps) {
                        out.violations.push(Violation::new(key, "integration-perturbed", format!("subset {} over a span of {:e}: status {:?} (plain {:?}), statistics {:?} (plain {:?}), RHS record {}", label, span, s.status, ps.status, st(s), st(ps), if r.st.fp == plain.st.fp { "identical" } else { "differs" }), desc.clone()).with("method", mname(m)));
                    }
                    out.validated += 1;
                }
                _ => out.violations.push(Violation::new(key, "outcome", format!("subset {} ended with {}", label, r.outcome_name()), desc.clone()).with("method", mname(m))),
            }
        }
        out.tag("tiny-span");
        out.fp = Some(plain.st.fp.as_u128() ^ 0x20);
        out.sample = Some(desc);
        Some(out)
    });
    // intervals that contain zero, with coarse steps: the last step is longer than the distance of its left end
    // from the origin (xold + (xend - xold) need not be xend), for the methods that put the end on xend itself
    const CROSS: [(f64, f64); 8] = [(-1.0, 0.3), (-2.0, 0.1), (1.0, -0.3), (3.0, -0.05), (-5.0, 0.2), (-1.0, 0.001), (2.0, -0.007), (-0.7, 0.7)];
    let xdims = vec![dim("method", &M6.iter().map(|m| mname(*m)).collect::<Vec<_>>()), dim("interval", &CROSS.iter().map(|(a, b)| format!("[{},{}]", a, b)).collect::<Vec<_>>()), dim("steps", &["coarse", "coarser"])];
    lattice(&mut rep, "cross", &xdims, only.as_deref(), |key, idx| {
        let m = M6[idx[0]];
        let (x0, xend) = CROSS[idx[1]];
        let p = base(Base::Harmonic(1.0));
        let mut c0 = Cfg::new(m, x0, xend, &p.y0).tol([0.1, 0.3][idx[2]], 1e-3);
        c0.user_jac = true;
        c0.first_step = Some((xend - x0) * [0.7 / 1.3, 0.19][idx[2]]);
        let desc = json!({"key": key, "point": describe(&xdims, idx), "cfg": c0.json(&p.name)});
        let mut out = CaseOut::default();
        let plain = run(&p, &c0);
        let ps = match &plain.out {
            Outcome::Ok(s) if s.status == Status::Success => s,
            _ => return None,
        };
        out.events = plain.st.n_ode;
        for (label, dense, te) in [("{dense}", true, false), ("{t_eval}", false, true), ("{t_eval dense}", true, true)] {
            let mut c = c0.clone();
            c.dense = dense;
            if te {
                c.t_eval = Some(vec![x0, x0 + (xend - x0) / 3.0, xend]);
            }
            let r = run(&p, &c);
            out.events += r.st.n_ode;
            match &r.out {
                Outcome::Ok(s) => {
                    let st = |s: &Solution| (s.nfev, s.njev, s.nlu, s.nstep, s.naccpt, s.nrejct);
                    let same_grid = te || (s.t.len() == ps.t.len() && s.t.iter().zip(&ps.t).all(|(a, b)| a.to_bits() == b.to_bits()) && s.y.iter().zip(&ps.y).all(|(a, b)| a.iter().zip(b).all(|(u, w)| u.to_bits() == w.to_bits())));
                    if s.status != ps.status || r.st.fp != plain.st.fp || st(s) != st(ps) || !same_grid {
                        out.violations.push(
                            Violation::new(key, "integration-perturbed", format!("subset {} on [{},{}]: status {:?} (plain {:?}), statistics {:?} (plain {:?}), RHS record {}, accepted steps and states {} (last time {:?}, plain {:?})", label, x0, xend, s.status, ps.status, st(s), st(ps), if r.st.fp == plain.st.fp { "identical" } else { "differs" }, if same_grid { "identical" } else { "differ" }, s.t.last(), ps.t.last()), desc.clone())
                                .with("method", mname(m)),
                        );
                    }
                    out.validated += 1;
                }
                _ => out.violations.push(Violation::new(key, "outcome", format!("subset {} ended with {}", label, r.outcome_name()), desc.clone()).with("method", mname(m))),
            }
        }
        out.tag("interval-across-zero");
        out.fp = Some(plain.st.fp.as_u128() ^ 0x30);
        out.sample = Some(desc);
        Some(out)
    });
    // runs that the explicit methods end themselves (ProbablyStiff after about a thousand steps on y' = -2e4 (y - cos x)):
    // asking for output does not change where and how the run ends
    let kdims = vec![dim("method", &["DOPRI5", "DOP853"]), dim("direction", &["forward", "backward(reflected)"])];
    lattice(&mut rep, "stiffend", &kdims, only.as_deref(), |key, idx| {
        let m = [Method::DOPRI5, Method::DOP853][idx[0]];
        let p0 = Prob {
            name: "tracking y'=-2e4(y-cos x)".into(),
            n: 1,
            f: Arc::new(|t, y, d| d[0] = -2e4 * (y[0] - t.cos())),
            jac: None,
            flow: None,
            y0: vec![1.0],
            linear_homogeneous: false,
        };
        let p = if idx[1] == 1 { reflect(&p0) } else { p0 };
        let xend = if idx[1] == 1 { -2.0 } else { 2.0 };
        let c0 = Cfg::new(m, 0.0, xend, &p.y0).tol(1e-6, 1e-8);
        let desc = json!({"key": key, "point": describe(&kdims, idx), "cfg": c0.json(&p.name)});
        let mut out = CaseOut::default();
        let plain = run(&p, &c0);
        let ps = match &plain.out {
            Outcome::Ok(s) => s,
            _ => return None,
        };
        out.events = plain.st.n_ode;
        if ps.status == Status::ProbablyStiff {
            out.tag("run-ended-by-the-stiffness-test");
        }
        for (label, dense, te, ev) in [("{dense}", true, false, false), ("{t_eval}", false, true, false), ("{t_eval dense}", true, true, false), ("{events}", false, false, true), ("{dense events}", true, false, true)] {
            let mut c = c0.clone();
            c.dense = dense;
            if te {
                c.t_eval = Some((0..=20).map(|i| xend * i as f64 / 20.0).collect());
            }
            if ev {
                c.events = vec![EventSpec::new(EvKind::Cos(40.0)), EventSpec::new(EvKind::T(0.1 * xend))];
            }
            let r = run(&p, &c);
            out.events += r.st.n_ode;
            match &r.out {
                Outcome::Ok(s) => {
                    let st = |s: &Solution| (s.nfev, s.njev, s.nlu, s.nstep, s.naccpt, s.nrejct);
                    if s.status != ps.status || r.st.fp != plain.st.fp || st(s) != st(ps) {
                        out.violations.push(
                            Violation::new(key, "integration-perturbed", format!("subset {}: status {:?} (plain {:?}), statistics {:?} (plain {:?}), RHS record {}", label, s.status, ps.status, st(s), st(ps), if r.st.fp == plain.st.fp { "identical" } else { "differs" }), desc.clone()).with("method", mname(m)),
                        );
                    }
                    out.validated += 1;
                }
                _ => out.violations.push(Violation::new(key, "outcome", format!("subset {} ended with {}", label, r.outcome_name()), desc.clone()).with("method", mname(m))),
            }
        }
        out.fp = Some(plain.st.fp.as_u128() ^ 0x40);
        out.sample = Some(desc);
        Some(out)
    });
    if only.is_none() {
        let calls = seq_calls();
        let n = calls.len();
        let pairs: Vec<(usize, usize)> = (0..n).flat_map(|i| (0..n).map(move |j| (i, j))).collect();
        let res = crate::util::par_map(pairs.len(), |k| seq_spawn(pairs[k].0, pairs[k].1));
        let alone: Vec<Option<u128>> = (0..n).map(|j| res[j * n + j].map(|f| f.0)).collect();
        let mut distinct = std::collections::HashSet::new();
        for (k, (i, j)) in pairs.iter().enumerate() {
            rep.evaluations += 1;
            rep.validated += 2;
            if let Some(f) = res[k] {
                distinct.insert(f.1);
            }
            rep.violations.extend(seq_verdict(*i, *j, res[k], alone[*j], &calls));
        }
        *rep.tags.entry("call-sequences".into()).or_insert(0) += pairs.len() as u64;
        *rep.tags.entry("call-sequence-distinct-results".into()).or_insert(0) += distinct.len() as u64;
    }
    if only.is_some() {
        for v in &rep.violations {
            println!("replay: VIOLATED [{}]: {}\n{}", v.sig["check"], v.msg, serde_json::to_string_pretty(&v.case).unwrap());
        }
        if rep.violations.is_empty() {
            println!("replay: property holds on this case");
        }
        return if rep.violations.is_empty() { 0 } else { 1 };
    }
    rep.require("eight-subsets", 100);
    rep.require("long-run", 6);
    rep.require("tiny-span", 12);
    rep.require("interval-across-zero", 60);
    rep.require("run-ended-by-the-stiffness-test", 2);
    rep.require("call-sequences", 500);
    rep.require("call-sequence-distinct-results", 20);
    rep.rule = "for every lattice point the plain run and all 8 subsets of {t_eval, dense_output, non-terminal events} are run twice; oracle: identical 128-bit fingerprint of every non-Jacobian RHS call (time and state bits: the complete record of the integration), identical statistics, identical accepted steps and states when no t_eval is given, final state, repeatability; runs of more than 1.3e5 accepted steps with {dense}, {t_eval}, {t_eval dense}; distinct = distinct plain-run fingerprints".into();
    rep.finish()
}
