//! C12 — output options do not perturb the integration.

use crate::env::{EvKind, EventSpec};
use crate::explore::{describe, dim, lattice};
use crate::problems::{base, reflect, warp, Base, Prob, Warp};
use crate::report::{is_thorough, CaseOut, Report, Violation};
use crate::run::{mname, run, Cfg, Outcome, M6};
use ivp::prelude::*;
use serde_json::{json, Value};
use std::sync::Arc;

fn vdp(mu: f64) -> Prob {
    Prob {
        name: format!("vanderpol(mu={})", mu),
        n: 2,
        f: Arc::new(move |_t, y, d| {
            d[0] = y[1];
            d[1] = mu * (1.0 - y[0] * y[0]) * y[1] - y[0];
        }),
        jac: Some(Arc::new(move |_t, y| vec![0.0, 1.0, -2.0 * mu * y[0] * y[1] - 1.0, mu * (1.0 - y[0] * y[0])])),
        flow: None,
        y0: vec![2.0, 0.0],
        linear_homogeneous: false,
    }
}

fn problems() -> Vec<(Prob, f64)> {
    // (the last one: the oscillator with its state measured in units of 1e-200 - squares of the samples overflow)
    let mut huge = base(Base::Harmonic(2.0));
    huge.y0 = huge.y0.iter().map(|v| v * 1e200).collect();
    huge.name = "harmonic(2) with states of size 1e200".into();
    vec![(base(Base::Harmonic(2.0)), 3.0), (warp(&base(Base::Logistic(2.0)), Warp::Sin), 3.0), (base(Base::Lin3), 2.0), (vdp(3.0), 4.0), (warp(&base(Base::Rational), Warp::Quad), 1.5), (huge, 3.0)]
}

// ---------------------------------------------------------------------------------------------
// call sequences: "repeating the same call yields bit-identical results" - also when other calls were made in
// between, in the same process and thread.  Every ordered pair (i, j) of a small alphabet of calls is executed in a
// fresh child process as the sequence i, j, i; the child prints a fingerprint of each result.

/// a call of the alphabet: label, problem, configuration, mass kind (0 = none, 1 = the full 2x2 mass [[2,1],[1,3]])
fn seq_calls() -> Vec<(String, Prob, Cfg, usize)> {
    let mut v = vec![];
    for m in M6 {
        // scenario 0: scalar decay, forward
        let p = base(Base::Decay(-1.0));
        let mut c = Cfg::new(m, 0.0, 1.0, &p.y0).tol(1e-6, 1e-8);
        c.user_jac = true;
        v.push((format!("{} decay n=1 forward", mname(m)), p, c, 0));
        // scenario 1: oscillator, dense output, looser tolerance
        let p = base(Base::Harmonic(2.0));
        let mut c = Cfg::new(m, 0.0, 2.0, &p.y0).tol(1e-4, 1e-6);
        c.user_jac = true;
        c.dense = true;
        v.push((format!("{} harmonic n=2 forward dense", mname(m)), p, c, 0));
        // scenario 2: three components, backward, requested times, differenced Jacobian
        let p = reflect(&base(Base::Lin3));
        let mut c = Cfg::new(m, 0.0, -1.5, &p.y0).tol(1e-8, 1e-10);
        c.t_eval = Some((0..=6).map(|i| -1.5 * i as f64 / 6.0).collect());
        v.push((format!("{} lin3 n=3 backward t_eval", mname(m)), p, c, 0));
        // scenario 3: nonlinear scalar with events and a large state scale
        let p0 = base(Base::Logistic(2.0));
        let mut c = Cfg::new(m, 0.5, 2.0, &p0.y0).tol(1e-5, 1e-7);
        c.events = vec![EventSpec::new(EvKind::Y(0, 0.8)), EventSpec::new(EvKind::T(1.3)).dir(Direction::Positive)];
        c.first_step = if m == Method::RK4 { Some(0.03) } else { None };
        v.push((format!("{} logistic n=1 events", mname(m)), p0.clone(), c.clone(), 0));
        // scenario 4: the same with the first event terminal
        let mut c4 = c.clone();
        c4.events[0].terminal = Some(1);
        v.push((format!("{} logistic n=1 first event terminal", mname(m)), p0.clone(), c4, 0));
        // scenario 5 / 6: the oscillator with 13 requested times, and with 3
        let p = base(Base::Harmonic(2.0));
        let mut c5 = Cfg::new(m, 0.0, 2.0, &p.y0).tol(1e-4, 1e-6);
        c5.user_jac = true;
        c5.t_eval = Some((0..=12).map(|i| 2.0 * i as f64 / 12.0).collect());
        v.push((format!("{} harmonic n=2 t_eval(13)", mname(m)), p.clone(), c5.clone(), 0));
        let mut c6 = c5.clone();
        c6.t_eval = Some(vec![0.4, 1.0, 1.6]);
        v.push((format!("{} harmonic n=2 t_eval(3)", mname(m)), p.clone(), c6, 0));
        // scenario 7: the oscillator from the same initial data under a small max_step, dense
        let mut c7 = Cfg::new(m, 0.0, 2.0, &p.y0).tol(1e-4, 1e-6);
        c7.user_jac = true;
        c7.max_step = Some(0.01);
        c7.dense = true;
        v.push((format!("{} harmonic n=2 max_step 0.01", mname(m)), p.clone(), c7, 0));
        // scenario 8: three components with a banded Jacobian storage (the band holds everything)
        let p3 = base(Base::Lin3);
        let mut c8 = Cfg::new(m, 0.0, 1.5, &p3.y0).tol(1e-6, 1e-8);
        c8.user_jac = true;
        c8.jac_storage = ivp::matrix::MatrixStorage::Banded { ml: 2, mu: 2 };
        v.push((format!("{} lin3 n=3 banded(2,2) Jacobian", mname(m)), p3, c8, 0));
        // scenario 9: a different scalar problem continued from where scenario 0 ends (x0 = 1, y0 = e^-1)
        let p9 = Prob { y0: vec![(-1.0f64).exp()], ..base(Base::Logistic(1.5)) };
        let mut c9 = Cfg::new(m, 1.0, 2.0, &p9.y0).tol(1e-6, 1e-8);
        c9.user_jac = true;
        v.push((format!("{} logistic n=1 continued from (1, e^-1)", mname(m)), p9, c9, 0));
        // scenario 10 / 11: per-component tolerances that share their first entries
        let p3 = base(Base::Lin3);
        for (k, at) in [vec![1e-9, 1e-2, 1e-2], vec![1e-9, 1e-9, 1e-9]].into_iter().enumerate() {
            let mut cv = Cfg::new(m, 0.0, 1.5, &p3.y0);
            cv.rtol = crate::run::Tol::V(vec![1e-6, 1e-6, 1e-6]);
            cv.atol = crate::run::Tol::V(at);
            cv.user_jac = true;
            v.push((format!("{} lin3 n=3 tolerance vectors ({})", mname(m), if k == 0 { "loose tail" } else { "tight tail" }), p3.clone(), cv, 0));
        }
        // scenario 12: a lower-bidiagonal chain whose analytic Jacobian writes only its non-zero entries, in a
        // band (1,0) that holds nothing else
        let chain = Prob {
            name: "chain n=3".into(),
            n: 3,
            f: Arc::new(|_t, y, d| {
                d[0] = -y[0];
                d[1] = 2.0 * y[0] - 3.0 * y[1];
                d[2] = y[1] - 0.5 * y[2];
            }),
            jac: Some(Arc::new(|_t, _y| vec![-1.0, 0.0, 0.0, 2.0, -3.0, 0.0, 0.0, 1.0, -0.5])),
            flow: None,
            y0: vec![1.0, 0.5, 0.25],
            linear_homogeneous: true,
        };
        let mut c12 = Cfg::new(m, 0.0, 1.5, &chain.y0).tol(1e-6, 1e-8);
        c12.user_jac = true;
        c12.jac_nonzeros_only = true;
        c12.jac_storage = ivp::matrix::MatrixStorage::Banded { ml: 1, mu: 0 };
        v.push((format!("{} chain n=3 banded(1,0), non-zero writes", mname(m)), chain.clone(), c12.clone(), 0));
        // scenario 13: the same chain in Full storage (still writing only its non-zeros)
        let mut c13 = c12.clone();
        c13.jac_storage = ivp::matrix::MatrixStorage::Full;
        v.push((format!("{} chain n=3 full storage, non-zero writes", mname(m)), chain, c13, 0));
        // scenario 14 / 15: M y' = f with the full mass [[2,1],[1,3]], and a plain problem of the same size with the
        // mass storage declared Full (default mass); both only mean something for Radau
        let p2 = base(Base::Harmonic(1.0));
        let mut c14 = Cfg::new(m, 0.0, 1.0, &p2.y0).tol(1e-6, 1e-8);
        c14.user_jac = true;
        c14.mass_storage = ivp::matrix::MatrixStorage::Full;
        v.push((format!("{} harmonic n=2 full mass [[2,1],[1,3]]", mname(m)), p2.clone(), c14.clone(), 1));
        v.push((format!("{} harmonic n=2 mass storage Full, default mass", mname(m)), p2.clone(), c14, 0));
        // scenario 16 / 17: dense output over [0, 1] (RK4: a hundred steps like scenario 1, differently placed), at
        // a tight tolerance (BDF: another first step from the same x0)
        let mut c16 = Cfg::new(m, 0.0, 1.0, &p2.y0).tol(1e-9, 1e-11);
        c16.user_jac = true;
        c16.dense = true;
        v.push((format!("{} harmonic n=2 dense [0,1] tight", mname(m)), p2.clone(), c16.clone(), 0));
        let mut c17 = c16.clone();
        c17 = c17.tol(1e-3, 1e-5);
        v.push((format!("{} harmonic n=2 dense [0,1] loose", mname(m)), p2, c17, 0));
        // scenario 18: another logistic problem from the initial point of scenario 3 over a span of 1e-7, differenced Jacobian
        let p18 = base(Base::Logistic(3.0));
        let c18 = Cfg::new(m, 0.5, 0.5 + 1e-7, &p0.y0).tol(1e-5, 1e-7);
        v.push((format!("{} logistic(3) n=1 over 1e-7 from the same point", mname(m)), p18, c18, 0));
        // scenario 19: a run that ends on its step budget (six steps at a loose tolerance over [0, 20])
        let pb = base(Base::Harmonic(0.2));
        let mut c19 = Cfg::new(m, 0.0, 20.0, &pb.y0).tol(1e-2, 1e-3);
        c19.user_jac = true;
        c19.max_steps = Some(6);
        v.push((format!("{} harmonic(0.2) n=2 over [0,20], six steps allowed", mname(m)), pb, c19, 0));
    }
    v
}

fn seq_run(p: &Prob, c: &Cfg, mass_kind: usize) -> crate::run::Run {
    let massf = |m: &mut ivp::matrix::Matrix| {
        m[(0, 0)] = 2.0;
        m[(0, 1)] = 1.0;
        m[(1, 0)] = 1.0;
        m[(1, 1)] = 3.0;
    };
    if mass_kind == 1 {
        crate::run::run_with(p, c, None, Some(&massf))
    } else {
        run(p, c)
    }
}

fn seq_fp_of(r: &crate::run::Run) -> u128 {
    let mut h = r.st.fp;
    h.s(&r.outcome_name());
    if let Some(s) = r.sol() {
        h.fs(&s.t);
        for y in &s.y {
            h.fs(y);
        }
        for l in &s.t_events {
            h.fs(l);
        }
        for u in [s.nfev, s.njev, s.nlu, s.nstep, s.naccpt, s.nrejct] {
            h.u(u as u64);
        }
        if let Some((a, b)) = s.sol_span() {
            for th in [0.37, 1e-7, 0.93] {
                if let Ok(v) = s.sol(a + th * (b - a)) {
                    h.fs(&v);
                }
            }
        }
    }
    h.as_u128()
}

fn seq_fp(p: &Prob, c: &Cfg, mass_kind: usize) -> u128 {
    seq_fp_of(&seq_run(p, c, mass_kind))
}

/// the absolute query times of the interleaving stage: 41 points of the common part of both intervals and four
/// points right after its start
fn seq_grid(a: &crate::run::Run, b: &crate::run::Run) -> Vec<f64> {
    let (sa, sb) = match (a.sol().and_then(|s| s.sol_span()), b.sol().and_then(|s| s.sol_span())) {
        (Some(x), Some(y)) => (x, y),
        _ => return vec![],
    };
    let lo = sa.0.min(sa.1).max(sb.0.min(sb.1));
    let hi = sa.0.max(sa.1).min(sb.0.max(sb.1));
    if !(hi > lo) {
        return vec![];
    }
    let mut g: Vec<f64> = [1e-9, 1e-7, 1e-5, 1e-3].iter().map(|e| lo + e * (hi - lo)).collect();
    g.extend((0..41).map(|k| lo + (k as f64 + 0.3) / 41.0 * (hi - lo)));
    g
}

fn seq_answers(r: &crate::run::Run, grid: &[f64]) -> Vec<Vec<u64>> {
    let s = r.sol().unwrap();
    grid.iter().map(|&t| s.sol(t).map(|v| v.iter().map(|x| x.to_bits()).collect()).unwrap_or_default()).collect()
}

/// call j restarted where call i ended: its interval is shifted to the last abscissa of i, and it starts from the last
/// state of i when the dimensions agree (its own initial state otherwise)
fn seq_chain_cfg(cj: &Cfg, x: f64, y: &[f64]) -> Cfg {
    let mut c = cj.clone();
    let shift = x - cj.x0;
    c.x0 = x;
    c.xend = cj.xend + shift;
    if y.len() == cj.y0.len() && y.iter().all(|v| v.is_finite()) {
        c.y0 = y.to_vec();
    }
    if let Some(te) = &cj.t_eval {
        c.t_eval = Some(te.iter().map(|t| t + shift).collect());
    }
    c
}

fn hexs(v: &[f64]) -> String {
    v.iter().map(|x| format!("{:016x}", x.to_bits())).collect::<Vec<_>>().join(",")
}

/// child mode: `ivpv C12 --seq i j` runs calls i, j, i in this (fresh) process and prints the three fingerprints;
/// then the two solutions (kept alive) are queried alternately at the same times, and the call j is made once more
/// from the point where i ended
pub fn seq_child(i: usize, j: usize) -> i32 {
    let calls = seq_calls();
    let (a, b) = (&calls[i], &calls[j]);
    let ra = seq_run(&a.1, &a.2, a.3);
    let f1 = seq_fp_of(&ra);
    let rb = seq_run(&b.1, &b.2, b.3);
    let f2 = seq_fp_of(&rb);
    // interleaved queries of two live solutions against the same queries made of each alone
    let grid = seq_grid(&ra, &rb);
    let mut inter = 0;
    if !grid.is_empty() {
        let alone_a = seq_answers(&ra, &grid);
        let alone_b = seq_answers(&rb, &grid);
        let (sa, sb) = (ra.sol().unwrap(), rb.sol().unwrap());
        inter = 1;
        for (k, &t) in grid.iter().enumerate() {
            let qa: Vec<u64> = sa.sol(t).map(|v| v.iter().map(|x| x.to_bits()).collect()).unwrap_or_default();
            let qb: Vec<u64> = sb.sol(t).map(|v| v.iter().map(|x| x.to_bits()).collect()).unwrap_or_default();
            if qa != alone_a[k] || qb != alone_b[k] {
                inter = 2;
            }
        }
    }
    drop(rb);
    let r3 = seq_run(&a.1, &a.2, a.3);
    let f3 = seq_fp_of(&r3);
    // the continuation
    let mut chain = String::from("-");
    if let Some(s) = r3.sol() {
        if let (Some(&x), Some(y)) = (s.t.last(), s.y.last()) {
            if x.is_finite() && s.t.len() > 1 {
                let c = seq_chain_cfg(&b.2, x, y);
                let f4 = seq_fp(&b.1, &c, b.3);
                chain = format!("{:032x}@{:016x}@{}", f4, x.to_bits(), hexs(y));
            }
        }
    }
    println!("SEQ {:032x} {:032x} {:032x} {} {}", f1, f2, f3, inter, chain);
    0
}

/// child mode: `ivpv C12 --chain j xbits ybits,..`: the continuation call alone in a fresh process
pub fn chain_child(j: usize, xbits: &str, ybits: &str) -> i32 {
    let calls = seq_calls();
    let b = &calls[j];
    let x = f64::from_bits(u64::from_str_radix(xbits, 16).unwrap_or(0));
    let y: Vec<f64> = ybits.split(',').filter_map(|h| u64::from_str_radix(h, 16).ok()).map(f64::from_bits).collect();
    let c = seq_chain_cfg(&b.2, x, &y);
    println!("CHAIN {:032x}", seq_fp(&b.1, &c, b.3));
    0
}

#[derive(Clone, Debug)]
struct SeqOut {
    f: (u128, u128, u128),
    inter: u8,
    /// fingerprint of the continuation in the sequence, and of the same call alone in a fresh process
    chain: Option<(u128, Option<u128>)>,
}

fn seq_spawn(i: usize, j: usize) -> Option<SeqOut> {
    let exe = std::env::current_exe().ok()?;
    let out = std::process::Command::new(&exe).arg("C12").arg("--seq").arg(i.to_string()).arg(j.to_string()).output().ok()?;
    let txt = String::from_utf8_lossy(&out.stdout).to_string();
    let line = txt.lines().find(|l| l.starts_with("SEQ "))?;
    let w: Vec<&str> = line.split_whitespace().skip(1).collect();
    if w.len() != 5 {
        return None;
    }
    let f: Vec<u128> = w[..3].iter().filter_map(|x| u128::from_str_radix(x, 16).ok()).collect();
    if f.len() != 3 {
        return None;
    }
    let inter: u8 = w[3].parse().ok()?;
    let chain = if w[4] == "-" {
        None
    } else {
        let parts: Vec<&str> = w[4].split('@').collect();
        if parts.len() != 3 {
            return None;
        }
        let f4 = u128::from_str_radix(parts[0], 16).ok()?;
        let o = std::process::Command::new(&exe).arg("C12").arg("--chain").arg(j.to_string()).arg(parts[1]).arg(parts[2]).output().ok()?;
        let t = String::from_utf8_lossy(&o.stdout).to_string();
        let alone = t.lines().find(|l| l.starts_with("CHAIN ")).and_then(|l| u128::from_str_radix(l[6..].trim(), 16).ok());
        Some((f4, alone))
    };
    Some(SeqOut { f: (f[0], f[1], f[2]), inter, chain })
}

/// verdict for the ordered pair (i, j); `alone_j` is the fingerprint of call j as the first call of a fresh process
fn seq_verdict(i: usize, j: usize, got: &Option<SeqOut>, alone_j: Option<u128>, calls: &[(String, Prob, Cfg, usize)]) -> Vec<Violation> {
    let key = format!("seq:{}.{}", i, j);
    let case = json!({"key": key, "first_call": calls[i].0, "second_call": calls[j].0});
    let mut v = vec![];
    match (got, alone_j) {
        (Some(o), Some(bj)) => {
            let (a1, b2, a3) = o.f;
            if a1 != a3 {
                v.push(Violation::new(&key, "repeat-after-other-call", format!("the call [{}] gives a different result when it is repeated after the call [{}] in the same process", calls[i].0, calls[j].0), case.clone()));
            }
            if b2 != bj {
                v.push(Violation::new(&key, "call-after-other-call", format!("the call [{}] gives a different result after the call [{}] than as the first call of a process", calls[j].0, calls[i].0), case.clone()));
            }
            if o.inter == 2 {
                v.push(Violation::new(&key, "interleaved-queries", format!("the dense outputs of [{}] and [{}] answer differently when they are queried alternately at the same times than when each is queried alone", calls[i].0, calls[j].0), case.clone()));
            }
            match o.chain {
                Some((f4, Some(alone))) if f4 != alone => {
                    v.push(Violation::new(&key, "continuation-after-call", format!("the call [{}], restarted at the point where [{}] ended, gives a different result right after that call than alone in a fresh process", calls[j].0, calls[i].0), case.clone()));
                }
                Some((_, None)) => v.push(Violation::new(&key, "sequence-crashed", format!("the continuation of [{}] from the end of [{}] did not run to completion alone in a child process", calls[j].0, calls[i].0), case.clone())),
                _ => {}
            }
        }
        _ => v.push(Violation::new(&key, "sequence-crashed", format!("the sequence [{}], [{}], [{}] did not run to completion in a child process", calls[i].0, calls[j].0, calls[i].0), case)),
    }
    v
}

/// one solver object used for two `solve` calls: the second must be the call a fresh object makes
fn object_reuse(rep: &mut Report) {
    use crate::env::{Probe, ProbeSolOut};
    use ivp::methods::{Tolerance, BDF, DOP853, DOPRI5, RADAU, RK23, RK4};
    let probs = [(base(Base::Harmonic(1.0)), "harmonic"), (base(Base::Lin3), "lin3"), (base(Base::Logistic(2.0)), "logistic")];
    let spans: [(f64, f64); 4] = [(0.05, 3.0), (3.0, 0.05), (1.0, 1.0), (0.01, 40.0)];
    for &m in M6.iter() {
        for (p, pname) in &probs {
            for (si, &(s1, s2)) in spans.iter().enumerate() {
                for first_prob in 0..2usize {
                    let key = format!("reuse:{}:{}:{}:{}", mname(m), pname, si, first_prob);
                    // the first call of the shared object: the same problem, or another one
                    let p1 = if first_prob == 0 { p.clone() } else { base(Base::Harmonic(3.0)) };
                    macro_rules! two {
                        ($mk:expr, $call:expr) => {{
                            let shared = $mk;
                            let fresh = $mk;
                            let one = |obj: &_, pr: &Prob, xe: f64| {
                                let f = pr.rhs();
                                let probe = Probe::new(&f);
                                let mut so = ProbeSolOut::new(&probe);
                                let r = crate::util::guarded(|| $call(obj, &probe, &pr.y0, xe, &mut so));
                                let recs: Vec<(u64, Vec<u64>)> = so.recs.iter().map(|q| (q.x.to_bits(), q.y.iter().map(|v| v.to_bits()).collect())).collect();
                                drop(so);
                                let st = probe.state();
                                let res = match r {
                                    Ok(Ok(q)) => format!("{:?} h={:016x} {:?} {:?}", q.status, q.h.to_bits(), q.evals, q.steps),
                                    Ok(Err(e)) => format!("Err({:?})", e),
                                    Err(pn) => format!("PANIC({})", pn),
                                };
                                (st.fp.as_u128(), recs, res)
                            };
                            let _ = one(&shared, &p1, s1);
                            let second = one(&shared, p, s2);
                            let alone = one(&fresh, p, s2);
                            (second, alone)
                        }};
                    }
                    let (rt, at) = (Tolerance::Scalar(1e-6), Tolerance::Scalar(1e-8));
                    let (second, alone) = match m {
                        Method::RK4 => two!(RK4::builder().build(), |o: &RK4, pb: &Probe, y0: &[f64], xe: f64, so: &mut ProbeSolOut| o.solve(pb, 0.0, y0, xe, xe / 64.0, Some(so))),
                        Method::RK23 => two!(RK23::builder().build(), |o: &RK23, pb: &Probe, y0: &[f64], xe: f64, so: &mut ProbeSolOut| o.solve(pb, 0.0, y0, xe, rt.clone(), at.clone(), Some(so))),
                        Method::DOPRI5 => two!(DOPRI5::builder().build(), |o: &DOPRI5, pb: &Probe, y0: &[f64], xe: f64, so: &mut ProbeSolOut| o.solve(pb, 0.0, y0, xe, rt.clone(), at.clone(), Some(so))),
                        Method::DOP853 => two!(DOP853::builder().build(), |o: &DOP853, pb: &Probe, y0: &[f64], xe: f64, so: &mut ProbeSolOut| o.solve(pb, 0.0, y0, xe, rt.clone(), at.clone(), Some(so))),
                        Method::RADAU => two!(RADAU::builder().build(), |o: &RADAU, pb: &Probe, y0: &[f64], xe: f64, so: &mut ProbeSolOut| o.solve(pb, 0.0, y0, xe, rt.clone(), at.clone(), Some(so))),
                        Method::BDF => two!(BDF::builder().build(), |o: &BDF, pb: &Probe, y0: &[f64], xe: f64, so: &mut ProbeSolOut| o.solve(pb, 0.0, y0, xe, rt.clone(), at.clone(), Some(so))),
                    };
                    rep.evaluations += 3;
                    rep.validated += 1;
                    *rep.tags.entry("solver-object-reuse".into()).or_insert(0) += 1;
                    if second != alone {
                        let what = if second.2 != alone.2 { format!("{} vs {}", second.2, alone.2) } else { format!("{} vs {} accepted steps, or other abscissae/states", second.1.len(), alone.1.len()) };
                        rep.violations.push(
                            Violation::new(&key, "solver-object-reuse", format!("{}: the second solve() of one solver object ({} over [0,{}] after {} over [0,{}]) differs from the same call of a fresh object: {}", mname(m), pname, s2, if first_prob == 0 { *pname } else { "harmonic(3)" }, s1, what), json!({"key": key}))
                                .with("method", mname(m)),
                        );
                    }
                }
            }
        }
    }
}

pub fn run_check(replay: Option<Value>) -> i32 {
    let mut rep = Report::new("C12", "model_checking");
    let only = replay.as_ref().and_then(|c| c["key"].as_str().map(|s| s.to_string()));
    if let Some(o) = &only {
        if let Some(rest) = o.strip_prefix("seq:") {
            let ij: Vec<usize> = rest.split('.').filter_map(|x| x.parse().ok()).collect();
            let calls = seq_calls();
            if ij.len() == 2 && ij[0] < calls.len() && ij[1] < calls.len() {
                let vs = seq_verdict(ij[0], ij[1], &seq_spawn(ij[0], ij[1]), seq_spawn(ij[1], ij[1]).map(|o| o.f.0), &calls);
                for v in &vs {
                    println!("replay: VIOLATED [{}]: {}", v.sig["check"], v.msg);
                }
                if vs.is_empty() {
                    println!("replay: property holds on this case");
                }
                return if vs.is_empty() { 0 } else { 1 };
            }
            return 2;
        }
    }
    if let Some(o) = &only {
        if o.starts_with("reuse:") {
            let mut r2 = Report::new("C12", "model_checking");
            object_reuse(&mut r2);
            let vs: Vec<&Violation> = r2.violations.iter().filter(|v| v.key == *o).collect();
            for v in &vs {
                println!("replay: VIOLATED [{}]: {}", v.sig["check"], v.msg);
            }
            if vs.is_empty() {
                println!("replay: property holds on this case");
            }
            return if vs.is_empty() { 0 } else { 1 };
        }
    }
    let thorough = is_thorough();
    let probs = problems();
    let tols: Vec<f64> = if thorough { vec![1e-2, 1e-3, 1e-4, 1e-5, 1e-6, 1e-7, 1e-8, 1e-9, 1e-10] } else { vec![1e-3, 1e-6, 1e-9] };
    let dims = vec![
        dim("method", &M6.iter().map(|m| mname(*m)).collect::<Vec<_>>()),
        dim("problem", &probs.iter().map(|p| p.0.name.clone()).collect::<Vec<_>>()),
        dim("tol", &tols),
        dim("direction", &["forward", "backward(reflected)"]),
        dim("jacobian", &["user", "finite-difference"]),
        dim("t_eval_shape", &["13 points incl. both ends", "3 interior points only", "every second accepted time of the plain run and a neighbour 1e-13 away", "13 points, the last one an ulp short of xend", "257 points incl. both ends"]),
        dim("first_step", &["automatic", "span/37"]),
    ];
    lattice(&mut rep, "c12", &dims, only.as_deref(), |key, idx| {
        let m = M6[idx[0]];
        let (p0, span) = &probs[idx[1]];
        let tol = tols[idx[2]];
        let backward = idx[3] == 1;
        if idx[4] == 1 && !crate::run::is_implicit(m) {
            return None;
        }
        if backward && (p0.name.starts_with("vanderpol") || p0.name.contains("Quad")) {
            return None;
        }
        let p = if backward { reflect(p0) } else { p0.clone() };
        let xend = if backward { -*span } else { *span };
        // (the absolute tolerance in the units of the state)
        let unit = if p0.name.contains("1e200") { 1e200 } else { 1.0 };
        let mut c0 = Cfg::new(m, 0.0, xend, &p.y0).tol(tol, tol * 1e-2 * unit);
        c0.user_jac = idx[4] == 0;
        if idx[6] == 1 {
            c0.first_step = Some(xend / 37.0);
        }
        let te: Vec<f64> = if idx[5] == 4 {
            // more requested times than any default step count
            (0..=256).map(|i| xend * i as f64 / 256.0).collect()
        } else if idx[5] == 0 {
            (0..=12).map(|i| xend * i as f64 / 12.0).collect()
        } else if idx[5] == 3 {
            // the integration interval is what the caller said, also when the grid misses xend by rounding
            (0..=12).map(|i| if i == 12 { xend * (1.0 - f64::EPSILON) } else { xend * i as f64 / 12.0 }).collect()
        } else {
            vec![0.21 * xend, 0.5 * xend, 0.83 * xend]
        };
        let desc = json!({"key": key, "point": describe(&dims, idx), "cfg": c0.json(&p.name)});
        let mut out = CaseOut::default();
        macro_rules! viol {
            ($c:expr, $m:expr) => {
                out.violations.push(Violation::new(key, $c, $m, desc.clone()).with("method", mname(m)))
            };
        }
        let plain = run(&p, &c0);
        let ps = match &plain.out {
            Outcome::Ok(s) if s.status == Status::Success => s,
            _ => {
                viol!("outcome", format!("plain run ended with {}", plain.outcome_name()));
                return Some(out);
            }
        };
        // shape 2: requested times that coincide exactly with accepted step ends (and near misses)
        let te: Vec<f64> = if idx[5] == 2 {
            let mut v = vec![];
            for (k, t) in ps.t.iter().enumerate() {
                if k % 2 == 0 && k > 0 {
                    v.push(*t);
                    let nb = t + 1e-13 * xend.signum() * (1.0 + t.abs());
                    if (nb - xend) * xend.signum() < 0.0 {
                        v.push(nb);
                    }
                }
            }
            if v.is_empty() {
                return None;
            }
            v
        } else {
            te
        };
        out.events = plain.st.n_ode;
        let stats = |s: &Solution| (s.nfev, s.njev, s.nlu, s.nstep, s.naccpt, s.nrejct);
        let mut events_seen: Option<(String, Vec<Vec<u64>>)> = None;
        for subset in 0..8u32 {
            let mut c = c0.clone();
            let (with_te, with_dense, with_ev) = (subset & 1 != 0, subset & 2 != 0, subset & 4 != 0);
            if with_te {
                c.t_eval = Some(te.clone());
            }
            c.dense = with_dense;
            if with_ev {
                c.events = vec![EventSpec::new(EvKind::Y(0, 0.5 * p.y0[0])), EventSpec::new(EvKind::Cos(2.0)), EventSpec::new(EvKind::T(0.37 * xend)).dir(Direction::Positive)];
                // an event function that is exactly zero at an interior accepted step end
                if ps.t.len() > 4 {
                    c.events.push(EventSpec::new(EvKind::T(ps.t[ps.t.len() / 2])));
                }
                // an event function with a restricted domain: not a number from 0.61 of the span on
                c.events.push(EventSpec::new(EvKind::SqrtUntil(0.61 * xend, xend.signum())));
            }
            let label = format!("{{{}{}{}}}", if with_te { "t_eval " } else { "" }, if with_dense { "dense " } else { "" }, if with_ev { "events" } else { "" });
            let (r1, r2) = (run(&p, &c), run(&p, &c));
            // the events that are reported do not depend on the other two options either
            if with_ev {
                if let Some(s) = r1.sol() {
                    let tev: Vec<Vec<u64>> = s.t_events.iter().map(|l| l.iter().map(|t| t.to_bits()).collect()).collect();
                    match &events_seen {
                        None => events_seen = Some((label.clone(), tev)),
                        Some((l0, t0)) => {
                            if *t0 != tev {
                                viol!("events-differ", format!("subset {} reports other event times than subset {}: {:?} vs {:?}", label, l0, s.t_events.iter().map(|l| l.len()).collect::<Vec<_>>(), t0.iter().map(|l| l.len()).collect::<Vec<_>>()));
                            }
                        }
                    }
                }
            }
            out.events += r1.st.n_ode + r2.st.n_ode;
            let (s1, s2) = match (&r1.out, &r2.out) {
                (Outcome::Ok(a), Outcome::Ok(b)) => (a, b),
                _ => {
                    viol!("outcome", format!("subset {} ended with {} / {}", label, r1.outcome_name(), r2.outcome_name()));
                    continue;
                }
            };
            // repeatability
            let same = s1.t.len() == s2.t.len()
                && s1.t.iter().zip(&s2.t).all(|(a, b)| a.to_bits() == b.to_bits())
                && s1.y.iter().zip(&s2.y).all(|(a, b)| a.iter().zip(b).all(|(u, v)| u.to_bits() == v.to_bits()))
                && r1.st.fp == r2.st.fp
                && stats(s1) == stats(s2)
                && s1.t_events == s2.t_events;
            if !same {
                viol!("not-repeatable", format!("subset {}: repeating the call gives different results", label));
            }
            // same integration as the plain run
            if s1.status != Status::Success {
                viol!("status", format!("subset {}: status {:?}", label, s1.status));
            }
            if r1.st.fp != plain.st.fp {
                viol!("integration-perturbed", format!("subset {}: the sequence of RHS evaluations (times and states) differs from the plain run ({} vs {} calls)", label, r1.st.n_ode, plain.st.n_ode));
            }
            if stats(s1) != stats(ps) {
                viol!("statistics", format!("subset {}: (nfev,njev,nlu,nstep,naccpt,nrejct) = {:?}, plain run {:?}", label, stats(s1), stats(ps)));
            }
            if !with_te {
                let same_grid = s1.t.len() == ps.t.len() && s1.t.iter().zip(&ps.t).all(|(a, b)| a.to_bits() == b.to_bits()) && s1.y.iter().zip(&ps.y).all(|(a, b)| a.iter().zip(b).all(|(u, v)| u.to_bits() == v.to_bits()));
                if !same_grid {
                    viol!("steps", format!("subset {}: accepted steps / states differ from the plain run", label));
                }
            } else if idx[5] == 0 {
                // final state: the requested xend value against the plain run's last sample
                let (yl, pl) = (s1.y.last().unwrap(), ps.y.last().unwrap());
                let d = yl.iter().zip(pl).fold(0.0f64, |a, (u, v)| a.max((u - v).abs()));
                let sc = 1.0 + pl.iter().fold(0.0f64, |a, v| a.max(v.abs()));
                if s1.t.len() != te.len() || d > 64.0 * f64::EPSILON * sc {
                    viol!("final-state", format!("subset {}: value at xend differs from the plain run's final state by {:e}", label, d));
                }
            }
            if with_dense && !with_te {
                // the plain run's samples are reproduced by sol_many
                if let Ok(v) = s1.sol_many(&ps.t) {
                    for (a, b) in v.iter().zip(&ps.y) {
                        let d = a.iter().zip(b).fold(0.0f64, |m2, (u, w)| m2.max((u - w).abs()));
                        if d > 1e-12 * (1.0 + b.iter().fold(0.0f64, |m2, w| m2.max(w.abs()))) + 1e-11 {
                            viol!("dense-vs-plain", format!("subset {}: sol_many at the plain run's times differs by {:e}", label, d));
                            break;
                        }
                    }
                }
            }
            out.validated += 4;
        }
        out.tag("eight-subsets");
        out.fp = Some(plain.st.fp.as_u128());
        out.sample = Some(desc);
        Some(out)
    });
    // very long runs (more than 1.3e5 accepted steps, forced by max_step / RK4's fixed step): output options
    // must not bring a step budget or anything else that depends on the length of the run
    let ldims = vec![dim("method", &M6.iter().map(|m| mname(*m)).collect::<Vec<_>>()), dim("direction", &["forward", "backward(reflected)"])];
    lattice(&mut rep, "long", &ldims, only.as_deref(), |key, idx| {
        let m = M6[idx[0]];
        let p0 = base(Base::Harmonic(1.0));
        let p = if idx[1] == 1 { reflect(&p0) } else { p0 };
        let xend = if idx[1] == 1 { -13.0 } else { 13.0 };
        let mut c0 = Cfg::new(m, 0.0, xend, &p.y0).tol(1e-6, 1e-8);
        c0.user_jac = true;
        if m == Method::RK4 {
            c0.first_step = Some(xend / 130_000.5);
        } else {
            c0.max_step = Some(1e-4);
        }
        c0.budget = 50_000_000;
        let desc = json!({"key": key, "point": describe(&ldims, idx), "cfg": c0.json(&p.name)});
        let mut out = CaseOut::default();
        let plain = run(&p, &c0);
        let ps = match &plain.out {
            Outcome::Ok(s) if s.status == Status::Success && s.naccpt > 100_000 => s,
            _ => {
                out.violations.push(Violation::new(key, "outcome", format!("plain long run ended with {} ({} accepted steps)", plain.outcome_name(), plain.sol().map(|s| s.naccpt).unwrap_or(0)), desc).with("method", mname(m)));
                return Some(out);
            }
        };
        out.events = plain.st.n_ode;
        for (label, dense, te) in [("{dense}", true, false), ("{t_eval}", false, true), ("{t_eval dense}", true, true)] {
            let mut c = c0.clone();
            c.dense = dense;
            if te {
                c.t_eval = Some((0..=4).map(|i| xend * i as f64 / 4.0).collect());
            }
            let r = run(&p, &c);
            out.events += r.st.n_ode;
            match &r.out {
                Outcome::Ok(s) => {
                    let st = |s: &Solution| (s.nfev, s.njev, s.nlu, s.nstep, s.naccpt, s.nrejct);
                    if s.status != ps.status || r.st.fp != plain.st.fp || st(s) != st(ps) {
                        out.violations.push(Violation::new(key, "integration-perturbed", format!("subset {} of a {}-step run: status {:?} (plain {:?}), statistics {:?} (plain {:?}), RHS record {}", label, ps.naccpt, s.status, ps.status, st(s), st(ps), if r.st.fp == plain.st.fp { "identical" } else { "differs" }), desc.clone()).with("method", mname(m)));
                    }
                    out.validated += 1;
                }
                _ => out.violations.push(Violation::new(key, "outcome", format!("subset {} ended with {}", label, r.outcome_name()), desc.clone()).with("method", mname(m))),
            }
        }
        out.tag("long-run");
        out.fp = Some(plain.st.fp.as_u128() ^ 0x10);
        out.sample = Some(desc);
        Some(out)
    });
    // tiny spans (3e-13 and 4e-14, below every absolute time constant of the library): requesting output
    // must not turn the run into something else (e.g. into the zero-length shortcut)
    let tdims = vec![dim("method", &M6.iter().map(|m| mname(*m)).collect::<Vec<_>>()), dim("direction", &["forward", "backward(reflected)"]), dim("span", &[3e-13, 4e-14])];
    lattice(&mut rep, "tiny", &tdims, only.as_deref(), |key, idx| {
        let m = M6[idx[0]];
        let p0 = crate::problems::timescale(&base(Base::Harmonic(1.0)), 1e13);
        let p = if idx[1] == 1 { reflect(&p0) } else { p0 };
        let span = [3e-13, 4e-14][idx[2]];
        let xend = if idx[1] == 1 { -span } else { span };
        let mut c0 = Cfg::new(m, 0.0, xend, &p.y0).tol(1e-6, 1e-8);
        c0.user_jac = true;
        let desc = json!({"key": key, "point": describe(&tdims, idx), "cfg": c0.json(&p.name)});
        let mut out = CaseOut::default();
        let plain = run(&p, &c0);
        let ps = match &plain.out {
            Outcome::Ok(s) => s,
            _ => {
                out.violations.push(Violation::new(key, "outcome", format!("plain run over a span of {:e} ended with {}", span, plain.outcome_name()), desc).with("method", mname(m)));
                return Some(out);
            }
        };
        out.events = plain.st.n_ode;
        for (label, dense, te) in [("{dense}", true, false), ("{t_eval}", false, true), ("{t_eval dense}", true, true)] {
            let mut c = c0.clone();
            c.dense = dense;
            if te {
                c.t_eval = Some(vec![0.0, xend / 3.0, xend]);
            }
            let r = run(&p, &c);
            out.events += r.st.n_ode;
            match &r.out {
                Outcome::Ok(s) => {
                    let st = |s: &Solution| (s.nfev, s.njev, s.nlu, s.nstep, s.naccpt, s.nrejct);
                    if s.status != ps.status || r.st.fp != plain.st.fp || st(s) != st(ps) {
                        out.violations.push(Violation::new(key, "integration-perturbed", format!("subset {} over a span of {:e}: status {:?} (plain {:?}), statistics {:?} (plain {:?}), RHS record {}", label, span, s.status, ps.status, st(s), st(ps), if r.st.fp == plain.st.fp { "identical" } else { "differs" }), desc.clone()).with("method", mname(m)));
                    }
                    out.validated += 1;
                }
                _ => out.violations.push(Violation::new(key, "outcome", format!("subset {} ended with {}", label, r.outcome_name()), desc.clone()).with("method", mname(m))),
            }
        }
        out.tag("tiny-span");
        out.fp = Some(plain.st.fp.as_u128() ^ 0x20);
        out.sample = Some(desc);
        Some(out)
    });
    // intervals that contain zero, with coarse steps: the last step is longer than the distance of its left end
    // from the origin (xold + (xend - xold) need not be xend), for the methods that put the end on xend itself
    const CROSS: [(f64, f64); 8] = [(-1.0, 0.3), (-2.0, 0.1), (1.0, -0.3), (3.0, -0.05), (-5.0, 0.2), (-1.0, 0.001), (2.0, -0.007), (-0.7, 0.7)];
    let xdims = vec![dim("method", &M6.iter().map(|m| mname(*m)).collect::<Vec<_>>()), dim("interval", &CROSS.iter().map(|(a, b)| format!("[{},{}]", a, b)).collect::<Vec<_>>()), dim("steps", &["coarse", "coarser"])];
    lattice(&mut rep, "cross", &xdims, only.as_deref(), |key, idx| {
        let m = M6[idx[0]];
        let (x0, xend) = CROSS[idx[1]];
        let p = base(Base::Harmonic(1.0));
        let mut c0 = Cfg::new(m, x0, xend, &p.y0).tol([0.1, 0.3][idx[2]], 1e-3);
        c0.user_jac = true;
        c0.first_step = Some((xend - x0) * [0.7 / 1.3, 0.19][idx[2]]);
        let desc = json!({"key": key, "point": describe(&xdims, idx), "cfg": c0.json(&p.name)});
        let mut out = CaseOut::default();
        let plain = run(&p, &c0);
        let ps = match &plain.out {
            Outcome::Ok(s) if s.status == Status::Success => s,
            _ => return None,
        };
        out.events = plain.st.n_ode;
        for (label, dense, te) in [("{dense}", true, false), ("{t_eval}", false, true), ("{t_eval dense}", true, true)] {
            let mut c = c0.clone();
            c.dense = dense;
            if te {
                c.t_eval = Some(vec![x0, x0 + (xend - x0) / 3.0, xend]);
            }
            let r = run(&p, &c);
            out.events += r.st.n_ode;
            match &r.out {
                Outcome::Ok(s) => {
                    let st = |s: &Solution| (s.nfev, s.njev, s.nlu, s.nstep, s.naccpt, s.nrejct);
                    let same_grid = te || (s.t.len() == ps.t.len() && s.t.iter().zip(&ps.t).all(|(a, b)| a.to_bits() == b.to_bits()) && s.y.iter().zip(&ps.y).all(|(a, b)| a.iter().zip(b).all(|(u, w)| u.to_bits() == w.to_bits())));
                    if s.status != ps.status || r.st.fp != plain.st.fp || st(s) != st(ps) || !same_grid {
                        out.violations.push(
                            Violation::new(key, "integration-perturbed", format!("subset {} on [{},{}]: status {:?} (plain {:?}), statistics {:?} (plain {:?}), RHS record {}, accepted steps and states {} (last time {:?}, plain {:?})", label, x0, xend, s.status, ps.status, st(s), st(ps), if r.st.fp == plain.st.fp { "identical" } else { "differs" }, if same_grid { "identical" } else { "differ" }, s.t.last(), ps.t.last()), desc.clone())
                                .with("method", mname(m)),
                        );
                    }
                    out.validated += 1;
                }
                _ => out.violations.push(Violation::new(key, "outcome", format!("subset {} ended with {}", label, r.outcome_name()), desc.clone()).with("method", mname(m))),
            }
        }
        out.tag("interval-across-zero");
        out.fp = Some(plain.st.fp.as_u128() ^ 0x30);
        out.sample = Some(desc);
        Some(out)
    });
    // runs that the explicit methods end themselves (ProbablyStiff after about a thousand steps on y' = -2e4 (y - cos x)):
    // asking for output does not change where and how the run ends
    let kdims = vec![dim("method", &["DOPRI5", "DOP853"]), dim("direction", &["forward", "backward(reflected)"])];
    lattice(&mut rep, "stiffend", &kdims, only.as_deref(), |key, idx| {
        let m = [Method::DOPRI5, Method::DOP853][idx[0]];
        let p0 = Prob {
            name: "tracking y'=-2e4(y-cos x)".into(),
            n: 1,
            f: Arc::new(|t, y, d| d[0] = -2e4 * (y[0] - t.cos())),
            jac: None,
            flow: None,
            y0: vec![1.0],
            linear_homogeneous: false,
        };
        let p = if idx[1] == 1 { reflect(&p0) } else { p0 };
        let xend = if idx[1] == 1 { -2.0 } else { 2.0 };
        let c0 = Cfg::new(m, 0.0, xend, &p.y0).tol(1e-6, 1e-8);
        let desc = json!({"key": key, "point": describe(&kdims, idx), "cfg": c0.json(&p.name)});
        let mut out = CaseOut::default();
        let plain = run(&p, &c0);
        let ps = match &plain.out {
            Outcome::Ok(s) => s,
            _ => return None,
        };
        out.events = plain.st.n_ode;
        if ps.status == Status::ProbablyStiff {
            out.tag("run-ended-by-the-stiffness-test");
        }
        for (label, dense, te, ev) in [("{dense}", true, false, false), ("{t_eval}", false, true, false), ("{t_eval dense}", true, true, false), ("{events}", false, false, true), ("{dense events}", true, false, true)] {
            let mut c = c0.clone();
            c.dense = dense;
            if te {
                c.t_eval = Some((0..=20).map(|i| xend * i as f64 / 20.0).collect());
            }
            if ev {
                c.events = vec![EventSpec::new(EvKind::Cos(40.0)), EventSpec::new(EvKind::T(0.1 * xend))];
            }
            let r = run(&p, &c);
            out.events += r.st.n_ode;
            match &r.out {
                Outcome::Ok(s) => {
                    let st = |s: &Solution| (s.nfev, s.njev, s.nlu, s.nstep, s.naccpt, s.nrejct);
                    if s.status != ps.status || r.st.fp != plain.st.fp || st(s) != st(ps) {
                        out.violations.push(
                            Violation::new(key, "integration-perturbed", format!("subset {}: status {:?} (plain {:?}), statistics {:?} (plain {:?}), RHS record {}", label, s.status, ps.status, st(s), st(ps), if r.st.fp == plain.st.fp { "identical" } else { "differs" }), desc.clone()).with("method", mname(m)),
                        );
                    }
                    out.validated += 1;
                }
                _ => out.violations.push(Violation::new(key, "outcome", format!("subset {} ended with {}", label, r.outcome_name()), desc.clone()).with("method", mname(m))),
            }
        }
        out.fp = Some(plain.st.fp.as_u128() ^ 0x40);
        out.sample = Some(desc);
        Some(out)
    });
    if only.is_none() {
        let calls = seq_calls();
        let n = calls.len();
        let pairs: Vec<(usize, usize)> = (0..n).flat_map(|i| (0..n).map(move |j| (i, j))).collect();
        let res = crate::util::par_map(pairs.len(), |k| seq_spawn(pairs[k].0, pairs[k].1));
        let alone: Vec<Option<u128>> = (0..n).map(|j| res[j * n + j].as_ref().map(|o| o.f.0)).collect();
        let mut distinct = std::collections::HashSet::new();
        let (mut inter, mut chains) = (0u64, 0u64);
        let mut distinct_chain = std::collections::HashSet::new();
        for (k, (i, j)) in pairs.iter().enumerate() {
            rep.evaluations += 1;
            rep.validated += 2;
            if let Some(o) = &res[k] {
                distinct.insert(o.f.1);
                if o.inter > 0 {
                    inter += 1;
                }
                if let Some((f4, _)) = o.chain {
                    chains += 1;
                    distinct_chain.insert(f4);
                }
            }
            rep.violations.extend(seq_verdict(*i, *j, &res[k], alone[*j], &calls));
        }
        *rep.tags.entry("call-sequences".into()).or_insert(0) += pairs.len() as u64;
        *rep.tags.entry("call-sequence-distinct-results".into()).or_insert(0) += distinct.len() as u64;
        *rep.tags.entry("interleaved-dense-pairs".into()).or_insert(0) += inter;
        *rep.tags.entry("continuations".into()).or_insert(0) += chains;
        *rep.tags.entry("continuation-distinct-results".into()).or_insert(0) += distinct_chain.len() as u64;
        object_reuse(&mut rep);
    }
    if only.is_some() {
        for v in &rep.violations {
            println!("replay: VIOLATED [{}]: {}\n{}", v.sig["check"], v.msg, serde_json::to_string_pretty(&v.case).unwrap());
        }
        if rep.violations.is_empty() {
            println!("replay: property holds on this case");
        }
        return if rep.violations.is_empty() { 0 } else { 1 };
    }
    rep.require("eight-subsets", 100);
    rep.require("long-run", 6);
    rep.require("tiny-span", 12);
    rep.require("interval-across-zero", 60);
    rep.require("run-ended-by-the-stiffness-test", 2);
    rep.require("call-sequences", 500);
    rep.require("call-sequence-distinct-results", 20);
    rep.require("interleaved-dense-pairs", 100);
    rep.require("continuations", 5000);
    rep.require("continuation-distinct-results", 500);
    rep.require("solver-object-reuse", 100);
    rep.rule = "for every lattice point the plain run and all 8 subsets of {t_eval, dense_output, non-terminal events} are run twice; oracle: identical 128-bit fingerprint of every non-Jacobian RHS call (time and state bits: the complete record of the integration), identical statistics, identical accepted steps and states when no t_eval is given, final state, repeatability; runs of more than 1.3e5 accepted steps with {dense}, {t_eval}, {t_eval dense}; distinct = distinct plain-run fingerprints".into();
    rep.finish()
}
