//! C12 — output options do not perturb the integration.

use crate::env::{EvKind, EventSpec};
use crate::explore::{describe, dim, lattice};
use crate::problems::{base, reflect, warp, Base, Prob, Warp};
use crate::report::{is_thorough, CaseOut, Report, Violation};
use crate::run::{mname, run, Cfg, Outcome, M6};
use ivp::prelude::*;
use serde_json::{json, Value};
use std::sync::Arc;

fn vdp(mu: f64) -> Prob {
    Prob {
        name: format!("vanderpol(mu={})", mu),
        n: 2,
        f: Arc::new(move |_t, y, d| {
            d[0] = y[1];
            d[1] = mu * (1.0 - y[0] * y[0]) * y[1] - y[0];
        }),
        jac: Some(Arc::new(move |_t, y| vec![0.0, 1.0, -2.0 * mu * y[0] * y[1] - 1.0, mu * (1.0 - y[0] * y[0])])),
        flow: None,
        y0: vec![2.0, 0.0],
        linear_homogeneous: false,
    }
}

fn problems() -> Vec<(Prob, f64)> {
    vec![(base(Base::Harmonic(2.0)), 3.0), (warp(&base(Base::Logistic(2.0)), Warp::Sin), 3.0), (base(Base::Lin3), 2.0), (vdp(3.0), 4.0), (warp(&base(Base::Rational), Warp::Quad), 1.5)]
}

pub fn run_check(replay: Option<Value>) -> i32 {
    let mut rep = Report::new("C12", "model_checking");
    let only = replay.as_ref().and_then(|c| c["key"].as_str().map(|s| s.to_string()));
    let thorough = is_thorough();
    let probs = problems();
    let tols: Vec<f64> = if thorough { vec![1e-2, 1e-3, 1e-4, 1e-5, 1e-6, 1e-7, 1e-8, 1e-9, 1e-10] } else { vec![1e-3, 1e-6, 1e-9] };
    let dims = vec![
        dim("method", &M6.iter().map(|m| mname(*m)).collect::<Vec<_>>()),
        dim("problem", &probs.iter().map(|p| p.0.name.clone()).collect::<Vec<_>>()),
        dim("tol", &tols),
        dim("direction", &["forward", "backward(reflected)"]),
        dim("jacobian", &["user", "finite-difference"]),
        dim("t_eval_shape", &["13 points incl. both ends", "3 interior points only", "every second accepted time of the plain run and a neighbour 1e-13 away", "13 points, the last one an ulp short of xend", "257 points incl. both ends"]),
        dim("first_step", &["automatic", "span/37"]),
    ];
    lattice(&mut rep, "c12", &dims, only.as_deref(), |key, idx| {
        let m = M6[idx[0]];
        let (p0, span) = &probs[idx[1]];
        let tol = tols[idx[2]];
        let backward = idx[3] == 1;
        if idx[4] == 1 && !crate::run::is_implicit(m) {
            return None;
        }
        if backward && (p0.name.starts_with("vanderpol") || p0.name.contains("Quad")) {
            return None;
        }
        let p = if backward { reflect(p0) } else { p0.clone() };
        let xend = if backward { -*span } else { *span };
        let mut c0 = Cfg::new(m, 0.0, xend, &p.y0).tol(tol, tol * 1e-2);
        c0.user_jac = idx[4] == 0;
        if idx[6] == 1 {
            c0.first_step = Some(xend / 37.0);
        }
        let te: Vec<f64> = if idx[5] == 4 {
            // more requested times than any default step count
            (0..=256).map(|i| xend * i as f64 / 256.0).collect()
        } else if idx[5] == 0 {
            (0..=12).map(|i| xend * i as f64 / 12.0).collect()
        } else if idx[5] == 3 {
            // the integration interval is what the caller said, also when the grid misses xend by rounding
            (0..=12).map(|i| if i == 12 { xend * (1.0 - f64::EPSILON) } else { xend * i as f64 / 12.0 }).collect()
        } else {
            vec![0.21 * xend, 0.5 * xend, 0.83 * xend]
        };
        let desc = json!({"key": key, "point": describe(&dims, idx), "cfg": c0.json(&p.name)});
        let mut out = CaseOut::default();
        macro_rules! viol {
            ($c:expr, $m:expr) => {
                out.violations.push(Violation::new(key, $c, $m, desc.clone()).with("method", mname(m)))
            };
        }
        let plain = run(&p, &c0);
        let ps = match &plain.out {
            Outcome::Ok(s) if s.status == Status::Success => s,
            _ => {
                viol!("outcome", format!("plain run ended with {}", plain.outcome_name()));
                return Some(out);
            }
        };
        // shape 2: requested times that coincide exactly with accepted step ends (and near misses)
        let te: Vec<f64> = if idx[5] == 2 {
            let mut v = vec![];
            for (k, t) in ps.t.iter().enumerate() {
                if k % 2 == 0 && k > 0 {
                    v.push(*t);
                    let nb = t + 1e-13 * xend.signum() * (1.0 + t.abs());
                    if (nb - xend) * xend.signum() < 0.0 {
                        v.push(nb);
                    }
                }
            }
            if v.is_empty() {
                return None;
            }
            v
        } else {
            te
        };
        out.events = plain.st.n_ode;
        let stats = |s: &Solution| (s.nfev, s.njev, s.nlu, s.nstep, s.naccpt, s.nrejct);
        for subset in 0..8u32 {
            let mut c = c0.clone();
            let (with_te, with_dense, with_ev) = (subset & 1 != 0, subset & 2 != 0, subset & 4 != 0);
            if with_te {
                c.t_eval = Some(te.clone());
            }
            c.dense = with_dense;
            if with_ev {
                c.events = vec![EventSpec::new(EvKind::Y(0, 0.5 * p.y0[0])), EventSpec::new(EvKind::Cos(2.0)), EventSpec::new(EvKind::T(0.37 * xend)).dir(Direction::Positive)];
                // an event function that is exactly zero at an interior accepted step end
                if ps.t.len() > 4 {
                    c.events.push(EventSpec::new(EvKind::T(ps.t[ps.t.len() / 2])));
                }
                // an event function with a restricted domain: not a number from 0.61 of the span on
                c.events.push(EventSpec::new(EvKind::SqrtUntil(0.61 * xend, xend.signum())));
            }
            let label = format!("{{{}{}{}}}", if with_te { "t_eval " } else { "" }, if with_dense { "dense " } else { "" }, if with_ev { "events" } else { "" });
            let (r1, r2) = (run(&p, &c), run(&p, &c));
            out.events += r1.st.n_ode + r2.st.n_ode;
            let (s1, s2) = match (&r1.out, &r2.out) {
                (Outcome::Ok(a), Outcome::Ok(b)) => (a, b),
                _ => {
                    viol!("outcome", format!("subset {} ended with {} / {}", label, r1.outcome_name(), r2.outcome_name()));
                    continue;
                }
            };
            // repeatability
            let same = s1.t.len() == s2.t.len()
                && s1.t.iter().zip(&s2.t).all(|(a, b)| a.to_bits() == b.to_bits())
                && s1.y.iter().zip(&s2.y).all(|(a, b)| a.iter().zip(b).all(|(u, v)| u.to_bits() == v.to_bits()))
                && r1.st.fp == r2.st.fp
                && stats(s1) == stats(s2)
                && s1.t_events == s2.t_events;
            if !same {
                viol!("not-repeatable", format!("subset {}: repeating the call gives different results", label));
            }
            // same integration as the plain run
            if s1.status != Status::Success {
                viol!("status", format!("subset {}: status {:?}", label, s1.status));
            }
            if r1.st.fp != plain.st.fp {
                viol!("integration-perturbed", format!("subset {}: the sequence of RHS evaluations (times and states) differs from the plain run ({} vs {} calls)", label, r1.st.n_ode, plain.st.n_ode));
            }
            if stats(s1) != stats(ps) {
                viol!("statistics", format!("subset {}: (nfev,njev,nlu,nstep,naccpt,nrejct) = {:?}, plain run {:?}", label, stats(s1), stats(ps)));
            }
            if !with_te {
                let same_grid = s1.t.len() == ps.t.len() && s1.t.iter().zip(&ps.t).all(|(a, b)| a.to_bits() == b.to_bits()) && s1.y.iter().zip(&ps.y).all(|(a, b)| a.iter().zip(b).all(|(u, v)| u.to_bits() == v.to_bits()));
                if !same_grid {
                    viol!("steps", format!("subset {}: accepted steps / states differ from the plain run", label));
                }
            } else if idx[5] == 0 {
                // final state: the requested xend value against the plain run's last sample
                let (yl, pl) = (s1.y.last().unwrap(), ps.y.last().unwrap());
                let d = yl.iter().zip(pl).fold(0.0f64, |a, (u, v)| a.max((u - v).abs()));
                let sc = 1.0 + pl.iter().fold(0.0f64, |a, v| a.max(v.abs()));
                if s1.t.len() != te.len() || d > 64.0 * f64::EPSILON * sc {
                    viol!("final-state", format!("subset {}: value at xend differs from the plain run's final state by {:e}", label, d));
                }
            }
            if with_dense && !with_te {
                // the plain run's samples are reproduced by sol_many
                if let Ok(v) = s1.sol_many(&ps.t) {
                    for (a, b) in v.iter().zip(&ps.y) {
                        let d = a.iter().zip(b).fold(0.0f64, |m2, (u, w)| m2.max((u - w).abs()));
                        if d > 1e-12 * (1.0 + b.iter().fold(0.0f64, |m2, w| m2.max(w.abs()))) + 1e-11 {
                            viol!("dense-vs-plain", format!("subset {}: sol_many at the plain run's times differs by {:e}", label, d));
                            break;
                        }
                    }
                }
            }
            out.validated += 4;
        }
        out.tag("eight-subsets");
        out.fp = Some(plain.st.fp.as_u128());
        out.sample = Some(desc);
        Some(out)
    });
    // very long runs (more than 1.3e5 accepted steps, forced by max_step / RK4's fixed step): output options
    // must not bring a step budget or anything else that depends on the length of the run
    let ldims = vec![dim("method", &M6.iter().map(|m| mname(*m)).collect::<Vec<_>>()), dim("direction", &["forward", "backward(reflected)"])];
    lattice(&mut rep, "long", &ldims, only.as_deref(), |key, idx| {
        let m = M6[idx[0]];
        let p0 = base(Base::Harmonic(1.0));
        let p = if idx[1] == 1 { reflect(&p0) } else { p0 };
        let xend = if idx[1] == 1 { -13.0 } else { 13.0 };
        let mut c0 = Cfg::new(m, 0.0, xend, &p.y0).tol(1e-6, 1e-8);
        c0.user_jac = true;
        if m == Method::RK4 {
            c0.first_step = Some(xend / 130_000.5);
        } else {
            c0.max_step = Some(1e-4);
        }
        c0.budget = 50_000_000;
        let desc = json!({"key": key, "point": describe(&ldims, idx), "cfg": c0.json(&p.name)});
        let mut out = CaseOut::default();
        let plain = run(&p, &c0);
        let ps = match &plain.out {
            Outcome::Ok(s) if s.status == Status::Success && s.naccpt > 100_000 => s,
            _ => {
                out.violations.push(Violation::new(key, "outcome", format!("plain long run ended with {} ({} accepted steps)", plain.outcome_name(), plain.sol().map(|s| s.naccpt).unwrap_or(0)), desc).with("method", mname(m)));
                return Some(out);
            }
        };
        out.events = plain.st.n_ode;
        for (label, dense, te) in [("{dense}", true, false), ("{t_eval}", false, true), ("{t_eval dense}", true, true)] {
            let mut c = c0.clone();
            c.dense = dense;
            if te {
                c.t_eval = Some((0..=4).map(|i| xend * i as f64 / 4.0).collect());
            }
            let r = run(&p, &c);
            out.events += r.st.n_ode;
            match &r.out {
                Outcome::Ok(s) => {
                    let st = |s: &Solution| (s.nfev, s.njev, s.nlu, s.nstep, s.naccpt, s.nrejct);
                    if s.status != ps.status || r.st.fp != plain.st.fp || st(s) != st(ps) {
                        out.violations.push(Violation::new(key, "integration-perturbed", format!("subset {} of a {}-step run: status {:?} (plain {:?}), statistics {:?} (plain {:?}), RHS record {}", label, ps.naccpt, s.status, ps.status, st(s), st(ps), if r.st.fp == plain.st.fp { "identical" } else { "differs" }), desc.clone()).with("method", mname(m)));
                    }
                    out.validated += 1;
                }
                _ => out.violations.push(Violation::new(key, "outcome", format!("subset {} ended with {}", label, r.outcome_name()), desc.clone()).with("method", mname(m))),
            }
        }
        out.tag("long-run");
        out.fp = Some(plain.st.fp.as_u128() ^ 0x10);
        out.sample = Some(desc);
        Some(out)
    });
    // tiny spans (3e-13 and 4e-14, below every absolute time constant of the library): requesting output
    // must not turn the run into something else (e.g. into the zero-length shortcut)
    let tdims = vec![dim("method", &M6.iter().map(|m| mname(*m)).collect::<Vec<_>>()), dim("direction", &["forward", "backward(reflected)"]), dim("span", &[3e-13, 4e-14])];
    lattice(&mut rep, "tiny", &tdims, only.as_deref(), |key, idx| {
        let m = M6[idx[0]];
        let p0 = crate::problems::timescale(&base(Base::Harmonic(1.0)), 1e13);
        let p = if idx[1] == 1 { reflect(&p0) } else { p0 };
        let span = [3e-13, 4e-14][idx[2]];
        let xend = if idx[1] == 1 { -span } else { span };
        let mut c0 = Cfg::new(m, 0.0, xend, &p.y0).tol(1e-6, 1e-8);
        c0.user_jac = true;
        let desc = json!({"key": key, "point": describe(&tdims, idx), "cfg": c0.json(&p.name)});
        let mut out = CaseOut::default();
        let plain = run(&p, &c0);
        let ps = match &plain.out {
            Outcome::Ok(s) => s,
            _ => {
                out.violations.push(Violation::new(key, "outcome", format!("plain run over a span of {:e} ended with {}", span, plain.outcome_name()), desc).with("method", mname(m)));
                return Some(out);
            }
        };
        out.events = plain.st.n_ode;
        for (label, dense, te) in [("{dense}", true, false), ("{t_eval}", false, true), ("{t_eval dense}", true, true)] {
            let mut c = c0.clone();
            c.dense = dense;
            if te {
                c.t_eval = Some(vec![0.0, xend / 3.0, xend]);
            }
            let r = run(&p, &c);
            out.events += r.st.n_ode;
            match &r.out {
                Outcome::Ok(s) => {
                    let st = |s: &Solution| (s.nfev, s.njev, s.nlu, s.nstep, s.naccpt, s.nrejct);
                    if s.status != ps.status || r.st.fp != plain.st.fp || st(s) != st(ps) {
                        out.violations.push(Violation::new(key, "integration-perturbed", format!("subset {} over a span of {:e}: status {:?} (plain {:?}), statistics {:?} (plain {:?}), RHS record {}", label, span, s.status, ps.status, st(s), st(ps), if r.st.fp == plain.st.fp { "identical" } else { "differs" }), desc.clone()).with("method", mname(m)));
                    }
                    out.validated += 1;
                }
                _ => out.violations.push(Violation::new(key, "outcome", format!("subset {} ended with {}", label, r.outcome_name()), desc.clone()).with("method", mname(m))),
            }
        }
        out.tag("tiny-span");
        out.fp = Some(plain.st.fp.as_u128() ^ 0x20);
        out.sample = Some(desc);
        Some(out)
    });
    // intervals that contain zero, with coarse steps: the last step is longer than the distance of its left end
    // from the origin (xold + (xend - xold) need not be xend), for the methods that put the end on xend itself
    const CROSS: [(f64, f64); 8] = [(-1.0, 0.3), (-2.0, 0.1), (1.0, -0.3), (3.0, -0.05), (-5.0, 0.2), (-1.0, 0.001), (2.0, -0.007), (-0.7, 0.7)];
    let xdims = vec![dim("method", &M6.iter().map(|m| mname(*m)).collect::<Vec<_>>()), dim("interval", &CROSS.iter().map(|(a, b)| format!("[{},{}]", a, b)).collect::<Vec<_>>()), dim("steps", &["coarse", "coarser"])];
    lattice(&mut rep, "cross", &xdims, only.as_deref(), |key, idx| {
        let m = M6[idx[0]];
        let (x0, xend) = CROSS[idx[1]];
        let p = base(Base::Harmonic(1.0));
        let mut c0 = Cfg::new(m, x0, xend, &p.y0).tol([0.1, 0.3][idx[2]], 1e-3);
        c0.user_jac = true;
        c0.first_step = Some((xend - x0) * [0.7 / 1.3, 0.19][idx[2]]);
        let desc = json!({"key": key, "point": describe(&xdims, idx), "cfg": c0.json(&p.name)});
        let mut out = CaseOut::default();
        let plain = run(&p, &c0);
        let ps = match &plain.out {
            Outcome::Ok(s) if s.status == Status::Success => s,
            _ => return None,
        };
        out.events = plain.st.n_ode;
        for (label, dense, te) in [("{dense}", true, false), ("{t_eval}", false, true), ("{t_eval dense}", true, true)] {
            let mut c = c0.clone();
            c.dense = dense;
            if te {
                c.t_eval = Some(vec![x0, x0 + (xend - x0) / 3.0, xend]);
            }
            let r = run(&p, &c);
            out.events += r.st.n_ode;
            match &r.out {
                Outcome::Ok(s) => {
                    let st = |s: &Solution| (s.nfev, s.njev, s.nlu, s.nstep, s.naccpt, s.nrejct);
                    let same_grid = te || (s.t.len() == ps.t.len() && s.t.iter().zip(&ps.t).all(|(a, b)| a.to_bits() == b.to_bits()) && s.y.iter().zip(&ps.y).all(|(a, b)| a.iter().zip(b).all(|(u, w)| u.to_bits() == w.to_bits())));
                    if s.status != ps.status || r.st.fp != plain.st.fp || st(s) != st(ps) || !same_grid {
                        out.violations.push(
                            Violation::new(key, "integration-perturbed", format!("subset {} on [{},{}]: status {:?} (plain {:?}), statistics {:?} (plain {:?}), RHS record {}, accepted steps and states {} (last time {:?}, plain {:?})", label, x0, xend, s.status, ps.status, st(s), st(ps), if r.st.fp == plain.st.fp { "identical" } else { "differs" }, if same_grid { "identical" } else { "differ" }, s.t.last(), ps.t.last()), desc.clone())
                                .with("method", mname(m)),
                        );
                    }
                    out.validated += 1;
                }
                _ => out.violations.push(Violation::new(key, "outcome", format!("subset {} ended with {}", label, r.outcome_name()), desc.clone()).with("method", mname(m))),
            }
        }
        out.tag("interval-across-zero");
        out.fp = Some(plain.st.fp.as_u128() ^ 0x30);
        out.sample = Some(desc);
        Some(out)
    });
    // runs that the explicit methods end themselves (ProbablyStiff after about a thousand steps on y' = -2e4 (y - cos x)):
    // asking for output does not change where and how the run ends
    let kdims = vec![dim("method", &["DOPRI5", "DOP853"]), dim("direction", &["forward", "backward(reflected)"])];
    lattice(&mut rep, "stiffend", &kdims, only.as_deref(), |key, idx| {
        let m = [Method::DOPRI5, Method::DOP853][idx[0]];
        let p0 = Prob {
            name: "tracking y'=-2e4(y-cos x)".into(),
            n: 1,
            f: Arc::new(|t, y, d| d[0] = -2e4 * (y[0] - t.cos())),
            jac: None,
            flow: None,
            y0: vec![1.0],
            linear_homogeneous: false,
        };
        let p = if idx[1] == 1 { reflect(&p0) } else { p0 };
        let xend = if idx[1] == 1 { -2.0 } else { 2.0 };
        let c0 = Cfg::new(m, 0.0, xend, &p.y0).tol(1e-6, 1e-8);
        let desc = json!({"key": key, "point": describe(&kdims, idx), "cfg": c0.json(&p.name)});
        let mut out = CaseOut::default();
        let plain = run(&p, &c0);
        let ps = match &plain.out {
            Outcome::Ok(s) => s,
            _ => return None,
        };
        out.events = plain.st.n_ode;
        if ps.status == Status::ProbablyStiff {
            out.tag("run-ended-by-the-stiffness-test");
        }
        for (label, dense, te, ev) in [("{dense}", true, false, false), ("{t_eval}", false, true, false), ("{t_eval dense}", true, true, false), ("{events}", false, false, true), ("{dense events}", true, false, true)] {
            let mut c = c0.clone();
            c.dense = dense;
            if te {
                c.t_eval = Some((0..=20).map(|i| xend * i as f64 / 20.0).collect());
            }
            if ev {
                c.events = vec![EventSpec::new(EvKind::Cos(40.0)), EventSpec::new(EvKind::T(0.1 * xend))];
            }
            let r = run(&p, &c);
            out.events += r.st.n_ode;
            match &r.out {
                Outcome::Ok(s) => {
                    let st = |s: &Solution| (s.nfev, s.njev, s.nlu, s.nstep, s.naccpt, s.nrejct);
                    if s.status != ps.status || r.st.fp != plain.st.fp || st(s) != st(ps) {
                        out.violations.push(
                            Violation::new(key, "integration-perturbed", format!("subset {}: status {:?} (plain {:?}), statistics {:?} (plain {:?}), RHS record {}", label, s.status, ps.status, st(s), st(ps), if r.st.fp == plain.st.fp { "identical" } else { "differs" }), desc.clone()).with("method", mname(m)),
                        );
                    }
                    out.validated += 1;
                }
                _ => out.violations.push(Violation::new(key, "outcome", format!("subset {} ended with {}", label, r.outcome_name()), desc.clone()).with("method", mname(m))),
            }
        }
        out.fp = Some(plain.st.fp.as_u128() ^ 0x40);
        out.sample = Some(desc);
        Some(out)
    });
    if only.is_some() {
        for v in &rep.violations {
            println!("replay: VIOLATED [{}]: {}\n{}", v.sig["check"], v.msg, serde_json::to_string_pretty(&v.case).unwrap());
        }
        if rep.violations.is_empty() {
            println!("replay: property holds on this case");
        }
        return if rep.violations.is_empty() { 0 } else { 1 };
    }
    rep.require("eight-subsets", 100);
    rep.require("long-run", 6);
    rep.require("tiny-span", 12);
    rep.require("interval-across-zero", 60);
    rep.require("run-ended-by-the-stiffness-test", 2);
    rep.rule = "for every lattice point the plain run and all 8 subsets of {t_eval, dense_output, non-terminal events} are run twice; oracle: identical 128-bit fingerprint of every non-Jacobian RHS call (time and state bits: the complete record of the integration), identical statistics, identical accepted steps and states when no t_eval is given, final state, repeatability; runs of more than 1.3e5 accepted steps with {dense}, {t_eval}, {t_eval dense}; distinct = distinct plain-run fingerprints".into();
    rep.finish()
}
