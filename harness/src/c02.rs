//! C02 — each method attains its advertised order.
//! (1) tableau extraction by impulse probing, (2) order conditions over ALL rooted trees up to p
//! on the extracted tableau, Radau stability function vs the (2,3) Pade approximant, (3) the real
//! estimator on every tree, (4) cross-validation of the extracted model against real nonlinear
//! steps, (5) end-to-end local error order and step-count scaling.

use crate::env::Ans;
use crate::problems::{base, reflect, warp, Base, Prob, Warp};
use crate::report::{is_thorough, CaseOut, Report, Violation};
use crate::run::{mname, run, run_lowlevel, Cfg, Tol};
use crate::tableau::{extract, extract_second_step, orders, residual, Extracted, Forest};
use crate::util::DD;
use ivp::prelude::*;
use serde_json::{json, Value};
use std::sync::Arc;

const RK_METHODS: [Method; 5] = [Method::RK4, Method::RK23, Method::DOPRI5, Method::DOP853, Method::RADAU];

fn tableau_json(ex: &Extracted) -> Value {
    json!({"method": mname(ex.method), "stages": ex.s, "c": ex.c, "b": ex.b, "A_rows": ex.a, "rhs_calls_observed": ex.calls})
}

/// (2) order conditions on all rooted trees of order <= p
fn order_conditions(rep: &mut Report, f: &Forest, ex: &Extracted, sign: f64) {
    let (p, _, _) = orders(ex.method);
    let m = mname(ex.method);
    // row sums
    for i in 0..ex.s {
        let rs: f64 = ex.a[i].iter().sum();
        rep.evaluations += 1;
        rep.transitions += 1;
        if (rs - ex.c[i]).abs() > 1e-14 * (1.0 + rs.abs()) {
            rep.violations.push(
                Violation::new(format!("rowsum:{}:{}:{}", m, sign, i), "row-sum", format!("{}: c_{} = {:e} but the row sum of A is {:e}", m, i + 1, ex.c[i], rs), json!({"key": format!("rowsum:{}:{}:{}", m, sign, i), "tableau": tableau_json(ex)}))
                    .with("method", m),
            );
        }
    }
    let phi = f.phis(&ex.a);
    for ti in f.up_to(p) {
        let t = &f.trees[ti];
        let (res, scale) = residual(&ex.b, &phi[ti], 1.0 / t.gamma);
        rep.evaluations += 1;
        rep.transitions += 1;
        let mut h = crate::util::Fp::default();
        h.s(m);
        h.u(ti as u64);
        h.f(res);
        rep.fps.insert(h.as_u128());
        rep.tags.entry("order-condition".into()).and_modify(|c| *c += 1).or_insert(1);
        if res.abs() > 1e-12 * scale {
            let key = format!("ordercond:{}:{}:{}", m, sign, ti);
            rep.violations.push(
                Violation::new(&key, "order-condition", format!("{} (h sign {}): order condition of tree {} (order {}, gamma {}) has residual {:e} (scale {:e})", m, sign, f.describe(ti), t.order, t.gamma, res, scale), json!({"key": key, "tree": f.describe(ti), "tableau": tableau_json(ex)}))
                    .with("method", m)
                    .with("tree_order", t.order),
            );
        }
    }
    // the next order must NOT be satisfied by every tree (the advertised order is attained exactly,
    // which guards against a vacuous tableau such as all-zero weights)
    if ex.method != Method::RADAU || true {
        let worst = f.of_order(p + 1).map(|ti| residual(&ex.b, &phi[ti], 1.0 / f.trees[ti].gamma).0.abs()).fold(0.0f64, f64::max);
        if worst < 1e-9 {
            rep.machinery_errors.push(format!("{}: all order-{} conditions hold as well: extraction is suspicious", m, p + 1));
        }
    }
}

/// Radau: stability function of the extracted (A,b) against the (2,3) Pade approximant of exp
fn radau_stability(rep: &mut Report, ex: &Extracted) {
    let zs: Vec<(f64, f64)> = vec![(-0.1, 0.0), (-1.0, 0.0), (-10.0, 0.0), (-1e3, 0.0), (0.5, 0.0), (0.0, 1.0), (0.0, -3.0), (-1.0, 2.0), (-5.0, -7.0), (-0.3, 0.4), (-100.0, 50.0), (0.2, 0.1)];
    for (zr, zi) in zs {
        // R(z) = 1 + z b^T (I - zA)^{-1} 1 by complex Gaussian elimination (3x3)
        let n = 3;
        let mut mr = vec![vec![0.0; n + 1]; n];
        let mut mi = vec![vec![0.0; n + 1]; n];
        for i in 0..n {
            for j in 0..n {
                mr[i][j] = if i == j { 1.0 } else { 0.0 } - zr * ex.a[i][j];
                mi[i][j] = -zi * ex.a[i][j];
            }
            mr[i][n] = 1.0;
        }
        for k in 0..n {
            let mut piv = k;
            for i in k..n {
                if mr[i][k].hypot(mi[i][k]) > mr[piv][k].hypot(mi[piv][k]) {
                    piv = i;
                }
            }
            mr.swap(k, piv);
            mi.swap(k, piv);
            let d = mr[k][k] * mr[k][k] + mi[k][k] * mi[k][k];
            for i in 0..n {
                if i == k {
                    continue;
                }
                let (fr, fi) = ((mr[i][k] * mr[k][k] + mi[i][k] * mi[k][k]) / d, (mi[i][k] * mr[k][k] - mr[i][k] * mi[k][k]) / d);
                for j in k..=n {
                    let (ar, ai) = (mr[k][j], mi[k][j]);
                    mr[i][j] -= fr * ar - fi * ai;
                    mi[i][j] -= fr * ai + fi * ar;
                }
            }
        }
        let (mut sr, mut si) = (0.0, 0.0);
        for i in 0..n {
            let d = mr[i][i] * mr[i][i] + mi[i][i] * mi[i][i];
            let (xr, xi) = ((mr[i][n] * mr[i][i] + mi[i][n] * mi[i][i]) / d, (mi[i][n] * mr[i][i] - mr[i][n] * mi[i][i]) / d);
            sr += ex.b[i] * xr;
            si += ex.b[i] * xi;
        }
        let (rr, ri) = (1.0 + zr * sr - zi * si, zr * si + zi * sr);
        // Pade (2,3): N = 1 + 2z/5 + z^2/20, D = 1 - 3z/5 + 3z^2/20 - z^3/60
        let (z2r, z2i) = (zr * zr - zi * zi, 2.0 * zr * zi);
        let (z3r, z3i) = (z2r * zr - z2i * zi, z2r * zi + z2i * zr);
        let (nr, ni) = (1.0 + 0.4 * zr + z2r / 20.0, 0.4 * zi + z2i / 20.0);
        let (dr, di) = (1.0 - 0.6 * zr + 0.15 * z2r - z3r / 60.0, -0.6 * zi + 0.15 * z2i - z3i / 60.0);
        let dd = dr * dr + di * di;
        let (pr, pi) = ((nr * dr + ni * di) / dd, (ni * dr - nr * di) / dd);
        rep.evaluations += 1;
        rep.transitions += 1;
        let err = (rr - pr).hypot(ri - pi);
        if err > 1e-11 * (1.0 + pr.hypot(pi)) {
            let key = format!("pade:{}:{}", zr, zi);
            rep.violations.push(Violation::new(&key, "radau-pade", format!("stability function of the extracted Radau tableau at z={}+{}i is {:e}+{:e}i, Pade(2,3) gives {:e}+{:e}i", zr, zi, rr, ri, pr, pi), json!({"key": key, "tableau": tableau_json(ex)})).with("method", "RADAU"));
        }
        // a real one-step run on y' = lambda y (2x2 rotation-scaling realises complex lambda) reproduces R(z)
        for sign in [1.0, -1.0] {
            let h = 0.25 * sign;
            let (lr, li) = (zr / h, zi / h);
            let p = Prob {
                name: format!("linear lambda=({},{})", lr, li),
                n: 2,
                f: Arc::new(move |_t, y, d| {
                    d[0] = lr * y[0] - li * y[1];
                    d[1] = li * y[0] + lr * y[1];
                }),
                jac: Some(Arc::new(move |_t, _y| vec![lr, -li, li, lr])),
                flow: None,
                y0: vec![1.0, 0.0],
                linear_homogeneous: true,
            };
            let mut c = Cfg::new(Method::RADAU, 0.0, h, &p.y0);
            c.first_step = Some(h);
            c.user_jac = true;
            c.rtol = Tol::S(1e-3);
            c.atol = Tol::S(1e30);
            c.newton_tol = Some(1e-14);
            let r = run_lowlevel(&p, &c, &[(1, Ans::Interrupt)], &[], None, false);
            rep.evaluations += 1;
            rep.validated += 1;
            if r.recs.len() >= 2 && (r.recs[1].x - h).abs() == 0.0 {
                let (yr, yi) = (r.recs[1].y[0], r.recs[1].y[1]);
                let e2 = (yr - pr).hypot(yi - pi);
                if e2 > 1e-10 * (1.0 + pr.hypot(pi)) {
                    let key = format!("padestep:{}:{}:{}", zr, zi, sign);
                    rep.violations.push(Violation::new(&key, "radau-pade-step", format!("one Radau step with h*lambda={}+{}i (h={}) gives {:e}+{:e}i, Pade(2,3) is {:e}+{:e}i", zr, zi, h, yr, yi, pr, pi), json!({"key": key})).with("method", "RADAU"));
                }
                rep.tags.entry("radau-real-step-vs-pade".into()).and_modify(|c| *c += 1).or_insert(1);
            }
        }
    }
}

/// Radau over whole runs on y' = lambda y (2x2 rotation-scaling for complex lambda, exact user
/// Jacobian, default Newton tolerance): EVERY accepted step multiplies the state by the Pade (2,3)
/// approximant R(h_k lambda) — also the steps taken with re-used factorisations or Jacobians.
fn radau_pade_every_step(rep: &mut Report) {
    let lambdas: Vec<(f64, f64)> = vec![(-0.5, 0.0), (-2.0, 0.0), (-10.0, 0.0), (-50.0, 0.0), (0.5, 0.0), (-1.0, 3.0), (0.0, 2.0), (-5.0, 5.0), (-0.2, 8.0)];
    let rtols = [1e-2, 1e-3, 1e-4, 1e-5, 1e-6, 1e-7, 1e-8, 1e-9];
    let mut jobs = vec![];
    for l in &lambdas {
        for r in rtols {
            for sign in [1.0, -1.0] {
                jobs.push((*l, r, sign));
            }
        }
    }
    let outs = crate::util::par_map(jobs.len(), |k| {
        let ((lr0, li0), rtol, sign) = jobs[k];
        // backward runs integrate the reflected problem (lambda -> -lambda, t -> -t)
        let (lr, li) = (lr0 * sign, li0 * sign);
        let span = (4.0 / (lr0.abs() + li0.abs()).max(0.5)).min(6.0) * sign;
        let p = Prob {
            name: format!("linear lambda=({},{})", lr, li),
            n: 2,
            f: Arc::new(move |_t, y, d| {
                d[0] = lr * y[0] - li * y[1];
                d[1] = li * y[0] + lr * y[1];
            }),
            jac: Some(Arc::new(move |_t, _y| vec![lr, -li, li, lr])),
            flow: None,
            y0: vec![1.0, 0.25],
            linear_homogeneous: true,
        };
        let mut c = Cfg::new(Method::RADAU, 0.0, span, &p.y0);
        c.user_jac = true;
        c.rtol = Tol::S(rtol);
        c.atol = Tol::S(rtol * 1e-3);
        let r = run_lowlevel(&p, &c, &[], &[], None, false);
        let key = format!("padeall:{}:{}:{:e}:{}", lr0, li0, rtol, sign);
        let mut out = CaseOut::default();
        out.events = r.st.n_ode;
        if r.ok().map(|i| i.status != Status::Success).unwrap_or(true) || r.recs.len() < 3 {
            out.violations.push(Violation::new(&key, "outcome", format!("Radau on {} ended with {}", p.name, r.outcome_name()), json!({"key": key})).with("method", "RADAU"));
            return out;
        }
        let mut worst: (f64, usize, f64) = (0.0, 0, 0.0);
        for k in 0..r.recs.len() - 1 {
            let (a, b) = (&r.recs[k], &r.recs[k + 1]);
            let h = b.x - a.x;
            let (zr, zi) = (h * lr, h * li);
            let (z2r, z2i) = (zr * zr - zi * zi, 2.0 * zr * zi);
            let (z3r, z3i) = (z2r * zr - z2i * zi, z2r * zi + z2i * zr);
            let (nr, ni) = (1.0 + 0.4 * zr + z2r / 20.0, 0.4 * zi + z2i / 20.0);
            let (dr, di) = (1.0 - 0.6 * zr + 0.15 * z2r - z3r / 60.0, -0.6 * zi + 0.15 * z2i - z3i / 60.0);
            let dd = dr * dr + di * di;
            let (pr, pi) = ((nr * dr + ni * di) / dd, (ni * dr - nr * di) / dd);
            // the state as a complex number: y0 + i y1
            let (er, ei) = (pr * a.y[0] - pi * a.y[1], pr * a.y[1] + pi * a.y[0]);
            let e = (b.y[0] - er).hypot(b.y[1] - ei) / (a.y[0].hypot(a.y[1]) * (1.0 + pr.hypot(pi)));
            if e > worst.0 {
                worst = (e, k, h);
            }
            out.validated += 1;
        }
        if worst.0 > 1e-11 {
            out.violations.push(
                Violation::new(&key, "radau-pade-every-step", format!("step {} (h={:e}) of Radau on {} at rtol={:e}: y_new/y_old deviates from the Pade (2,3) value R(h*lambda) by {:e} (relative); the stage equations of a linear problem are solved exactly by one Newton iteration with the exact Jacobian", worst.1, worst.2, p.name, rtol, worst.0),
                    json!({"key": key, "steps": r.recs.len() - 1})).with("method", "RADAU"),
            );
        }
        out.tag("radau-pade-every-step");
        let mut h = r.st.fp;
        h.s(&key);
        out.fp = Some(h.as_u128());
        out
    });
    rep.absorb(outs);
}

/// dense helpers of the harness' own (row-major, partial pivoting): nothing shared with ivp's matrix code
fn mat_mul(a: &[f64], b: &[f64], n: usize) -> Vec<f64> {
    let mut c = vec![0.0; n * n];
    for i in 0..n {
        for j in 0..n {
            c[i * n + j] = (0..n).map(|k| a[i * n + k] * b[k * n + j]).sum();
        }
    }
    c
}
fn mat_vec(a: &[f64], x: &[f64], n: usize) -> Vec<f64> {
    (0..n).map(|i| (0..n).map(|j| a[i * n + j] * x[j]).sum()).collect()
}
fn solve_dense(a: &[f64], b: &[f64], n: usize) -> Option<Vec<f64>> {
    let mut m = a.to_vec();
    let mut x = b.to_vec();
    for k in 0..n {
        let piv = (k..n).max_by(|&i, &j| m[i * n + k].abs().partial_cmp(&m[j * n + k].abs()).unwrap())?;
        if m[piv * n + k] == 0.0 {
            return None;
        }
        if piv != k {
            for j in 0..n {
                m.swap(k * n + j, piv * n + j);
            }
            x.swap(k, piv);
        }
        for i in k + 1..n {
            let f = m[i * n + k] / m[k * n + k];
            for j in k..n {
                m[i * n + j] -= f * m[k * n + j];
            }
            x[i] -= f * x[k];
        }
    }
    for k in (0..n).rev() {
        let s: f64 = (k + 1..n).map(|j| m[k * n + j] * x[j]).sum();
        x[k] = (x[k] - s) / m[k * n + k];
    }
    Some(x)
}

/// (2c) the same on systems whose iteration matrices need row interchanges (real and complex): general
/// non-normal matrices with dominant off-diagonal entries, n = 2 and 3; every accepted step against
/// D(hA)^-1 N(hA) y_old computed with the harness' own elimination
fn radau_pade_general(rep: &mut Report) {
    let w10 = 10.0f64;
    let w30 = 30.0f64;
    // S diag(l) S^-1 with S = [[1,1,0],[0,1,1],[1,0,1]], S^-1 = 1/2 [[1,-1,1],[1,1,-1],[-1,1,1]]
    let sim3 = |l: [f64; 3]| -> Vec<f64> {
        let s = [1.0, 1.0, 0.0, 0.0, 1.0, 1.0, 1.0, 0.0, 1.0];
        let si = [0.5, -0.5, 0.5, 0.5, 0.5, -0.5, -0.5, 0.5, 0.5];
        let d = [l[0], 0.0, 0.0, 0.0, l[1], 0.0, 0.0, 0.0, l[2]];
        mat_mul(&mat_mul(&s, &d, 3), &si, 3)
    };
    let mats: Vec<(String, usize, Vec<f64>)> = vec![
        ("damped oscillator, spring 1+10^2".into(), 2, vec![0.0, 1.0, -(1.0 + w10 * w10), -2.0]),
        ("damped oscillator, spring 1+30^2".into(), 2, vec![0.0, 1.0, -(1.0 + w30 * w30), -2.0]),
        ("stiff spring, eigenvalues -1, -100".into(), 2, vec![0.0, 1.0, -100.0, -101.0]),
        ("similarity of diag(-1,-30,-100)".into(), 3, sim3([-1.0, -30.0, -100.0])),
        ("similarity of diag(-0.5,-8,-20)".into(), 3, sim3([-0.5, -8.0, -20.0])),
        ("lag chain -1, 40, 90".into(), 3, vec![-1.0, 0.0, 0.0, 40.0, -40.0, 0.0, 0.0, 90.0, -90.0]),
    ];
    let rtols = [1e-2, 1e-3, 1e-4, 1e-6, 1e-8];
    let mut jobs = vec![];
    for mi in 0..mats.len() {
        for r in rtols {
            for sign in [1.0, -1.0] {
                jobs.push((mi, r, sign));
            }
        }
    }
    let outs = crate::util::par_map(jobs.len(), |k| {
        let (mi, rtol, sign) = jobs[k];
        let (name, n, a0) = mats[mi].clone();
        // backward runs integrate the reflected problem z' = -A z over [0, -span]
        let a: Vec<f64> = a0.iter().map(|v| v * sign).collect();
        let span = 1.5 * sign;
        let af = a.clone();
        let aj = a.clone();
        let p = Prob {
            name: format!("y'=Ay, {}{}", name, if sign < 0.0 { " (reflected)" } else { "" }),
            n,
            f: Arc::new(move |_t, y, d| {
                for i in 0..n {
                    d[i] = (0..n).map(|j| af[i * n + j] * y[j]).sum();
                }
            }),
            jac: Some(Arc::new(move |_t, _y| aj.clone())),
            flow: None,
            y0: (0..n).map(|i| 1.0 - 0.35 * i as f64).collect(),
            linear_homogeneous: true,
        };
        let mut c = Cfg::new(Method::RADAU, 0.0, span, &p.y0);
        c.user_jac = true;
        c.rtol = Tol::S(rtol);
        c.atol = Tol::S(rtol * 1e-3);
        let r = run_lowlevel(&p, &c, &[], &[], None, false);
        let key = format!("padegen:{}:{:e}:{}", mi, rtol, sign);
        let mut out = CaseOut::default();
        out.events = r.st.n_ode;
        if r.ok().map(|i| i.status != Status::Success).unwrap_or(true) || r.recs.len() < 3 {
            out.violations.push(Violation::new(&key, "outcome", format!("Radau on {} ended with {}", p.name, r.outcome_name()), json!({"key": key})).with("method", "RADAU"));
            return out;
        }
        let mut worst: (f64, usize, f64) = (0.0, 0, 0.0);
        let mut id = vec![0.0; n * n];
        for i in 0..n {
            id[i * n + i] = 1.0;
        }
        for k in 0..r.recs.len() - 1 {
            let (ya, yb) = (&r.recs[k], &r.recs[k + 1]);
            let h = yb.x - ya.x;
            let z: Vec<f64> = a.iter().map(|v| v * h).collect();
            let z2 = mat_mul(&z, &z, n);
            let z3 = mat_mul(&z2, &z, n);
            let nm: Vec<f64> = (0..n * n).map(|i| id[i] + 0.4 * z[i] + z2[i] / 20.0).collect();
            let dm: Vec<f64> = (0..n * n).map(|i| id[i] - 0.6 * z[i] + 0.15 * z2[i] - z3[i] / 60.0).collect();
            let rhs = mat_vec(&nm, &ya.y, n);
            let want = match solve_dense(&dm, &rhs, n) {
                Some(w) => w,
                None => continue,
            };
            let dn = dm.iter().fold(0.0f64, |m, v| m.max(v.abs()));
            let ny = ya.y.iter().fold(0.0f64, |m, v| m.max(v.abs()));
            let e = yb.y.iter().zip(&want).fold(0.0f64, |m, (u, v)| m.max((u - v).abs())) / (ny * dn.max(1.0));
            if e > worst.0 {
                worst = (e, k, h);
            }
            out.validated += 1;
        }
        if std::env::var("VERIF_DEBUG").is_ok() {
            println!("DBG padegen {} rtol={:e} sign={} steps={} worst={:e} at step {} h={:e}", name, rtol, sign, r.recs.len() - 1, worst.0, worst.1, worst.2);
        }
        if worst.0 > 1e-10 {
            out.violations.push(
                Violation::new(&key, "radau-pade-general", format!("step {} (h={:e}) of Radau on {} at rtol={:e}: y_new deviates from D(hA)^-1 N(hA) y_old by {:e} (relative to |y_old| |D|)", worst.1, worst.2, p.name, rtol, worst.0), json!({"key": key, "steps": r.recs.len() - 1}))
                    .with("method", "RADAU"),
            );
        }
        out.tag("radau-pade-general");
        let mut h = r.st.fp;
        h.s(&key);
        out.fp = Some(h.as_u128());
        out
    });
    rep.absorb(outs);
}

/// (2d) the abscissae at which Radau evaluates a t-dependent right-hand side: during every accepted step the inner
/// stages are evaluated at xold + c1 h and xold + c2 h of *that* step (also on steps that reuse the factorisation
/// of the previous one), c = (4 -+ sqrt 6)/10 computed here
fn radau_stage_times(rep: &mut Report) {
    let (c1, c2) = ((4.0 - 6f64.sqrt()) / 10.0, (4.0 + 6f64.sqrt()) / 10.0);
    let probs = vec![(warp(&base(Base::Logistic(2.0)), Warp::Sin), 6.0), (warp(&base(Base::Harmonic(1.0)), Warp::Quad), 3.0), (warp(&base(Base::Decay(-1.0)), Warp::Sin), 8.0)];
    let mut same_h_steps = 0u64;
    for (pi, (p0, span)) in probs.iter().enumerate() {
        for backward in [false, true] {
            // (pinned: a binding max_step, so that every step repeats the step size; with loose tolerances even a badly
            // inconsistent step passes the error test; with a tight one the Newton iteration needs two sweeps and
            // converges fast, which is when the solver keeps Jacobian and factorisation)
            for (rtol, pinned) in [(1e-3, false), (1e-5, false), (1e-7, false), (1e-1, true), (1.0, true), (1e-10, true), (1e-10, false)] {
                let pr = if backward { reflect(p0) } else { p0.clone() };
                let xend = if backward { -*span } else { *span };
                let mut c = Cfg::new(Method::RADAU, 0.0, xend, &pr.y0).tol(rtol, if pinned && rtol > 1e-3 { rtol } else { rtol * 1e-3 });
                c.user_jac = true;
                c.keep_log = true;
                if pinned {
                    let k = if rtol < 1e-6 { 600.0 } else { 40.0 };
                    c.max_step = Some(span / k);
                    // 0.9 of the bound: the proposed step (clamped to max_step) stays 1.11 times the current one, which is
                    // inside the window (1, 1.2) in which Radau keeps the step size and the factorisation
                    c.first_step = Some(0.9 * xend / k);
                }
                let r = run_lowlevel(&pr, &c, &[], &[], None, false);
                rep.evaluations += 1;
                rep.transitions += r.st.n_ode;
                let key = format!("radautimes:{}:{}:{:e}:{}", pi, backward as u8, rtol, pinned as u8);
                if r.ok().map(|i| i.status != Status::Success).unwrap_or(true) || r.recs.len() < 4 {
                    rep.machinery_errors.push(format!("Radau stage-time scene {} ended with {}", key, r.outcome_name()));
                    continue;
                }
                let calls: Vec<f64> = r.st.log.iter().filter(|q| !q.in_jac).map(|q| q.t).collect();
                for j in 1..r.recs.len() {
                    let (a, b) = (r.recs[j - 1].n_ode_before as usize, r.recs[j].n_ode_before as usize);
                    let (xo, x) = (r.recs[j].xold, r.recs[j].x);
                    let h = x - xo;
                    let sl = 8.0 * f64::EPSILON * (xo.abs() + h.abs());
                    let win = &calls[a.min(calls.len())..b.min(calls.len())];
                    let has = |t: f64| win.iter().any(|u| (u - t).abs() <= sl);
                    if j >= 2 && (r.recs[j - 1].x - r.recs[j - 1].xold).to_bits() == h.to_bits() {
                        same_h_steps += 1;
                    }
                    rep.validated += 1;
                    if std::env::var("VERIF_DEBUG").is_ok() && pinned && rtol < 1e-9 && j >= 28 && j <= 31 && pi == 2 && !backward {
                        println!("DBG radautimes {} step {} xo={:e} h={:e} want {:e} {:e} window {:?}", key, j, xo, h, xo + c1 * h, xo + c2 * h, win);
                    }
                    if !(has(xo + c1 * h) && has(xo + c2 * h)) {
                        rep.violations.push(
                            Violation::new(&key, "radau-stage-times", format!("Radau on {}: during accepted step {} from {:e} with h = {:e} the right-hand side was never evaluated at xold + c1 h = {:e} / xold + c2 h = {:e}; it was evaluated at {:?}", pr.name, j, xo, h, xo + c1 * h, xo + c2 * h, win.iter().take(12).collect::<Vec<_>>()), json!({"key": key}))
                                .with("method", "RADAU"),
                        );
                        break;
                    }
                }
                *rep.tags.entry("radau-stage-times".into()).or_insert(0) += 1;
            }
        }
    }
    *rep.tags.entry("radau-steps-repeating-the-step-size".into()).or_insert(0) += same_h_steps;
}

/// (3) the real estimator evaluated on every tree: answering stage i with Phi_i(t)
fn estimator_on_trees(rep: &mut Report, f: &Forest, ex: &Extracted) {
    let (_, _, low) = orders(ex.method);
    let q = match low {
        Some(q) => q,
        None => return,
    };
    let m = mname(ex.method);
    let phi = f.phis(&ex.a);
    let p1 = Prob { name: "scripted".into(), n: 1, f: Arc::new(|_t, _y, d| d[0] = 0.0), jac: None, flow: None, y0: vec![0.0], linear_homogeneous: true };
    let mut retried_next = 0;
    for ti in f.up_to(q + 1) {
        let t = &f.trees[ti];
        for atol in [1e-13, 1e-8] {
            let ph = phi[ti].clone();
            let ans = move |idx: u64, _t: f64, _y: &[f64], d: &mut [f64]| {
                d[0] = if (idx as usize) < ph.len() { ph[idx as usize] } else { 0.0 };
            };
            let mut c = Cfg::new(ex.method, 0.0, 1.0, &[0.0]);
            c.first_step = Some(1.0);
            c.rtol = Tol::S(0.0);
            c.atol = Tol::S(atol);
            c.max_steps = Some(3);
            let r = run_lowlevel(&p1, &c, &[(1, Ans::Interrupt)], &[], Some(&ans), false);
            rep.evaluations += 1;
            rep.transitions += r.st.n_ode;
            rep.validated += 1;
            let accepted_full = r.recs.len() >= 2 && r.recs[1].x == 1.0;
            let key = format!("estimator:{}:{}:{:e}", m, ti, atol);
            if t.order <= q && atol == 1e-13 && !accepted_full {
                rep.violations.push(
                    Violation::new(&key, "estimator-not-vanishing", format!("{}: the error estimate does not vanish on tree {} of order {} <= {} (step of size 1 with atol 1e-13 was rejected)", m, f.describe(ti), t.order, q), json!({"key": key, "tree": f.describe(ti), "tableau": tableau_json(ex)}))
                        .with("method", m),
                );
            }
            if t.order == q + 1 && atol == 1e-8 && !accepted_full {
                retried_next += 1;
            }
        }
    }
    if retried_next == 0 {
        let key = format!("estimator-blind:{}", m);
        rep.violations.push(Violation::new(&key, "estimator-blind", format!("{}: the error estimate vanishes on every tree of order {} as well (no step rejected at atol 1e-8)", m, q + 1), json!({"key": key, "tableau": tableau_json(ex)})).with("method", m));
    }
    rep.tags.entry("estimator-trees".into()).and_modify(|c| *c += 1).or_insert(1);
}

fn nonlinear_problems() -> Vec<Prob> {
    vec![
        base(Base::Riccati),
        base(Base::Bernoulli),
        warp(&base(Base::Logistic(2.0)), Warp::Sin),
        base(Base::Rational),
        base(Base::Harmonic(1.3)),
        crate::problems::mix(&crate::problems::pair(&base(Base::Logistic(1.5)), 0.6), crate::problems::Mix::Sl2),
    ]
}

/// (4) the extracted tableau predicts real nonlinear steps (explicit methods)
fn cross_validate(rep: &mut Report, ex: &Extracted) {
    if ex.method == Method::RADAU {
        return;
    }
    let m = mname(ex.method);
    for (pi, p) in nonlinear_problems().iter().enumerate() {
        for h0 in [0.5, 0.125, 0.03125, 0.0078125] {
            for sign in [1.0, -1.0] {
                let h: f64 = h0 * sign;
                let x0 = 0.3;
                let mut c = Cfg::new(ex.method, x0, x0 + h, &p.y0);
                c.first_step = Some(h);
                c.rtol = Tol::S(0.0);
                c.atol = Tol::S(1e30);
                let r = run_lowlevel(p, &c, &[(1, Ans::Interrupt)], &[], None, false);
                rep.evaluations += 1;
                if r.recs.len() < 2 {
                    rep.machinery_errors.push(format!("cross-validation step failed for {} on {}", m, p.name));
                    continue;
                }
                // prediction in double-double from the extracted tableau
                let n = p.n;
                let s = ex.s;
                let mut k: Vec<Vec<f64>> = vec![];
                let mut mag = vec![0.0f64; n];
                for i in 0..s {
                    let mut yi = vec![0.0; n];
                    for d in 0..n {
                        let mut acc = DD::from(p.y0[d]);
                        for j in 0..i {
                            if ex.a[i][j] != 0.0 {
                                acc = acc.add(DD::from(ex.a[i][j]).mulf(k[j][d]).mulf(h));
                                mag[d] = mag[d].max((ex.a[i][j] * k[j][d] * h).abs());
                            }
                        }
                        yi[d] = acc.val();
                    }
                    let mut ki = vec![0.0; n];
                    (p.f)(x0 + ex.c[i] * h, &yi, &mut ki);
                    k.push(ki);
                }
                let mut bad = None;
                for d in 0..n {
                    let mut acc = DD::from(p.y0[d]);
                    for j in 0..s {
                        if ex.b[j] != 0.0 {
                            acc = acc.add(DD::from(ex.b[j]).mulf(k[j][d]).mulf(h));
                            mag[d] = mag[d].max((ex.b[j] * k[j][d] * h).abs());
                        }
                    }
                    let pred = acc.val();
                    let got = r.recs[1].y[d];
                    let tol = 256.0 * f64::EPSILON * (pred.abs() + mag[d] * s as f64);
                    if (pred - got).abs() > tol {
                        bad = Some((d, pred, got, tol));
                    }
                }
                rep.validated += 1;
                rep.transitions += r.st.n_ode;
                if let Some((d, pred, got, tol)) = bad {
                    let key = format!("crossval:{}:{}:{}:{}", m, pi, h0, sign);
                    rep.violations.push(
                        Violation::new(&key, "model-vs-code", format!("{} on {} with h={}: component {} of the real step is {:e}, the extracted tableau predicts {:e} (tolerance {:e})", m, p.name, h, d, got, pred, tol), json!({"key": key, "tableau": tableau_json(ex)}))
                            .with("method", m),
                    );
                }
            }
        }
    }
    rep.tags.entry("cross-validated".into()).and_modify(|c| *c += 1).or_insert(1);
}

/// (5a) local error of one step from exact data over h = 2^-k
/// `modified`: the step measured is the second one, taken after the callback moved the state onto another
/// trajectory (ModifiedSolution with y multiplied by 1.25): it starts from exact data of that trajectory
fn local_order(rep: &mut Report, m: Method, mode: usize) {
    // mode 0: first step from exact data; 1: second step, after a ModifiedSolution at callback 1; 2: first step, after a
    // ModifiedSolution at the initial callback (the step starts from the state the callback left behind)
    let modified = mode == 1;
    let at0 = mode == 2;
    let (p, _, _) = orders(m);
    let probs = vec![base(Base::Riccati), warp(&base(Base::Logistic(2.0)), Warp::Sin), base(Base::Harmonic(1.3)), base(Base::Rational)];
    for (pi, p0) in probs.iter().enumerate() {
        for backward in [false, true] {
            let pr = if backward { reflect(p0) } else { p0.clone() };
            let x0 = if backward { -0.4 } else { 0.4 };
            let y0 = pr.exact(0.0, &pr.y0, x0).unwrap();
            let mut errs = vec![];
            let ks: Vec<i32> = (1..=8).collect();
            for &k in &ks {
                let h = 0.5f64.powi(k) * if backward { -1.0 } else { 1.0 };
                let mut c = Cfg::new(m, x0, x0 + if modified { 2.0 * h } else { h }, &y0);
                c.first_step = Some(h);
                if modified {
                    c.max_step = Some(h.abs());
                }
                c.user_jac = true;
                if m == Method::RADAU {
                    // a loose but realistic tolerance (error test passes for h <= 1/2) and a tight
                    // explicit Newton tolerance; a huge atol would defeat the Newton stopping test,
                    // which works on the same scale with a floor at the rounding unit
                    c.rtol = Tol::S(1.0);
                    c.atol = Tol::S(1.0);
                    c.newton_tol = Some(1e-13);
                } else {
                    c.rtol = Tol::S(0.0);
                    c.atol = Tol::S(1e30);
                }
                let script: Vec<(usize, Ans)> = if modified { vec![(1, Ans::Modified(1.25)), (2, Ans::Interrupt)] } else if at0 { vec![(0, Ans::Modified(1.25)), (1, Ans::Interrupt)] } else { vec![(1, Ans::Interrupt)] };
                let r = run_lowlevel(&pr, &c, &script, &[], None, false);
                rep.evaluations += 1;
                rep.transitions += r.st.n_ode;
                if r.recs.len() < 2 || (r.recs[1].x - (x0 + h)).abs() > 1e-15 {
                    errs.push(f64::NAN);
                    continue;
                }
                if modified {
                    if r.recs.len() < 3 || (r.recs[2].x - (x0 + 2.0 * h)).abs() > 1e-14 {
                        errs.push(f64::NAN);
                        continue;
                    }
                    let y1: Vec<f64> = r.recs[1].y.iter().map(|v| v * 1.25).collect();
                    let e = match pr.exact(r.recs[1].x, &y1, r.recs[2].x) {
                        Some(ex) => r.recs[2].y.iter().zip(&ex).fold(0.0f64, |a, (u, v)| a.max((u - v).abs())),
                        None => f64::NAN,
                    };
                    errs.push(e);
                    continue;
                }
                if at0 {
                    let ys: Vec<f64> = y0.iter().map(|v| v * 1.25).collect();
                    let e = match pr.exact(x0, &ys, x0 + h) {
                        Some(ex) => r.recs[1].y.iter().zip(&ex).fold(0.0f64, |a, (u, v)| a.max((u - v).abs())),
                        None => f64::NAN,
                    };
                    errs.push(e);
                    continue;
                }
                let ex = pr.exact(x0, &y0, x0 + h).unwrap();
                let e = r.recs[1].y.iter().zip(&ex).fold(0.0f64, |a, (u, v)| a.max((u - v).abs()));
                errs.push(e);
            }
            // observed order between successive halvings on the part above the rounding floor
            let floor = 1e-14;
            let mut observed = vec![];
            for i in 0..errs.len() - 1 {
                if errs[i].is_finite() && errs[i + 1].is_finite() && errs[i + 1] > floor && errs[i] > floor {
                    observed.push((errs[i] / errs[i + 1]).log2());
                }
            }
            rep.validated += 1;
            let key = format!("localorder{}:{}:{}:{}", if modified { "-after-modification" } else if at0 { "-after-initial-modification" } else { "" }, mname(m), pi, backward as u8);
            // the asymptotic regime: use the last three usable ratios
            let tail: Vec<f64> = observed.iter().rev().take(3).copied().collect();
            if tail.len() >= 2 {
                let best = tail.iter().fold(f64::NEG_INFINITY, |a, b| a.max(*b));
                rep.tags.entry(if modified || at0 { "local-order-ladder-after-modification" } else { "local-order-ladder" }.into()).and_modify(|c| *c += 1).or_insert(1);
                // (after a modification the ladder starts from larger states and is shorter above the rounding
                // floor: DOP853 shows 8.4 on its last usable pair; the defects looked for give 1 or 2)
                if best < (p + 1) as f64 - if modified || at0 { 1.0 } else { 0.4 } {
                    rep.violations.push(
                        Violation::new(&key, "local-order", format!("{} on {}{}{}: observed local order {:?} (errors {:?}), expected about {}", mname(m), pr.name, if backward { " backward" } else { "" }, if modified { ", step after ModifiedSolution" } else if at0 { ", first step after ModifiedSolution at the initial callback" } else { "" }, observed, errs, p + 1), json!({"key": key}))
                            .with("method", mname(m)),
                    );
                }
            } else if m != Method::DOP853 && !modified && !at0 {
                rep.machinery_errors.push(format!("{}: no usable error ladder on {}", mname(m), pr.name));
            }
        }
    }
}

/// the local-order ladder on a linear homogeneous non-autonomous problem whose state is measured in units of 2^k:
/// the scaled errors must follow the same ladder (the change of unit is exact in binary arithmetic)
fn local_order_scaled(rep: &mut Report, m: Method) {
    let (p, _, _) = orders(m);
    let pr = warp(&base(Base::Decay(-1.3)), Warp::Sin);
    for k in [0i32, -600, 600, -300, 300] {
        let sc = 2f64.powi(k);
        let x0 = 0.4;
        let y0: Vec<f64> = pr.exact(0.0, &pr.y0, x0).unwrap().iter().map(|v| v * sc).collect();
        let mut errs = vec![];
        for e in 1..=8 {
            let h = 0.5f64.powi(e);
            let mut c = Cfg::new(m, x0, x0 + h, &y0);
            c.first_step = Some(h);
            c.user_jac = true;
            if m == Method::RADAU {
                c.rtol = Tol::S(1.0);
                c.atol = Tol::S(sc);
                c.newton_tol = Some(1e-13);
            } else {
                c.rtol = Tol::S(0.0);
                c.atol = Tol::S(1e30 * sc);
            }
            let r = run_lowlevel(&pr, &c, &[(1, Ans::Interrupt)], &[], None, false);
            rep.evaluations += 1;
            rep.transitions += r.st.n_ode;
            if r.recs.len() < 2 || (r.recs[1].x - (x0 + h)).abs() > 1e-15 {
                errs.push(f64::NAN);
                continue;
            }
            let ex = pr.exact(x0, &y0, x0 + h).unwrap();
            errs.push(r.recs[1].y.iter().zip(&ex).fold(0.0f64, |a, (u, v)| a.max(((u - v) / sc).abs())));
        }
        let mut observed = vec![];
        for i in 0..errs.len() - 1 {
            if errs[i].is_finite() && errs[i + 1].is_finite() && errs[i + 1] > 1e-14 && errs[i] > 1e-14 {
                observed.push((errs[i] / errs[i + 1]).log2());
            }
        }
        rep.validated += 1;
        let key = format!("localorder-scaled:{}:{}", mname(m), k);
        let tail: Vec<f64> = observed.iter().rev().take(3).copied().collect();
        rep.tags.entry("local-order-ladder-scaled".into()).and_modify(|c| *c += 1).or_insert(1);
        let best = tail.iter().fold(f64::NEG_INFINITY, |a, b| a.max(*b));
        if tail.len() < 2 || best < (p + 1) as f64 - 0.4 {
            rep.violations.push(
                Violation::new(&key, "local-order", format!("{} on {} in units of 2^{}: observed local order {:?} (scaled errors {:?}), expected about {}", mname(m), pr.name, k, observed, errs, p + 1), json!({"key": key}))
                    .with("method", mname(m))
                    .with("scale", k),
            );
        }
    }
}

/// (5b) accepted-step count as a function of the tolerance: exponent ~ 1/q and no faster
fn step_count_law(rep: &mut Report, m: Method, q: f64) {
    // (problem, span, scale of the initial state, atol/rtol): the third one is a tiny solution under
    // pure relative control — the law must not depend on the magnitude of the solution
    let mut probs = vec![(base(Base::Harmonic(1.0)), 40.0, 1.0, 1.0), (warp(&base(Base::Logistic(0.7)), Warp::Sin), 12.0, 1.0, 1.0), (base(Base::Decay(-0.3)), 30.0, 1e-12, 0.0)];
    // the same oscillator in a time unit 2^40 times smaller / larger (an exact change of variable): the law must
    // not depend on the unit of time either
    let c40 = 2f64.powi(40);
    probs.push((crate::problems::timescale(&base(Base::Harmonic(1.0)), 1.0 / c40), 40.0 * c40, 1.0, 1.0));
    probs.push((crate::problems::timescale(&base(Base::Harmonic(1.0)), c40), 40.0 / c40, 1.0, 1.0));
    if is_thorough() {
        probs.push((base(Base::Decay(-0.3)), 30.0, 1e12, 0.0));
        probs.push((base(Base::Lin3), 12.0, 1.0, 1.0));
        probs.push((warp(&base(Base::Harmonic(1.0)), Warp::Quad), 6.0, 1.0, 1.0));
        probs.push((base(Base::Harmonic(1.0)), 40.0, 1e-9, 1e-9));
    }
    for (pi, (p, span, scale, afac)) in probs.iter().enumerate() {
        let tols: Vec<f64> = (0..9).map(|i| 1e-3 * 10f64.powf(-(i as f64))).collect();
        let mut counts = vec![];
        let y0s: Vec<f64> = p.y0.iter().map(|v| v * scale).collect();
        for tol in &tols {
            let c = Cfg::new(m, 0.0, *span, &y0s).tol(*tol, *tol * afac);
            let r = run(p, &c);
            rep.evaluations += 1;
            rep.transitions += r.st.n_ode;
            counts.push(r.sol().map(|s| s.naccpt as f64).unwrap_or(f64::NAN));
        }
        // slope of log(naccpt) vs log(1/tol) over the tight half
        let pts: Vec<(f64, f64)> = tols.iter().zip(&counts).skip(4).filter(|(_, c)| c.is_finite() && **c >= 10.0).map(|(t, c)| ((1.0 / t).ln(), c.ln())).collect();
        if pts.len() < 3 {
            rep.machinery_errors.push(format!("{}: step-count ladder too short on {}", mname(m), p.name));
            continue;
        }
        let n = pts.len() as f64;
        let (sx, sy) = (pts.iter().map(|p| p.0).sum::<f64>(), pts.iter().map(|p| p.1).sum::<f64>());
        let (sxx, sxy) = (pts.iter().map(|p| p.0 * p.0).sum::<f64>(), pts.iter().map(|p| p.0 * p.1).sum::<f64>());
        let slope = (n * sxy - sx * sy) / (n * sxx - sx * sx);
        if std::env::var("VERIF_DEBUG").is_ok() {
            eprintln!("stepcount {} {}: {:?} slope {:.4}", mname(m), p.name, counts, slope);
        }
        rep.validated += 1;
        rep.tags.entry("step-count-law".into()).and_modify(|c| *c += 1).or_insert(1);
        if !(slope >= 0.4 / q && slope <= 1.3 / q) {
            let key = format!("stepcount:{}:{}", mname(m), pi);
            rep.violations.push(
                Violation::new(&key, "step-count-law", format!("{} on {}: accepted steps {:?} over tolerances 1e-3..1e-11 grow like tol^(-{:.3}); expected about tol^(-{:.3}) (allowed {:.3}..{:.3})", mname(m), p.name, counts, slope, 1.0 / q, 0.4 / q, 1.3 / q), json!({"key": key}))
                    .with("method", mname(m)),
            );
        }
    }
}

pub fn run_check(replay: Option<Value>) -> i32 {
    let mut rep = Report::new("C02", "model_checking");
    let _ = is_thorough();
    let forest = Forest::new(9);
    let counts: Vec<usize> = (1..=9).map(|k| forest.of_order(k).len()).collect();
    if counts != vec![1, 1, 2, 4, 9, 20, 48, 115, 286] {
        rep.machinery_errors.push(format!("rooted tree enumeration gives {:?}", counts));
    }
    let mut tabs = vec![];
    for m in RK_METHODS {
        for sign in [1.0, -1.0] {
            match extract(m, sign) {
                Ok(ex) => {
                    order_conditions(&mut rep, &forest, &ex, sign);
                    if m == Method::RADAU && sign > 0.0 {
                        radau_stability(&mut rep, &ex);
                        radau_pade_every_step(&mut rep);
                        radau_pade_general(&mut rep);
                        radau_stage_times(&mut rep);
                    }
                    if sign > 0.0 {
                        estimator_on_trees(&mut rep, &forest, &ex);
                        cross_validate(&mut rep, &ex);
                        tabs.push(tableau_json(&ex));
                    }
                }
                Err(e) => rep.machinery_errors.push(format!("tableau extraction failed for {} (h sign {}): {}", mname(m), sign, e)),
            }
            // the same conditions on the tableau applied in a shortened final step, without and
            // with an XOut answer of the callback in between
            if m != Method::RADAU {
                for xout in [false, true] {
                    match extract_second_step(m, sign, xout) {
                        Ok(ex) => {
                            order_conditions(&mut rep, &forest, &ex, if xout { sign * 3.0 } else { sign * 2.0 });
                            *rep.tags.entry("second-step-tableau".into()).or_insert(0) += 1;
                        }
                        Err(e) => rep.violations.push(
                            Violation::new(format!("secondstep:{}:{}:{}", mname(m), sign, xout), "second-step-extraction", format!("{}: the tableau applied in the shortened second step (XOut answer: {}) cannot be read off: {}", mname(m), xout, e), json!({"key": format!("secondstep:{}:{}:{}", mname(m), sign, xout)}))
                                .with("method", mname(m)),
                        ),
                    }
                }
            }
        }
        local_order(&mut rep, m, 0);
        local_order(&mut rep, m, 1);
        local_order(&mut rep, m, 2);
        local_order_scaled(&mut rep, m);
    }
    step_count_law(&mut rep, Method::RK23, 3.0);
    step_count_law(&mut rep, Method::DOPRI5, 5.0);
    step_count_law(&mut rep, Method::DOP853, 8.0);
    if let Some(case) = replay {
        let key = case["key"].as_str().unwrap_or("").to_string();
        let hits: Vec<_> = rep.violations.iter().filter(|v| v.key == key).collect();
        for v in &hits {
            println!("replay: VIOLATED [{}]: {}", v.sig["check"], v.msg);
        }
        if hits.is_empty() {
            println!("replay: property holds on this case");
        }
        return if hits.is_empty() { 0 } else { 1 };
    }
    rep.samples = tabs.into_iter().take(3).collect();
    rep.samples.push(json!({"tree_counts_by_order": counts, "example_trees_order_4": forest.of_order(4).map(|i| forest.describe(i)).collect::<Vec<_>>()}));
    rep.dims = json!({"methods": RK_METHODS.iter().map(|m| mname(*m)).collect::<Vec<_>>(), "h_signs": [1, -1], "rooted_trees_up_to_order": 9,
        "conditions": {"RK4": 8, "RK23": 4, "DOPRI5": 17, "DOP853": 200, "RADAU": 17}, "estimator_trees": "all trees of order <= q+1 at atol 1e-13 and 1e-8",
        "cross_validation": "6 nonlinear problems x 4 step sizes x both signs per explicit method", "local_order": "4 problems x both directions x h=2^-1..2^-8", "step_count": "2 problems x 9 tolerances"});
    for t in ["second-step-tableau", "order-condition", "estimator-trees", "cross-validated", "local-order-ladder", "local-order-ladder-after-modification", "step-count-law", "radau-real-step-vs-pade", "radau-pade-every-step", "radau-pade-general", "radau-stage-times", "radau-steps-repeating-the-step-size"] {
        rep.require(t, 1);
    }
    rep.states_override = Some(forest.trees.len() as u64 * RK_METHODS.len() as u64);
    rep.rule = "the tableau (A, b, c) is extracted from the running code by answering the j-th RHS call with the unit vector e_j (Radau: zero Jacobian and constant-by-stage answers); the order condition of EVERY rooted tree of order <= p (the universal quantifier of the order conditions) is evaluated on it in double-double arithmetic with tolerance 1e-12*scale; the estimator is exercised on every tree of order <= q+1 through the real step; the model is bound to the code by predicting real nonlinear steps (traces_validated); local-order ladders and the step-count law corroborate end to end; distinct = distinct (method, tree, residual)".into();
    rep.assumptions.push("a coefficient perturbed below 1e-12 relative is not an order violation and is not reported".into());
    rep.assumptions.push("the DOP853 third-order estimator (BH*) is only decided through the step-count law".into());
    rep.finish()
}
