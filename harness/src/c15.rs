//! C15 — mass matrices, DAEs and Jacobian sources/storages are interchangeable.

use crate::problems::Prob;
use crate::regress;
use crate::report::{is_thorough, CaseOut, Report, Violation};
use crate::run::{mname, run_lowlevel, run_with, Cfg};
use crate::util::par_map;
use ivp::matrix::{Matrix, MatrixStorage};
use ivp::prelude::*;
use serde_json::{json, Value};
use std::sync::Arc;

fn bits_eq(a: &[f64], b: &[f64]) -> bool {
    a.len() == b.len() && a.iter().zip(b).all(|(x, y)| x.to_bits() == y.to_bits())
}

/// B (banded jl, ju) and the forcing of the linear test problem f(t,y) = B y + g(t)
fn bmat(n: usize, jl: usize, ju: usize) -> Vec<f64> {
    let mut b = vec![0.0; n * n];
    for i in 0..n {
        for j in 0..n {
            let k = i as isize - j as isize;
            if i == j {
                b[i * n + j] = -(2.0 + 0.3 * i as f64);
            } else if k > 0 && k as usize <= jl || k < 0 && (-k) as usize <= ju {
                b[i * n + j] = 0.4 / (1.0 + k.abs() as f64) * if (i + j) % 2 == 0 { 1.0 } else { -1.0 };
            }
        }
    }
    b
}
fn forcing(i: usize, t: f64) -> f64 {
    (t + i as f64).sin()
}

#[derive(Clone, Debug)]
struct MassPat {
    name: String,
    m: Vec<f64>,
    ml: usize,
    mu: usize,
    identity: bool,
    singular: bool,
}

fn mass_patterns(n: usize) -> Vec<MassPat> {
    let mut v = vec![];
    let eye: Vec<f64> = (0..n * n).map(|k| if k / n == k % n { 1.0 } else { 0.0 }).collect();
    v.push(MassPat { name: "identity".into(), m: eye.clone(), ml: 0, mu: 0, identity: true, singular: false });
    let mut d = vec![0.0; n * n];
    for i in 0..n {
        d[i * n + i] = 1.0 + 0.5 * i as f64;
    }
    v.push(MassPat { name: "positive diagonal".into(), m: d, ml: 0, mu: 0, identity: false, singular: false });
    if n >= 2 {
        let band = |ml: usize, mu: usize, name: &str| {
            let mut m = vec![0.0; n * n];
            for i in 0..n {
                for j in 0..n {
                    let k = i as isize - j as isize;
                    if i == j {
                        m[i * n + j] = 2.0 + 0.1 * i as f64;
                    } else if k > 0 && k as usize <= ml {
                        m[i * n + j] = 0.7 / (1.0 + k as f64);
                    } else if k < 0 && (-k) as usize <= mu {
                        m[i * n + j] = 0.2 / (1.0 - k as f64);
                    }
                }
            }
            MassPat { name: name.into(), m, ml, mu, identity: false, singular: false }
        };
        v.push(band(1, 1, "tridiagonal (nonsymmetric)"));
        v.push(band(1, 0, "lower bidiagonal"));
        v.push(band(0, 1, "upper bidiagonal"));
        v.push(band(n - 1, n - 1, "dense well-conditioned (nonsymmetric)"));
        if n >= 3 {
            v.push(band(2, 1, "banded (2,1)"));
        }
        // unit diagonal, nothing above it, entries below it: everything an identity test that looks at the
        // diagonal and one triangle would take for the identity
        let mut ul = eye.clone();
        for i in 1..n {
            ul[i * n + i - 1] = 0.5;
        }
        v.push(MassPat { name: "unit lower bidiagonal".into(), m: ul, ml: 1, mu: 0, identity: false, singular: false });
        let mut uu = eye.clone();
        for i in 1..n {
            uu[(i - 1) * n + i] = -0.5;
        }
        v.push(MassPat { name: "unit upper bidiagonal".into(), m: uu, ml: 0, mu: 1, identity: false, singular: false });
        // the exchange matrix (ones on the anti-diagonal): nonsingular, every diagonal entry zero for even n - every
        // factorisation of fac*M - J has to interchange rows, and the pivot rows contain exact zeros
        let mut ex = vec![0.0; n * n];
        for i in 0..n {
            ex[i * n + (n - 1 - i)] = 1.0;
        }
        v.push(MassPat { name: "exchange matrix".into(), m: ex, ml: n - 1, mu: n - 1, identity: false, singular: false });
        let mut s = eye.clone();
        s[(n - 1) * n + n - 1] = 0.0;
        v.push(MassPat { name: "diag(1,..,1,0) index-1 DAE".into(), m: s, ml: 0, mu: 0, identity: false, singular: true });
    }
    v
}

fn invert(n: usize, m: &[f64]) -> Vec<f64> {
    let mut a: Vec<Vec<f64>> = (0..n).map(|i| (0..2 * n).map(|j| if j < n { m[i * n + j] } else if j - n == i { 1.0 } else { 0.0 }).collect()).collect();
    for k in 0..n {
        let mut pv = k;
        for i in k..n {
            if a[i][k].abs() > a[pv][k].abs() {
                pv = i;
            }
        }
        a.swap(k, pv);
        let d = a[k][k];
        for j in 0..2 * n {
            a[k][j] /= d;
        }
        for i in 0..n {
            if i != k {
                let f = a[i][k];
                if f != 0.0 {
                    for j in 0..2 * n {
                        a[i][j] -= f * a[k][j];
                    }
                }
            }
        }
    }
    (0..n * n).map(|k| a[k / n][n + k % n]).collect()
}

fn linear_prob(n: usize, b: Vec<f64>, name: String, y0: Vec<f64>) -> Prob {
    let b2 = b.clone();
    Prob {
        name,
        n,
        f: Arc::new(move |t, y, d| {
            for i in 0..n {
                let mut s = forcing(i, t);
                for j in 0..n {
                    s += b[i * n + j] * y[j];
                }
                d[i] = s;
            }
        }),
        jac: Some(Arc::new(move |_t, _y| b2.clone())),
        flow: None,
        y0,
        linear_homogeneous: false,
    }
}

fn storages_for(ml: usize, mu: usize, n: usize, identity: bool) -> Vec<MatrixStorage> {
    let mut v = vec![MatrixStorage::Full, MatrixStorage::Banded { ml, mu }];
    if ml + 1 <= n - 1 || mu + 1 <= n - 1 {
        v.push(MatrixStorage::Banded { ml: (ml + 1).min(n.saturating_sub(1)), mu: (mu + 1).min(n.saturating_sub(1)) });
    }
    // a band wider than the matrix itself (ml = mu = n): still the same entries
    v.push(MatrixStorage::Banded { ml: n, mu: n });
    if identity {
        v.push(MatrixStorage::Identity);
    }
    v.dedup();
    v
}

struct Job {
    key: String,
    n: usize,
    pat: MassPat,
    jl: usize,
    ju: usize,
}

fn write_mass(pat: &MassPat, n: usize, m: &mut Matrix) {
    match m.storage.clone() {
        MatrixStorage::Identity => {}
        MatrixStorage::Full => {
            for i in 0..n {
                for j in 0..n {
                    m[(i, j)] = pat.m[i * n + j];
                }
            }
        }
        MatrixStorage::Banded { ml, mu } => {
            for i in 0..n {
                for j in 0..n {
                    let k = i as isize - j as isize;
                    if k >= -(mu as isize) && k <= ml as isize {
                        m[(i, j)] = pat.m[i * n + j];
                    }
                }
            }
        }
    }
}

pub fn run_check(replay: Option<Value>) -> i32 {
    let mut rep = Report::new("C15", "model_checking");
    let only = replay.as_ref().and_then(|c| c["key"].as_str().map(|s| s.to_string()));
    let thorough = is_thorough();
    let nmax = if thorough { 8 } else { 4 };
    let mut jobs = vec![];
    for n in 1..=nmax {
        for (pi, pat) in mass_patterns(n).into_iter().enumerate() {
            let bands: Vec<(usize, usize)> = if n <= 4 { (0..n).flat_map(|a| (0..n).map(move |b| (a, b))).collect() } else { vec![(0, 0), (1, 1), (2, 1), (n - 1, 0), (n - 1, n - 1)] };
            for (jl, ju) in bands {
                jobs.push(Job { key: format!("mass:{}.{}.{}.{}", n, pi, jl, ju), n, pat: pat.clone(), jl, ju });
            }
        }
    }
    let (rtol, atol) = (1e-6, 1e-8);
    let outs = par_map(jobs.len(), |j| {
        let job = &jobs[j];
        if let Some(o) = &only {
            if *o != job.key {
                return None;
            }
        }
        let n = job.n;
        let b = bmat(n, job.jl, job.ju);
        // consistent initial state (index-1 DAE: the last component solves its constraint at t=0)
        let mut y0: Vec<f64> = (0..n).map(|i| 1.0 - 0.3 * i as f64).collect();
        if job.pat.singular {
            let mut s = forcing(n - 1, 0.0);
            for jx in 0..n - 1 {
                s += b[(n - 1) * n + jx] * y0[jx];
            }
            y0[n - 1] = -s / b[(n - 1) * n + n - 1];
        }
        let p = linear_prob(n, b.clone(), format!("linear n={} jac band ({},{})", n, job.jl, job.ju), y0.clone());
        let mut out = CaseOut::default();
        let desc = json!({"key": job.key, "n": n, "mass": job.pat.name, "mass_band": [job.pat.ml, job.pat.mu], "jac_band": [job.jl, job.ju], "rtol": rtol, "atol": atol});
        macro_rules! viol {
            ($c:expr, $m:expr) => {
                out.violations.push(Violation::new(&job.key, $c, $m, desc.clone()).with("mass", job.pat.name.split(' ').next().unwrap_or("")).with("n", n))
            };
        }
        let pat = job.pat.clone();
        let massf = move |m: &mut Matrix| write_mass(&pat, n, m);
        // (1) storage interchangeability: baseline Full/Full, every other storage pair bitwise equal
        let mut base: Option<Solution> = None;
        let mstor = storages_for(job.pat.ml, job.pat.mu, n, job.pat.identity);
        let jstor: Vec<MatrixStorage> = storages_for(job.jl, job.ju, n, false);
        for ms in &mstor {
            for js in &jstor {
                let mut c = Cfg::new(Method::RADAU, 0.0, 1.5, &y0).tol(rtol, atol);
                c.user_jac = true;
                c.mass_storage = ms.clone();
                c.jac_storage = js.clone();
                let r = run_with(&p, &c, None, if *ms == MatrixStorage::Identity { None } else { Some(&massf) });
                out.events += r.st.n_ode;
                match r.sol() {
                    Some(s) if s.status == Status::Success => {
                        match &base {
                            None => base = Some(s.clone()),
                            Some(bs) => {
                                let same = bits_eq(&s.t, &bs.t) && s.y.iter().zip(&bs.y).all(|(u, v)| bits_eq(u, v));
                                if !same {
                                    viol!("storage-dependence", format!("mass {:?} / Jacobian {:?} gives a different trajectory than Full/Full ({} vs {} samples)", ms, js, s.t.len(), bs.t.len()));
                                }
                                out.validated += 1;
                            }
                        }
                        out.tag("storage-pair");
                    }
                    _ => viol!("outcome", format!("mass {:?} / Jacobian {:?}: run ended with {}", ms, js, r.outcome_name())),
                }
            }
        }
        // (1b) both sides of M y' = f multiplied by 2^-66 (1.4e-20, an equation written in nano-units): the same
        // equation, and with a power of two the same arithmetic up to the exponent - bit for bit the same run
        if let Some(bs) = &base {
            let s66 = 2f64.powi(-66);
            let pat_s = MassPat { m: job.pat.m.iter().map(|v| v * s66).collect(), identity: false, ..job.pat.clone() };
            let massf_s = move |m: &mut Matrix| write_mass(&pat_s, n, m);
            let (f0, j0) = (p.f.clone(), p.jac.clone().unwrap());
            let p_s = Prob {
                name: format!("{} (equation scaled by 2^-66)", p.name),
                f: Arc::new(move |t, y, d| {
                    f0(t, y, d);
                    for v in d.iter_mut() {
                        *v *= s66;
                    }
                }),
                jac: Some(Arc::new(move |t, y| j0(t, y).iter().map(|v| v * s66).collect())),
                ..p.clone()
            };
            let mut stor = vec![MatrixStorage::Full];
            if n >= 2 {
                stor.push(MatrixStorage::Banded { ml: job.pat.ml, mu: job.pat.mu });
            }
            for ms in stor {
                let mut c = Cfg::new(Method::RADAU, 0.0, 1.5, &y0).tol(rtol, atol);
                c.user_jac = true;
                c.mass_storage = ms.clone();
                let r = run_with(&p_s, &c, None, Some(&massf_s));
                out.events += r.st.n_ode;
                match r.sol() {
                    Some(s) if s.status == Status::Success => {
                        if !(bits_eq(&s.t, &bs.t) && s.y.iter().zip(&bs.y).all(|(u, v)| bits_eq(u, v))) {
                            viol!("equation-scaling", format!("M y' = f with both sides multiplied by 2^-66 (mass {:?}) gives a different trajectory ({} vs {} samples)", ms, s.t.len(), bs.t.len()));
                        }
                        out.validated += 1;
                        out.tag("equation-scaled");
                    }
                    _ => viol!("equation-scaling", format!("M y' = f with both sides multiplied by 2^-66 (mass {:?}): run ended with {}", ms, r.outcome_name())),
                }
            }
        }
        // BDF: Jacobian storages (no mass support)
        if job.pat.identity {
            let mut bb: Option<Solution> = None;
            for js in &jstor {
                let mut c = Cfg::new(Method::BDF, 0.0, 1.5, &y0).tol(rtol, atol);
                c.user_jac = true;
                c.jac_storage = js.clone();
                let r = run_with(&p, &c, None, None);
                out.events += r.st.n_ode;
                match r.sol() {
                    Some(s) if s.status == Status::Success => match &bb {
                        None => bb = Some(s.clone()),
                        Some(bs) => {
                            if !(bits_eq(&s.t, &bs.t) && s.y.iter().zip(&bs.y).all(|(u, v)| bits_eq(u, v))) {
                                viol!("storage-dependence", format!("BDF with Jacobian {:?} gives a different trajectory than with Full", js));
                            }
                            out.validated += 1;
                        }
                    },
                    _ => viol!("outcome", format!("BDF with Jacobian {:?}: {}", js, r.outcome_name())),
                }
            }
        }
        let bs = match base {
            Some(s) => s,
            None => return Some(out),
        };
        let ynorm = bs.y.iter().flat_map(|y| y.iter()).fold(0.0f64, |a, v| a.max(v.abs()));
        let tolscale = 50.0 * bs.naccpt.max(1) as f64 * (atol + rtol * ynorm);
        if !job.pat.singular {
            // (2) M y' = f agrees with y' = M^-1 f
            let mi = invert(n, &job.pat.m);
            let mut mb = vec![0.0; n * n];
            for i in 0..n {
                for jx in 0..n {
                    for k in 0..n {
                        mb[i * n + jx] += mi[i * n + k] * b[k * n + jx];
                    }
                }
            }
            let mi2 = mi.clone();
            let mb2 = mb.clone();
            let pe = Prob {
                name: "explicit form".into(),
                n,
                f: Arc::new(move |t, y, d| {
                    let g: Vec<f64> = (0..n).map(|i| forcing(i, t)).collect();
                    for i in 0..n {
                        let mut s = 0.0;
                        for k in 0..n {
                            s += mb[i * n + k] * y[k] + mi[i * n + k] * g[k];
                        }
                        d[i] = s;
                    }
                }),
                jac: Some(Arc::new(move |_t, _y| mb2.clone())),
                flow: None,
                y0: y0.clone(),
                linear_homogeneous: false,
            };
            let _ = mi2;
            // the same problem in explicit form at the same tolerance fixes the scale: the number of
            // steps of the run under test must not enter its own error bound
            let mut ce = Cfg::new(Method::RADAU, 0.0, 1.5, &y0).tol(rtol, atol);
            ce.user_jac = true;
            let re = run_with(&pe, &ce, None, None);
            let nacc_e = re.sol().map(|s| s.naccpt).unwrap_or(1).max(1);
            let scale_e = 50.0 * nacc_e as f64 * (atol + rtol * ynorm);
            if bs.naccpt > 3 * nacc_e + 20 {
                viol!("mass-cost", format!("M y'=f needs {} accepted steps, the equivalent explicit form {} at the same tolerance", bs.naccpt, nacc_e));
            }
            for m in [Method::RADAU, Method::DOP853] {
                let mut c = Cfg::new(m, 0.0, 1.5, &y0).tol(rtol * 1e-2, atol * 1e-2);
                c.user_jac = true;
                let r = run_with(&pe, &c, None, None);
                out.events += r.st.n_ode;
                if let Some(s) = r.sol() {
                    let d = s.y.last().unwrap().iter().zip(bs.y.last().unwrap()).fold(0.0f64, |a, (u, v)| a.max((u - v).abs()));
                    if d > scale_e {
                        viol!("mass-vs-explicit", format!("M y'=f and y'=M^-1 f (solved by {}) differ by {:e} at the end (tolerance scale {:e})", mname(m), d, scale_e));
                    }
                    out.validated += 1;
                    out.tag("mass-vs-explicit");
                }
            }
        } else {
            // (3) the algebraic constraint holds at every sample
            let mut worst: f64 = 0.0;
            for (t, y) in bs.t.iter().zip(&bs.y) {
                let mut s = forcing(n - 1, *t);
                for jx in 0..n {
                    s += b[(n - 1) * n + jx] * y[jx];
                }
                worst = worst.max(s.abs());
            }
            if worst > tolscale {
                viol!("dae-constraint", format!("the algebraic equation of the index-1 DAE has residual {:e} at a sample (tolerance scale {:e})", worst, tolscale));
            }
            out.validated += 1;
            out.tag("dae-constraint");
        }
        // (5) finite-difference Jacobian agrees within tolerance
        {
            let mut c = Cfg::new(Method::RADAU, 0.0, 1.5, &y0).tol(rtol, atol);
            c.user_jac = false;
            c.mass_storage = MatrixStorage::Full;
            let r = run_with(&p, &c, None, Some(&massf));
            out.events += r.st.n_ode;
            match r.sol() {
                Some(s) if s.status == Status::Success => {
                    let d = s.y.last().unwrap().iter().zip(bs.y.last().unwrap()).fold(0.0f64, |a, (u, v)| a.max((u - v).abs()));
                    if d > tolscale {
                        viol!("fd-jacobian", format!("finite-difference and analytic Jacobian differ by {:e} at the end (tolerance scale {:e})", d, tolscale));
                    }
                    out.validated += 1;
                }
                _ => viol!("outcome", format!("finite-difference Jacobian run ended with {}", r.outcome_name())),
            }
        }
        // (4) no mass matrix supplied: y' = f whatever the mass storage, also for the low-level builder default
        if job.pat.identity {
            let mut c0 = Cfg::new(Method::RADAU, 0.0, 1.5, &y0).tol(rtol, atol);
            c0.user_jac = true;
            let r0 = run_with(&p, &c0, None, None);
            let s0 = r0.sol().cloned();
            let mut stor = vec![MatrixStorage::Full, MatrixStorage::Banded { ml: 0, mu: 0 }];
            if n >= 2 {
                stor.extend([MatrixStorage::Banded { ml: 1, mu: 0 }, MatrixStorage::Banded { ml: 0, mu: 1 }, MatrixStorage::Banded { ml: 1, mu: 1 }, MatrixStorage::Banded { ml: n - 1, mu: 0 }]);
            }
            if n >= 3 {
                stor.push(MatrixStorage::Banded { ml: 2, mu: 1 });
            }
            for ms in stor {
                let mut c = c0.clone();
                c.mass_storage = ms.clone();
                let r = run_with(&p, &c, None, None);
                out.events += r.st.n_ode;
                match (r.sol(), &s0) {
                    (Some(s), Some(b0)) if s.status == Status::Success => {
                        if !(bits_eq(&s.t, &b0.t) && s.y.iter().zip(&b0.y).all(|(u, v)| bits_eq(u, v))) {
                            viol!("default-mass", format!("no mass override with mass_storage {:?}: the result differs from y'=f ({} vs {} samples, y_end {:?} vs {:?})", ms, s.t.len(), b0.t.len(), s.y.last(), b0.y.last()));
                        }
                        out.validated += 1;
                        out.tag("default-mass");
                    }
                    _ => viol!("default-mass", format!("no mass override with mass_storage {:?}: run ended with {}", ms, r.outcome_name())),
                }
            }
            // low-level builder with its documented defaults
            let low = run_lowlevel(&p, &c0, &[], &[], None, false);
            out.events += low.st.n_ode;
            match (low.ok(), &s0) {
                (Some(ir), Some(b0)) if ir.status == Status::Success => {
                    let yl = &low.recs.last().unwrap().y;
                    if !bits_eq(yl, b0.y.last().unwrap()) {
                        viol!("default-mass-builder", format!("RADAU::builder() defaults without a mass override give {:?}, solve_ivp gives {:?}", yl, b0.y.last().unwrap()));
                    }
                    out.validated += 1;
                }
                _ => viol!("default-mass-builder", format!("low-level default run ended with {}", low.outcome_name())),
            }
        }
        let mut h = crate::util::Fp::default();
        h.s(&job.key);
        h.fs(bs.y.last().unwrap());
        out.fp = Some(h.as_u128());
        out.sample = Some(desc);
        Some(out)
    });
    rep.absorb(outs.into_iter().flatten().collect());

    // index-1 DAEs whose algebraic row needs a row interchange in every factorisation (real and
    // complex): 0 = eps*y0 + y1 - 1, y1' = -y1 + y0  =>  y1' = 1/eps - (1 + 1/eps) y1, closed form;
    // optionally a second algebraic variable y2 = y0*y1.  Column 0 of E = fac*M - J is
    // (-eps, -1, ..)^T whatever the step size, so the pivot is never the diagonal entry.
    let epss = [0.1, 0.5, 0.01];
    let pjobs: Vec<(usize, usize, usize, usize)> = (0..epss.len()).flat_map(|e| (0..2usize).flat_map(move |v| (0..2usize).flat_map(move |j| (0..2usize).map(move |t| (e, v, j, t))))).collect();
    let pouts = par_map(pjobs.len(), |k| {
        let (ei, variant, jsrc, ti) = pjobs[k];
        let key = format!("daepivot:{}.{}.{}.{}", ei, variant, jsrc, ti);
        if let Some(o) = &only {
            if *o != key {
                return None;
            }
        }
        let eps = epss[ei];
        let n = 2 + variant;
        let rate = 1.0 + 1.0 / eps;
        let yinf = (1.0 / eps) / rate;
        let exact = move |t: f64| -> Vec<f64> {
            let y1 = yinf + (0.0 - yinf) * (-rate * t).exp();
            let y0 = (1.0 - y1) / eps;
            if n == 2 {
                vec![y0, y1]
            } else {
                vec![y0, y1, y0 * y1]
            }
        };
        let p = Prob {
            name: format!("index-1 DAE, algebraic row first, eps={}, n={}", eps, n),
            n,
            f: Arc::new(move |_t, y, d| {
                d[0] = eps * y[0] + y[1] - 1.0;
                d[1] = -y[1] + y[0];
                if n == 3 {
                    d[2] = y[2] - y[0] * y[1];
                }
            }),
            jac: Some(Arc::new(move |_t, y| if n == 2 { vec![eps, 1.0, 1.0, -1.0] } else { vec![eps, 1.0, 0.0, 1.0, -1.0, 0.0, -y[1], -y[0], 1.0] })),
            flow: None,
            y0: exact(0.0),
            linear_homogeneous: false,
        };
        let (rtol, atol) = if ti == 0 { (1e-5, 1e-8) } else { (1e-8, 1e-11) };
        let mut c = Cfg::new(Method::RADAU, 0.0, 1.0, &p.y0).tol(rtol, atol);
        c.user_jac = jsrc == 0;
        c.mass_storage = MatrixStorage::Full;
        let massf = move |m: &mut Matrix| {
            for i in 0..n {
                for j in 0..n {
                    m[(i, j)] = if i == j && i == 1 { 1.0 } else { 0.0 };
                }
            }
        };
        let r = run_with(&p, &c, None, Some(&massf));
        let mut out = CaseOut::default();
        out.events = r.st.n_ode;
        let desc = json!({"key": key, "problem": p.name, "rtol": rtol, "atol": atol, "jacobian": if jsrc == 0 { "user" } else { "finite-difference" }, "outcome": r.outcome_name(),
            "nfev": r.sol().map(|s| s.nfev), "naccpt": r.sol().map(|s| s.naccpt)});
        match r.sol() {
            Some(s) if s.status == Status::Success => {
                let ymax = s.y.iter().flat_map(|y| y.iter()).fold(0.0f64, |a, b| a.max(b.abs()));
                let bound = 50.0 * (s.naccpt.max(1) as f64) * (atol + rtol * ymax) / eps;
                let mut worst: f64 = 0.0;
                for (t, y) in s.t.iter().zip(&s.y) {
                    let ex = exact(*t);
                    worst = y.iter().zip(&ex).fold(worst, |a, (u, v)| a.max((u - v).abs()));
                }
                if worst > bound {
                    out.violations.push(Violation::new(&key, "dae-pivot-accuracy", format!("worst sample error {:e} against the closed form exceeds 50*naccpt*tol/eps = {:e}", worst, bound), desc.clone()).with("mass", "algebraic-first").with("n", n));
                }
                // work: the closed-form problem is mildly stiff and smooth; a wrong stage solve shows as
                // many failed Newton iterations long before it shows in the error
                let budget = if ti == 0 { 400 } else { 1200 };
                if s.nfev > budget {
                    out.violations.push(Violation::new(&key, "dae-pivot-work", format!("{} RHS evaluations (budget {} for this smooth problem)", s.nfev, budget), desc.clone()).with("mass", "algebraic-first").with("n", n));
                }
                out.validated += s.t.len() as u64;
                out.tag("dae-pivot");
            }
            _ => out.violations.push(Violation::new(&key, "outcome", format!("index-1 DAE with the algebraic row first: run ended with {}", r.outcome_name()), desc.clone()).with("mass", "algebraic-first").with("n", n)),
        }
        let mut h = crate::util::Fp::default();
        h.s(&key);
        if let Some(s) = r.sol() {
            h.fs(s.y.last().unwrap());
        }
        out.fp = Some(h.as_u128());
        out.sample = Some(desc);
        Some(out)
    });
    rep.absorb(pouts.into_iter().flatten().collect());

    // an index-1 DAE with a nonlinear constraint, driven along a non-trivial trajectory:
    // x' = -x + z + cos t, 0 = z + 10 z^3 - x^2.  The constraint holds at every sample at the level of the tolerance
    // (a stale or over-optimistic Newton convergence estimate shows here first: one sweep is not enough)
    for (si, ms) in [MatrixStorage::Full, MatrixStorage::Banded { ml: 0, mu: 0 }].iter().enumerate() {
        for jsrc in 0..2usize {
            for (ti, tol) in [1e-6, 1e-9].iter().enumerate() {
                let key = format!("cubicdae:{}.{}.{}", si, jsrc, ti);
                if only.as_ref().map(|o| *o != key).unwrap_or(false) {
                    continue;
                }
                let mut z0 = 0.0f64;
                for _ in 0..200 {
                    let dz = (z0 + 10.0 * z0 * z0 * z0 - 1.0) / (1.0 + 30.0 * z0 * z0);
                    z0 -= dz;
                    if dz.abs() < 1e-17 {
                        break;
                    }
                }
                let p = Prob {
                    name: "index-1 DAE with a cubic constraint".into(),
                    n: 2,
                    f: Arc::new(|t, y, d| {
                        d[0] = -y[0] + y[1] + t.cos();
                        d[1] = y[1] + 10.0 * y[1] * y[1] * y[1] - y[0] * y[0];
                    }),
                    jac: Some(Arc::new(|_t, y| vec![-1.0, 1.0, -2.0 * y[0], 1.0 + 30.0 * y[1] * y[1]])),
                    flow: None,
                    y0: vec![1.0, z0],
                    linear_homogeneous: false,
                };
                let mut c = Cfg::new(Method::RADAU, 0.0, 10.0, &p.y0).tol(*tol, tol * 1e-3);
                c.user_jac = jsrc == 0;
                c.mass_storage = ms.clone();
                let massf = |m: &mut Matrix| {
                    m[(0, 0)] = 1.0;
                    m[(1, 1)] = 0.0;
                };
                let r = run_with(&p, &c, None, Some(&massf));
                rep.evaluations += 1;
                rep.transitions += r.st.n_ode;
                let desc = json!({"key": key, "problem": p.name, "mass_storage": format!("{:?}", ms), "jacobian": if jsrc == 0 { "user" } else { "finite-difference" }, "rtol": tol, "outcome": r.outcome_name()});
                match r.sol() {
                    Some(s) if s.status == Status::Success => {
                        let w = s.y.iter().fold(0.0f64, |a, y| a.max((y[1] + 10.0 * y[1] * y[1] * y[1] - y[0] * y[0]).abs()));
                        if std::env::var("VERIF_DEBUG").is_ok() {
                            println!("DBG cubicdae {} residual {:e} ({:.2} rtol)", key, w, w / tol);
                        }
                        if w > 20.0 * tol {
                            rep.violations.push(Violation::new(&key, "dae-constraint", format!("the constraint z + 10 z^3 = x^2 is violated by {:e} at a sample (20 rtol = {:e})", w, 20.0 * tol), desc).with("mass", "cubic").with("n", 2));
                        }
                        rep.validated += s.t.len() as u64;
                        *rep.tags.entry("nonlinear-constraint".into()).or_insert(0) += 1;
                    }
                    _ => rep.violations.push(Violation::new(&key, "outcome", format!("cubic DAE: run ended with {}", r.outcome_name()), desc).with("mass", "cubic").with("n", 2)),
                }
            }
        }
    }

    // an ODE whose equations are listed in exchanged order: M = [[0,1],[1,0]], f = (y0 - 2 y1, -y0), i.e.
    // y0' = -y0, y1' = y0 - 2 y1 with y = (e^-t, e^-t + 2 e^-2t).  J has an exact zero at (1,1): every complex
    // factorisation interchanges rows and meets a zero entry in the pivot row
    for (si, ms) in [MatrixStorage::Full, MatrixStorage::Banded { ml: 1, mu: 1 }].iter().enumerate() {
        for jsrc in 0..2usize {
            for (ti, tol) in [1e-5, 1e-8].iter().enumerate() {
                let key = format!("odeperm:{}.{}.{}", si, jsrc, ti);
                if only.as_ref().map(|o| *o != key).unwrap_or(false) {
                    continue;
                }
                let p = Prob {
                    name: "ODE with exchanged equations".into(),
                    n: 2,
                    f: Arc::new(|_t, y, d| {
                        d[0] = y[0] - 2.0 * y[1];
                        d[1] = -y[0];
                    }),
                    jac: Some(Arc::new(|_t, _y| vec![1.0, -2.0, -1.0, 0.0])),
                    flow: None,
                    y0: vec![1.0, 3.0],
                    linear_homogeneous: true,
                };
                let mut c = Cfg::new(Method::RADAU, 0.0, 2.0, &p.y0).tol(*tol, tol * 1e-2);
                c.user_jac = jsrc == 0;
                c.mass_storage = ms.clone();
                let massf = |m: &mut Matrix| {
                    m[(0, 1)] = 1.0;
                    m[(1, 0)] = 1.0;
                    if let MatrixStorage::Full = m.storage {
                        m[(0, 0)] = 0.0;
                        m[(1, 1)] = 0.0;
                    }
                };
                let r = run_with(&p, &c, None, Some(&massf));
                rep.evaluations += 1;
                rep.transitions += r.st.n_ode;
                let desc = json!({"key": key, "problem": p.name, "mass_storage": format!("{:?}", ms), "jacobian": if jsrc == 0 { "user" } else { "finite-difference" }, "rtol": tol, "outcome": r.outcome_name()});
                match r.sol() {
                    Some(s) if s.status == Status::Success => {
                        let mut worst: f64 = 0.0;
                        for (t, y) in s.t.iter().zip(&s.y) {
                            let ex = [(-t).exp(), (-t).exp() + 2.0 * (-2.0 * t).exp()];
                            worst = worst.max((y[0] - ex[0]).abs()).max((y[1] - ex[1]).abs());
                        }
                        let bound = 50.0 * (s.naccpt.max(1) as f64) * (tol * 1e-2 + tol * 3.0);
                        if worst > bound {
                            rep.violations.push(Violation::new(&key, "mass-vs-explicit", format!("worst sample error {:e} against the closed form exceeds 50*naccpt*tol = {:e}", worst, bound), desc).with("mass", "exchanged").with("n", 2));
                        }
                        rep.validated += s.t.len() as u64;
                        *rep.tags.entry("exchanged-equations".into()).or_insert(0) += 1;
                    }
                    _ => rep.violations.push(Violation::new(&key, "outcome", format!("ODE with exchanged equations: run ended with {}", r.outcome_name()), desc).with("mass", "exchanged").with("n", 2)),
                }
            }
        }
    }

    // a right-hand side with a one-sided domain, started on its boundary: a body released from rest with drag
    // v^1.5 (not a number for v < 0).  The default (differenced) Jacobian must stay inside the domain the state is
    // in, and the run must agree with the one that uses the analytic Jacobian
    for m in [Method::RADAU, Method::BDF] {
        for (ti, tol) in [1e-5, 1e-8].iter().enumerate() {
            let key = format!("onesided:{}:{}", mname(m), ti);
            if only.as_ref().map(|o| *o != key).unwrap_or(false) {
                continue;
            }
            let p = Prob {
                name: "released from rest, drag v^1.5".into(),
                n: 2,
                f: Arc::new(|_t, y, d| {
                    d[0] = y[1];
                    d[1] = 9.81 - 0.8 * y[1].powf(1.5);
                }),
                jac: Some(Arc::new(|_t, y| vec![0.0, 1.0, 0.0, -1.2 * y[1].max(0.0).sqrt()])),
                flow: None,
                y0: vec![0.0, 0.0],
                linear_homogeneous: false,
            };
            let mut ca = Cfg::new(m, 0.0, 2.0, &p.y0).tol(*tol, tol * 1e-2);
            ca.user_jac = true;
            let mut cf = ca.clone();
            cf.user_jac = false;
            let (ra, rf) = (run_with(&p, &ca, None, None), run_with(&p, &cf, None, None));
            rep.evaluations += 2;
            rep.transitions += ra.st.n_ode + rf.st.n_ode;
            let desc = json!({"key": key, "problem": p.name, "method": mname(m), "rtol": tol, "analytic": ra.outcome_name(), "differenced": rf.outcome_name()});
            match (ra.sol(), rf.sol()) {
                (Some(sa), Some(sf)) if sa.status == Status::Success && sf.status == Status::Success => {
                    let d = sa.y.last().unwrap().iter().zip(sf.y.last().unwrap()).fold(0.0f64, |a, (u, v)| a.max((u - v).abs()));
                    let ymax = sa.y.iter().flat_map(|y| y.iter()).fold(0.0f64, |a, b| a.max(b.abs()));
                    let bound = 50.0 * (sa.naccpt.max(sf.naccpt).max(1) as f64) * (tol * 1e-2 + tol * ymax);
                    if d > bound {
                        rep.violations.push(Violation::new(&key, "jacobian-source", format!("{}: analytic and differenced Jacobian give end states {:e} apart (bound {:e})", mname(m), d, bound), desc).with("mass", "none").with("n", 2));
                    }
                    rep.validated += 1;
                    *rep.tags.entry("one-sided-domain".into()).or_insert(0) += 1;
                }
                _ => rep.violations.push(Violation::new(&key, "jacobian-source", format!("{}: with the analytic Jacobian the run ends with {}, with the default differenced one with {}", mname(m), ra.outcome_name(), rf.outcome_name()), desc).with("mass", "none").with("n", 2)),
            }
        }
    }

    // equations and unknowns listed in different orders: unknowns (z, [v,] u), equations (u' = -u, [v' = -2v,]
    // 0 = z - u^2).  Column 0 of E = fac*M - J is (0, .., 0, -1)^T: the only admissible pivot is in the last row.
    let qjobs: Vec<(usize, usize, usize)> = (2..4usize).flat_map(|n| (0..2usize).flat_map(move |j| (0..2usize).map(move |t| (n, j, t)))).collect();
    let qouts = par_map(qjobs.len(), |k| {
        let (n, jsrc, ti) = qjobs[k];
        let key = format!("daeperm:{}.{}.{}", n, jsrc, ti);
        if let Some(o) = &only {
            if *o != key {
                return None;
            }
        }
        let exact = move |t: f64| -> Vec<f64> {
            let u = 0.8 * (-t).exp();
            if n == 2 {
                vec![u * u, u]
            } else {
                vec![u * u, 0.5 * (-2.0 * t).exp(), u]
            }
        };
        let p = Prob {
            name: format!("index-1 DAE, unknowns (z,..,u), equations (u'=-u,..,0=z-u^2), n={}", n),
            n,
            f: Arc::new(move |_t, y, d| {
                let u = y[n - 1];
                d[0] = -u;
                if n == 3 {
                    d[1] = -2.0 * y[1];
                }
                d[n - 1] = y[0] - u * u;
            }),
            jac: Some(Arc::new(move |_t, y| if n == 2 { vec![0.0, -1.0, 1.0, -2.0 * y[1]] } else { vec![0.0, 0.0, -1.0, 0.0, -2.0, 0.0, 1.0, 0.0, -2.0 * y[2]] })),
            flow: None,
            y0: exact(0.0),
            linear_homogeneous: false,
        };
        let (rtol, atol) = if ti == 0 { (1e-5, 1e-8) } else { (1e-8, 1e-11) };
        let mut c = Cfg::new(Method::RADAU, 0.0, 1.0, &p.y0).tol(rtol, atol);
        c.user_jac = jsrc == 0;
        c.mass_storage = MatrixStorage::Full;
        let massf = move |m: &mut Matrix| {
            for i in 0..n {
                for j in 0..n {
                    m[(i, j)] = 0.0;
                }
            }
            m[(0, n - 1)] = 1.0;
            if n == 3 {
                m[(1, 1)] = 1.0;
            }
        };
        let r = run_with(&p, &c, None, Some(&massf));
        let mut out = CaseOut::default();
        out.events = r.st.n_ode;
        let desc = json!({"key": key, "problem": p.name, "rtol": rtol, "atol": atol, "jacobian": if jsrc == 0 { "user" } else { "finite-difference" }, "outcome": r.outcome_name(),
            "nfev": r.sol().map(|s| s.nfev), "naccpt": r.sol().map(|s| s.naccpt)});
        match r.sol() {
            Some(s) if s.status == Status::Success => {
                let bound = 50.0 * (s.naccpt.max(1) as f64) * (atol + rtol);
                let mut worst: f64 = 0.0;
                for (t, y) in s.t.iter().zip(&s.y) {
                    let ex = exact(*t);
                    worst = y.iter().zip(&ex).fold(worst, |a, (u, v)| a.max((u - v).abs()));
                }
                // the algebraic constraint 0 = z - u^2 holds at every sample at the level of the tolerance (the algebraic
                // variable of the two-component form carries up to 83 (atol + rtol) on the tree)
                let mut cres: f64 = 0.0;
                for y in &s.y {
                    cres = cres.max((y[0] - y[n - 1] * y[n - 1]).abs());
                }
                if std::env::var("VERIF_DEBUG").is_ok() {
                    println!("DBG daeperm {} constraint residual {:e} (rtol {:e}) worst err {:e}", key, cres, rtol, worst);
                }
                if cres > 300.0 * (atol + rtol) {
                    out.violations.push(Violation::new(&key, "dae-constraint", format!("the constraint z = u^2 is violated by {:e} at a sample (300 (atol + rtol) = {:e}; measured on the tree: up to 83)", cres, 300.0 * (atol + rtol)), desc.clone()).with("mass", "permuted").with("n", n));
                }
                if worst > bound {
                    out.violations.push(Violation::new(&key, "dae-perm-accuracy", format!("worst sample error {:e} against the closed form exceeds 50*naccpt*tol = {:e}", worst, bound), desc.clone()).with("mass", "permuted").with("n", n));
                }
                out.validated += s.t.len() as u64;
                out.tag("dae-permuted");
            }
            _ => out.violations.push(Violation::new(&key, "outcome", format!("index-1 DAE with permuted equations: run ended with {}", r.outcome_name()), desc.clone()).with("mass", "permuted").with("n", n)),
        }
        let mut h = crate::util::Fp::default();
        h.s(&key);
        if let Some(s) = r.sol() {
            h.fs(s.y.last().unwrap());
        }
        out.fp = Some(h.as_u128());
        out.sample = Some(desc);
        Some(out)
    });
    rep.absorb(qouts.into_iter().flatten().collect());

    // Jacobians whose columns are dominated by an off-diagonal entry ("lag" chains y0' = -y0,
    // y_i' = k (y_{i-1} - y_i)): once the step has grown, the iteration matrices need row interchanges,
    // whose fill-in lies outside the band.  Full and Banded storage must still agree bit for bit, and an
    // accumulating mass routine (m[(i,j)] += .., finite-element style) must give the assigned one's result.
    let ljobs: Vec<(usize, usize, usize, usize)> = (0..2usize).flat_map(|mi| [2usize, 3, 5, 8].into_iter().flat_map(move |n| (0..2usize).flat_map(move |ki| (0..2usize).map(move |ti| (mi, n, ki, ti))))).collect();
    let louts = par_map(ljobs.len(), |q| {
        let (mi, n, ki, ti) = ljobs[q];
        let key = format!("lagchain:{}.{}.{}.{}", mi, n, ki, ti);
        if let Some(o) = &only {
            if *o != key {
                return None;
            }
        }
        let m = [Method::BDF, Method::RADAU][mi];
        let k = [1000.0, 250.0][ki];
        let tol = [1e-5, 1e-8][ti];
        let mut b = vec![0.0; n * n];
        b[0] = -1.0;
        for i in 1..n {
            b[i * n + i] = -k;
            b[i * n + i - 1] = k;
        }
        let b2 = b.clone();
        let b3 = b.clone();
        let p = Prob {
            name: format!("lag chain n={} k={}", n, k),
            n,
            f: Arc::new(move |_t, y, d| {
                for i in 0..n {
                    let mut s = 0.0;
                    for j in 0..n {
                        s += b2[i * n + j] * y[j];
                    }
                    d[i] = s;
                }
            }),
            jac: Some(Arc::new(move |_t, _y| b3.clone())),
            flow: None,
            y0: (0..n).map(|i| 1.0 + 0.1 * i as f64).collect(),
            linear_homogeneous: true,
        };
        let mut out = CaseOut::default();
        let desc = json!({"key": key, "method": mname(m), "problem": p.name, "tol": tol});
        let mut basel: Option<Solution> = None;
        for js in [MatrixStorage::Full, MatrixStorage::Banded { ml: 1, mu: 0 }, MatrixStorage::Banded { ml: (n - 1).min(2), mu: 1 }] {
            for mass_kind in 0..3usize {
                // 0: no mass override; 1: assigned identity-like mass (diag 1); 2: the same mass accumulated with +=
                if mass_kind > 0 && m != Method::RADAU {
                    continue;
                }
                let mut c = Cfg::new(m, 0.0, 2.0, &p.y0).tol(tol, tol * 1e-2);
                c.user_jac = true;
                c.jac_storage = js.clone();
                if mass_kind > 0 {
                    c.mass_storage = MatrixStorage::Banded { ml: 0, mu: 0 };
                }
                let massf = move |mm: &mut Matrix| {
                    for i in 0..n {
                        if mass_kind == 1 {
                            mm[(i, i)] = 1.0;
                        } else {
                            mm[(i, i)] += 1.0;
                        }
                    }
                };
                let r = run_with(&p, &c, None, if mass_kind > 0 { Some(&massf) } else { None });
                out.events += r.st.n_ode;
                match r.sol() {
                    Some(s) if s.status == Status::Success => match &basel {
                        None => basel = Some(s.clone()),
                        Some(bs) => {
                            let same = bits_eq(&s.t, &bs.t) && s.y.iter().zip(&bs.y).all(|(u, v)| bits_eq(u, v));
                            if !same {
                                out.violations.push(Violation::new(&key, "storage-dependence", format!("Jacobian {:?}, mass variant {}: trajectory differs from Full storage without a mass ({} vs {} samples)", js, ["none", "assigned", "accumulated"][mass_kind], s.t.len(), bs.t.len()), desc.clone()).with("mass", "lagchain").with("n", n));
                            }
                            out.validated += 1;
                        }
                    },
                    _ => out.violations.push(Violation::new(&key, "outcome", format!("Jacobian {:?}, mass variant {}: run ended with {}", js, ["none", "assigned", "accumulated"][mass_kind], r.outcome_name()), desc.clone()).with("mass", "lagchain").with("n", n)),
                }
            }
        }
        out.tag("lag-chain");
        let mut h = crate::util::Fp::default();
        h.s(&key);
        if let Some(bs) = &basel {
            h.fs(bs.y.last().unwrap());
            // several factorisations are needed for stale fill-in to matter
            if bs.nlu >= 2 {
                out.tag("lag-chain-refactorised");
            }
        }
        out.fp = Some(h.as_u128());
        out.sample = Some(desc);
        Some(out)
    });
    rep.absorb(louts.into_iter().flatten().collect());

    // no mass supplied, every mass storage, on a very stiff problem started with an oversized first step
    // (the error estimate of the first attempts goes through its refinement branch): still y' = f, bitwise
    let sjobs: Vec<(usize, usize)> = (0..3usize).flat_map(|e| (0..2usize).map(move |j| (e, j))).collect();
    let souts = par_map(sjobs.len(), |q| {
        let (ei, jsrc) = sjobs[q];
        let key = format!("stiffstart:{}.{}", ei, jsrc);
        if let Some(o) = &only {
            if *o != key {
                return None;
            }
        }
        let eps = [1e-6, 1e-4, 1e-2][ei];
        let p = Prob {
            name: format!("van der pol (Lienard form), eps={:e}", eps),
            n: 2,
            f: Arc::new(move |_t, y, d| {
                d[0] = y[1];
                d[1] = ((1.0 - y[0] * y[0]) * y[1] - y[0]) / eps;
            }),
            jac: Some(Arc::new(move |_t, y| vec![0.0, 1.0, (-2.0 * y[0] * y[1] - 1.0) / eps, (1.0 - y[0] * y[0]) / eps])),
            flow: None,
            y0: vec![2.0, -0.66],
            linear_homogeneous: false,
        };
        let mut out = CaseOut::default();
        let desc = json!({"key": key, "problem": p.name, "jacobian": if jsrc == 0 { "user" } else { "finite-difference" }});
        let mut basel: Option<Solution> = None;
        for fs in [Some(1e-3), Some(1e-2), Some(0.1), Some(1.0), None] {
            basel = None;
            for ms in [MatrixStorage::Identity, MatrixStorage::Full, MatrixStorage::Banded { ml: 0, mu: 0 }, MatrixStorage::Banded { ml: 1, mu: 1 }] {
                let mut c = Cfg::new(Method::RADAU, 0.0, 2.0, &p.y0).tol(1e-6, 1e-8);
                c.user_jac = jsrc == 0;
                c.first_step = fs;
                c.mass_storage = ms.clone();
                let r = run_with(&p, &c, None, None);
                out.events += r.st.n_ode;
                match r.sol() {
                    Some(s) if s.status == Status::Success => match &basel {
                        None => basel = Some(s.clone()),
                        Some(bs) => {
                            let same = bits_eq(&s.t, &bs.t) && s.y.iter().zip(&bs.y).all(|(u, v)| bits_eq(u, v)) && (s.nfev, s.nstep, s.naccpt, s.nrejct) == (bs.nfev, bs.nstep, bs.naccpt, bs.nrejct);
                            if !same {
                                out.violations.push(Violation::new(&key, "default-mass", format!("no mass override, first_step {:?}: mass storage {:?} gives a different run than Identity ({} vs {} samples, nrejct {} vs {})", fs, ms, s.t.len(), bs.t.len(), s.nrejct, bs.nrejct), desc.clone()).with("mass", "default").with("n", 2));
                            }
                            out.validated += 1;
                        }
                    },
                    _ => out.violations.push(Violation::new(&key, "outcome", format!("first_step {:?}, mass storage {:?}: run ended with {}", fs, ms, r.outcome_name()), desc.clone()).with("mass", "default").with("n", 2)),
                }
            }
            if basel.as_ref().map(|b| b.nrejct > 0).unwrap_or(false) {
                out.tag("stiff-start-with-rejections");
            }
        }
        let mut h = crate::util::Fp::default();
        h.s(&key);
        if let Some(bs) = &basel {
            h.fs(bs.y.last().unwrap());
        }
        out.fp = Some(h.as_u128());
        out.sample = Some(desc);
        Some(out)
    });
    rep.absorb(souts.into_iter().flatten().collect());

    // the two ways of obtaining a low-level solver with its documented defaults agree field by field
    {
        use ivp::methods::{BDF, DOP853, DOPRI5, RADAU, RK23, RK4};
        let pairs: Vec<(&str, String, String)> = vec![
            ("RADAU", format!("{:?}", RADAU::default()), format!("{:?}", RADAU::builder().build())),
            ("BDF", format!("{:?}", BDF::default()), format!("{:?}", BDF::builder().build())),
            ("DOP853", format!("{:?}", DOP853::default()), format!("{:?}", DOP853::builder().build())),
            ("DOPRI5", format!("{:?}", DOPRI5::default()), format!("{:?}", DOPRI5::builder().build())),
            ("RK23", format!("{:?}", RK23::default()), format!("{:?}", RK23::builder().build())),
            ("RK4", format!("{:?}", RK4::default()), format!("{:?}", RK4::builder().build())),
        ];
        for (name, d, b) in pairs {
            rep.evaluations += 1;
            let key = format!("defaults:{}", name);
            if only.as_ref().map(|o| *o != key).unwrap_or(false) {
                continue;
            }
            if d != b {
                rep.violations.push(Violation::new(&key, "builder-defaults", format!("{}::default() is {} but {}::builder().build() is {}", name, d, name, b), json!({"key": key})).with("mass", "defaults").with("n", 0));
            }
            *rep.tags.entry("builder-defaults".into()).or_insert(0) += 1;
        }
    }
    if only.is_some() {
        for v in &rep.violations {
            println!("replay: VIOLATED [{}]: {}\n{}", v.sig["check"], v.msg, serde_json::to_string_pretty(&v.case).unwrap());
        }
        if rep.violations.is_empty() {
            println!("replay: property holds on this case");
        }
        return if rep.violations.is_empty() { 0 } else { 1 };
    }
    rep.violations.extend(regress::violations_for("C15"));
    rep.dims = json!({"dimension": format!("1..={}", nmax), "mass_patterns": mass_patterns(4).iter().map(|p| p.name.clone()).collect::<Vec<_>>(),
        "jacobian_bands": "all (ml,mu) <= n-1 for n<=4; a fixed selection beyond", "mass_storages": "Full, Banded(exact fit), Banded(wider), Identity (identity pattern only)",
        "jacobian_storages": "Full, Banded(exact fit), Banded(wider)", "paths": ["solve_ivp Options", "RADAU::builder() defaults"], "methods": ["RADAU (mass)", "BDF (Jacobian storages)"]});
    for t in ["storage-pair", "mass-vs-explicit", "dae-constraint", "default-mass", "dae-pivot", "lag-chain-refactorised"] {
        rep.require(t, 10);
    }
    rep.require("stiff-start-with-rejections", 2);
    rep.rule = "for every (dimension, mass pattern, Jacobian band pattern): all storage pairs holding the same entries must give bitwise identical trajectories (baseline Full/Full); M y'=f against y'=M^-1 f solved by Radau and DOP853 at 100x tighter tolerance; the algebraic residual of the index-1 DAE at every sample; index-1 DAEs with the algebraic row first (a row interchange in every real and complex factorisation) against their closed form, with a work budget; lag chains whose iteration matrices need row interchanges: Full vs Banded Jacobian and assigned vs accumulated (+=) unit mass bitwise; finite-difference vs analytic Jacobian; with no mass override every mass storage (including asymmetric bands) and the low-level builder defaults must reproduce y'=f bitwise; distinct = distinct (configuration, final state)".into();
    rep.finish()
}
