//! C16 — LU factorisation and triangular solves, real and complex.
//! Exhaustive enumeration of all small-alphabet matrices up to 3x3 plus enumerated structured
//! families up to 12x12; residuals in double-double arithmetic.

use crate::report::{is_thorough, CaseOut, Report, Violation};
use crate::util::{guarded, par_map, Fp, DD};
use ivp::matrix::{lin_solve, lin_solve_complex, lu_decomp, lu_decomp_complex, Matrix};
use serde_json::{json, Value};

const EPS: f64 = f64::EPSILON;

fn is_pow2(x: f64) -> bool {
    if x == 0.0 || !x.is_finite() {
        return false;
    }
    let m = x.abs().to_bits() & ((1u64 << 52) - 1);
    m == 0
}

fn det_real(n: usize, a: &[i64]) -> i64 {
    match n {
        1 => a[0],
        2 => a[0] * a[3] - a[1] * a[2],
        _ => {
            a[0] * (a[4] * a[8] - a[5] * a[7]) - a[1] * (a[3] * a[8] - a[5] * a[6]) + a[2] * (a[3] * a[7] - a[4] * a[6])
        }
    }
}

type C = (i64, i64);
fn cm(a: C, b: C) -> C {
    (a.0 * b.0 - a.1 * b.1, a.0 * b.1 + a.1 * b.0)
}
fn cs(a: C, b: C) -> C {
    (a.0 - b.0, a.1 - b.1)
}
fn ca(a: C, b: C) -> C {
    (a.0 + b.0, a.1 + b.1)
}
fn det_complex(n: usize, a: &[C]) -> C {
    match n {
        1 => a[0],
        2 => cs(cm(a[0], a[3]), cm(a[1], a[2])),
        _ => {
            let t0 = cm(a[0], cs(cm(a[4], a[8]), cm(a[5], a[7])));
            let t1 = cm(a[1], cs(cm(a[3], a[8]), cm(a[5], a[6])));
            let t2 = cm(a[2], cs(cm(a[3], a[7]), cm(a[4], a[6])));
            ca(cs(t0, t1), t2)
        }
    }
}

fn rhs_set(n: usize) -> Vec<Vec<f64>> {
    let mut v = vec![];
    for i in 0..n {
        let mut e = vec![0.0; n];
        e[i] = 1.0;
        v.push(e);
    }
    v.push(vec![1.0; n]);
    v.push((1..=n).map(|k| k as f64).collect());
    v
}


/// real case: `a` row-major. `exact_det`: Some(det) for integer matrices.
fn check_real(key: &str, n: usize, a: &[f64], exact_det: Option<i64>, desc: Value) -> CaseOut {
    let mut out = CaseOut::default();
    macro_rules! viol {
        ($c:expr, $m:expr) => {
            out.violations.push(Violation::new(key, $c, $m, desc.clone()).with("field", "real"))
        };
    }
    let orig = Matrix::from_vec(n, n, a.to_vec());
    let mut lu = orig.clone();
    let mut ip = vec![usize::MAX; n];
    let res = match guarded(|| lu_decomp(&mut lu, &mut ip)) {
        Ok(r) => r,
        Err(p) => {
            viol!("panic", format!("lu_decomp panicked: {}", p));
            return out;
        }
    };
    out.events += 1;
    let amax = a.iter().fold(0.0f64, |m, v| m.max(v.abs()));
    let anorm = (0..n).map(|i| (0..n).map(|j| a[i * n + j].abs()).sum::<f64>()).fold(0.0, f64::max);
    match res {
        Err(e) => {
            let es = format!("{:?}", e);
            if !es.contains("SingularMatrix") {
                viol!("wrong-error", format!("square matrix rejected with {}", es));
            }
            if let Some(d) = exact_det {
                if d != 0 {
                    viol!("nonsingular-rejected", format!("nonsingular matrix (det={}) rejected as singular", d));
                } else {
                    out.tag("singular-rejected");
                }
            } else {
                viol!("nonsingular-rejected", "structured nonsingular matrix rejected as singular".to_string());
            }
            let mut h = Fp::default();
            h.fs(a);
            out.fp = Some(h.as_u128());
        }
        Ok(()) => {
            // pivots recorded, within range and at or below the diagonal position
            for k in 0..n.saturating_sub(1) {
                if ip[k] >= n || ip[k] < k {
                    viol!("pivot-index", format!("pivot index ip[{}]={} out of range", k, ip[k]));
                    return out;
                }
            }
            let exact_run = (0..n.saturating_sub(1)).all(|k| is_pow2(lu[(k, k)]));
            // a pivot that is exactly zero after the column search means the whole column was zero at that stage:
            // that is singular in the arithmetic actually carried out, whatever happened before
            if let Some(k) = (0..n).find(|&k| lu[(k, k)] == 0.0) {
                viol!("singular-accepted", format!("factorisation accepted although pivot {} of U is exactly zero", k));
                return out;
            }
            if let Some(d) = exact_det {
                if d == 0 {
                    if exact_run {
                        viol!("singular-accepted", "exactly singular matrix accepted although the elimination is exact (all pivots are powers of two)".to_string());
                    } else {
                        out.tag("singular-accepted-inexact-arithmetic");
                    }
                    return out;
                }
            }
            out.tag("factorised");
            // multipliers (stored negated below the diagonal) at most 1 in magnitude
            let mut umax: f64 = 0.0;
            for i in 0..n {
                for j in 0..n {
                    let v = lu[(i, j)];
                    if i > j {
                        if !(v.abs() <= 1.0) {
                            viol!("multiplier", format!("multiplier ({},{}) has magnitude {:e} > 1", i, j, v.abs()));
                        }
                    } else {
                        umax = umax.max(v.abs());
                    }
                }
            }
            let rho = (umax / amax).max(1.0);
            if rho > (1u64 << (n - 1)) as f64 * (1.0 + 8.0 * EPS) {
                viol!("growth", format!("growth factor {:e} exceeds 2^(n-1)", rho));
            }
            let lu_before = lu.clone();
            let ip_before = ip.clone();
            let mut h = Fp::default();
            h.fs(a);
            for b in rhs_set(n) {
                let mut x = b.clone();
                if let Err(p) = guarded(|| lin_solve(&lu, &mut x, &ip)) {
                    viol!("panic", format!("lin_solve panicked: {}", p));
                    return out;
                }
                out.events += 1;
                if lu != lu_before || ip != ip_before {
                    viol!("solve-modified-input", "lin_solve modified the factorised matrix or the pivots".to_string());
                }
                let xn = x.iter().fold(0.0f64, |m, v| m.max(v.abs()));
                if !xn.is_finite() {
                    viol!("residual", "non-finite solution for a nonsingular matrix".to_string());
                    continue;
                }
                let mut rmax: f64 = 0.0;
                for i in 0..n {
                    let mut s = DD::from(-b[i]);
                    for j in 0..n {
                        s = s.add(DD::from(a[i * n + j]).mulf(x[j]));
                    }
                    rmax = rmax.max(s.val().abs());
                }
                let bound = 8.0 * n as f64 * EPS * rho * anorm * xn;
                if rmax > bound {
                    viol!("residual", format!("residual {:e} exceeds 8 n eps rho |A||x| = {:e} (rho={:.2})", rmax, bound, rho));
                }
                out.validated += 1;
                h.fs(&x);
            }
            out.fp = Some(h.as_u128());
        }
    }
    out
}

fn check_complex(key: &str, n: usize, ar: &[f64], ai: &[f64], exact_det: Option<C>, desc: Value) -> CaseOut {
    let mut out = CaseOut::default();
    macro_rules! viol {
        ($c:expr, $m:expr) => {
            out.violations.push(Violation::new(key, $c, $m, desc.clone()).with("field", "complex"))
        };
    }
    let (or, oi) = (Matrix::from_vec(n, n, ar.to_vec()), Matrix::from_vec(n, n, ai.to_vec()));
    let (mut lr, mut li) = (or.clone(), oi.clone());
    let mut ip = vec![usize::MAX; n];
    let res = match guarded(|| lu_decomp_complex(&mut lr, &mut li, &mut ip)) {
        Ok(r) => r,
        Err(p) => {
            viol!("panic", format!("lu_decomp_complex panicked: {}", p));
            return out;
        }
    };
    out.events += 1;
    let amax = (0..n * n).map(|k| ar[k].abs().max(ai[k].abs())).fold(0.0, f64::max);
    let anorm = (0..n).map(|i| (0..n).map(|j| ar[i * n + j].hypot(ai[i * n + j])).sum::<f64>()).fold(0.0, f64::max);
    match res {
        Err(e) => {
            let es = format!("{:?}", e);
            if !es.contains("SingularMatrix") {
                viol!("wrong-error", format!("square matrix rejected with {}", es));
            }
            match exact_det {
                Some(d) if d != (0, 0) => viol!("nonsingular-rejected", format!("nonsingular matrix (det={:?}) rejected as singular", d)),
                Some(_) => out.tag("singular-rejected"),
                None => viol!("nonsingular-rejected", "structured nonsingular matrix rejected as singular".to_string()),
            }
            let mut h = Fp::default();
            h.fs(ar);
            h.fs(ai);
            out.fp = Some(h.as_u128());
        }
        Ok(()) => {
            for k in 0..n.saturating_sub(1) {
                if ip[k] >= n || ip[k] < k {
                    viol!("pivot-index", format!("pivot index ip[{}]={} out of range", k, ip[k]));
                    return out;
                }
            }
            let exact_run = (0..n.saturating_sub(1)).all(|k| is_pow2(lr[(k, k)] * lr[(k, k)] + li[(k, k)] * li[(k, k)]));
            if let Some(k) = (0..n).find(|&k| lr[(k, k)] == 0.0 && li[(k, k)] == 0.0) {
                viol!("singular-accepted", format!("complex factorisation accepted although pivot {} of U is exactly zero", k));
                return out;
            }
            if let Some(d) = exact_det {
                if d == (0, 0) {
                    if exact_run {
                        viol!("singular-accepted", "exactly singular complex matrix accepted although the elimination is exact".to_string());
                    } else {
                        out.tag("singular-accepted-inexact-arithmetic");
                    }
                    return out;
                }
            }
            out.tag("factorised");
            let mut umax: f64 = 0.0;
            for i in 0..n {
                for j in 0..n {
                    let m = lr[(i, j)].hypot(li[(i, j)]);
                    if i > j {
                        // pivoting on |re|+|im| bounds the modulus of a multiplier by sqrt(2)
                        if !(m <= std::f64::consts::SQRT_2 * (1.0 + 4.0 * EPS)) {
                            viol!("multiplier", format!("multiplier ({},{}) has modulus {:e} > sqrt(2)", i, j, m));
                        }
                    } else {
                        umax = umax.max(lr[(i, j)].abs().max(li[(i, j)].abs()));
                    }
                }
            }
            let rho = (umax / amax).max(1.0);
            let (lr0, li0, ip0) = (lr.clone(), li.clone(), ip.clone());
            let mut h = Fp::default();
            h.fs(ar);
            h.fs(ai);
            let rs = rhs_set(n);
            for (bi_idx, b) in rs.iter().enumerate() {
                // complex right-hand side: b + i * (another member of the set)
                let bim = rs[(bi_idx + 1) % rs.len()].clone();
                let (mut xr, mut xi) = (b.clone(), bim.clone());
                if let Err(p) = guarded(|| lin_solve_complex(&lr, &li, &mut xr, &mut xi, &ip)) {
                    viol!("panic", format!("lin_solve_complex panicked: {}", p));
                    return out;
                }
                out.events += 1;
                if lr != lr0 || li != li0 || ip != ip0 {
                    viol!("solve-modified-input", "lin_solve_complex modified the factors or pivots".to_string());
                }
                let xn = (0..n).map(|k| xr[k].hypot(xi[k])).fold(0.0, f64::max);
                if !xn.is_finite() {
                    viol!("residual", "non-finite solution for a nonsingular matrix".to_string());
                    continue;
                }
                let mut rmax: f64 = 0.0;
                for i in 0..n {
                    let mut sr = DD::from(-b[i]);
                    let mut si = DD::from(-bim[i]);
                    for j in 0..n {
                        let (a_r, a_i) = (ar[i * n + j], ai[i * n + j]);
                        sr = sr.add(DD::from(a_r).mulf(xr[j])).sub(DD::from(a_i).mulf(xi[j]));
                        si = si.add(DD::from(a_r).mulf(xi[j])).add(DD::from(a_i).mulf(xr[j]));
                    }
                    rmax = rmax.max(sr.val().hypot(si.val()));
                }
                // complex arithmetic costs a few more roundings per operation: factor 4
                let bound = 4.0 * 8.0 * n as f64 * EPS * rho * anorm * xn;
                if rmax > bound {
                    viol!("residual", format!("residual {:e} exceeds 32 n eps rho |A||x| = {:e} (rho={:.2})", rmax, bound, rho));
                }
                out.validated += 1;
                h.fs(&xr);
                h.fs(&xi);
            }
            out.fp = Some(h.as_u128());
        }
    }
    out
}

// ---------------------------------------------------------------------------------------------
// structured families

fn perms(n: usize) -> Vec<Vec<usize>> {
    fn rec(cur: &mut Vec<usize>, used: &mut Vec<bool>, n: usize, out: &mut Vec<Vec<usize>>) {
        if cur.len() == n {
            out.push(cur.clone());
            return;
        }
        for i in 0..n {
            if !used[i] {
                used[i] = true;
                cur.push(i);
                rec(cur, used, n, out);
                cur.pop();
                used[i] = false;
            }
        }
    }
    let mut out = vec![];
    rec(&mut vec![], &mut vec![false; n], n, &mut out);
    out
}

fn structured(thorough: bool) -> Vec<(String, usize, Vec<f64>)> {
    let mut v: Vec<(String, usize, Vec<f64>)> = vec![];
    let gradings: [f64; 3] = [1.0, 1e6, 1e-6];
    // permuted graded triangular, all row permutations
    let maxn = if thorough { 6 } else { 5 };
    for n in 4..=maxn {
        for (gi, &g) in gradings.iter().enumerate() {
            for lower in [true, false] {
                let mut t = vec![0.0; n * n];
                for i in 0..n {
                    for j in 0..n {
                        if (lower && j <= i) || (!lower && j >= i) {
                            t[i * n + j] = g.powi(i as i32) / (1.0 + (i as f64 - j as f64).abs());
                        }
                    }
                }
                for (pi, p) in perms(n).iter().enumerate() {
                    let mut a = vec![0.0; n * n];
                    for i in 0..n {
                        for j in 0..n {
                            a[i * n + j] = t[p[i] * n + j];
                        }
                    }
                    v.push((format!("perm-tri n={} g={} lower={} perm={}", n, gi, lower, pi), n, a));
                }
            }
        }
    }
    for n in 4..=12 {
        for (gi, &g) in gradings.iter().enumerate() {
            let rowscale = |i: usize| g.powf(i as f64 / (n - 1) as f64);
            // Hilbert
            let mut a = vec![0.0; n * n];
            for i in 0..n {
                for j in 0..n {
                    a[i * n + j] = rowscale(i) / (i + j + 1) as f64;
                }
            }
            v.push((format!("hilbert n={} g={}", n, gi), n, a));
            // Vandermonde on Chebyshev nodes
            let mut a = vec![0.0; n * n];
            for i in 0..n {
                let x = ((2 * i + 1) as f64 * std::f64::consts::PI / (2 * n) as f64).cos();
                for j in 0..n {
                    a[i * n + j] = rowscale(i) * x.powi(j as i32);
                }
            }
            v.push((format!("vandermonde n={} g={}", n, gi), n, a));
            // arrows (both orientations)
            for down in [false, true] {
                let mut a = vec![0.0; n * n];
                for i in 0..n {
                    a[i * n + i] = 2.0 + i as f64 * 0.25;
                    let k = if down { n - 1 } else { 0 };
                    a[i * n + k] = if i == k { a[i * n + i] } else { 1.0 + 0.1 * i as f64 };
                    a[k * n + i] = if i == k { a[i * n + i] } else { -0.5 + 0.05 * i as f64 };
                }
                for i in 0..n {
                    for j in 0..n {
                        a[i * n + j] *= rowscale(i);
                    }
                }
                v.push((format!("arrow n={} down={} g={}", n, down, gi), n, a));
            }
            // banded (ml,mu) patterns with a weak diagonal so that pivoting is exercised
            for (ml, mu) in [(1usize, 1usize), (2, 1), (1, 2), (2, 2), (3, 0), (0, 3)] {
                let mut a = vec![0.0; n * n];
                for i in 0..n {
                    for j in 0..n {
                        let k = i as isize - j as isize;
                        if k >= -(mu as isize) && k <= ml as isize {
                            a[i * n + j] = rowscale(i) * if k == 0 { 0.3 + 0.01 * i as f64 } else { 1.0 / (1.0 + k.abs() as f64) + 0.07 * j as f64 };
                        }
                    }
                }
                v.push((format!("banded n={} ml={} mu={} g={}", n, ml, mu, gi), n, a));
            }
        }
    }
    v
}

fn mismatch_checks(rep: &mut Report) {
    for n in 1..=4usize {
        for m in 1..=4usize {
            for iplen in 0..=5usize {
                let mut a = Matrix::zeros(n, m);
                for i in 0..n {
                    for j in 0..m {
                        a[(i, j)] = 1.0 + (i * m + j) as f64 + if i == j { 3.0 } else { 0.0 };
                    }
                }
                let mut ip = vec![0usize; iplen];
                let res = guarded(|| lu_decomp(&mut a, &mut ip));
                rep.evaluations += 1;
                rep.transitions += 1;
                let expect = if n != m {
                    "NonSquareMatrix"
                } else if iplen != n {
                    "PivotSizeMismatch"
                } else {
                    "ok"
                };
                let got = match &res {
                    Ok(Ok(())) => "ok".to_string(),
                    Ok(Err(e)) => format!("{:?}", e),
                    Err(p) => format!("panic {}", p),
                };
                if (expect == "ok" && got != "ok" && !got.contains("Singular")) || (expect != "ok" && !got.contains(expect)) {
                    rep.violations.push(Violation::new(
                        format!("mismatch:{}:{}:{}", n, m, iplen),
                        "mismatch",
                        format!("lu_decomp on {}x{} with pivot slice of length {} returned {}, expected {}", n, m, iplen, got, expect),
                        json!({"n": n, "m": m, "ip_len": iplen}),
                    ));
                }
                // complex: imaginary part of a different shape as well
                for (n2, m2) in (1..=4usize).flat_map(|a| (1..=4usize).map(move |b| (a, b))) {
                    let mut ar = Matrix::zeros(n, m);
                    let mut ai = Matrix::zeros(n2, m2);
                    for i in 0..n.min(m) {
                        ar[(i, i)] = 1.0;
                    }
                    let _ = &mut ai;
                    let mut ip = vec![0usize; iplen];
                    let res = guarded(|| lu_decomp_complex(&mut ar, &mut ai, &mut ip));
                    rep.evaluations += 1;
                    rep.transitions += 1;
                    let square_all = n == m && n2 == n && m2 == n;
                    let expect = if !square_all {
                        "NonSquareMatrix"
                    } else if iplen != n {
                        "PivotSizeMismatch"
                    } else {
                        "ok"
                    };
                    let got = match &res {
                        Ok(Ok(())) => "ok".to_string(),
                        Ok(Err(e)) => format!("{:?}", e),
                        Err(p) => format!("panic {}", p),
                    };
                    if (expect == "ok" && got != "ok") || (expect != "ok" && !got.contains(expect)) {
                        rep.violations.push(Violation::new(
                            format!("mismatchc:{}:{}:{}:{}:{}", n, m, n2, m2, iplen),
                            "mismatch",
                            format!("lu_decomp_complex on re {}x{}, im {}x{}, pivots {} returned {}, expected {}", n, m, n2, m2, iplen, got, expect),
                            json!({"n": n, "m": m, "n2": n2, "m2": m2, "ip_len": iplen}),
                        ));
                    }
                }
            }
        }
    }
}

pub fn run(replay: Option<Value>) -> i32 {
    let mut rep = Report::new("C16", "model_checking");
    let thorough = is_thorough();
    let real_alpha3: Vec<i64> = if thorough { vec![0, 1, -1, 2, -2] } else { vec![0, 1, -1] };
    let real_alpha12: Vec<i64> = vec![0, 1, -1, 2, -2, 3];
    let cplx_alpha: Vec<C> = if thorough { vec![(0, 0), (1, 0), (-1, 0), (0, 1), (1, 1)] } else { vec![(0, 0), (1, 0), (-1, 0), (0, 1)] };
    let cplx_alpha12: Vec<C> = vec![(0, 0), (1, 0), (-1, 0), (0, 1), (1, 1), (2, -1)];

    let only: Option<String> = replay.as_ref().and_then(|c| c["key"].as_str().map(|s| s.to_string()));

    // enumerations as (key generator) closures over an index
    let mut groups: Vec<(String, usize, Box<dyn Fn(usize) -> CaseOut + Sync>)> = vec![];
    for (n, alpha) in [(1usize, real_alpha12.clone()), (2, real_alpha12.clone()), (3, real_alpha3.clone())] {
        let k = alpha.len();
        let total = k.pow((n * n) as u32);
        let only = only.clone();
        groups.push((
            format!("real n={} alphabet={:?}", n, alpha),
            total,
            Box::new(move |idx| {
                let key = format!("real:{}:{}:{}", n, k, idx);
                if let Some(o) = &only {
                    if *o != key {
                        return CaseOut::default();
                    }
                }
                let digits = crate::util::decode(idx, &vec![k; n * n]);
                let ai: Vec<i64> = digits.iter().map(|d| alpha[*d]).collect();
                let a: Vec<f64> = ai.iter().map(|v| *v as f64).collect();
                let desc = json!({"key": key, "n": n, "matrix": a});
                let mut o = check_real(&key, n, &a, Some(det_real(n, &ai)), desc.clone());
                o.sample = Some(desc);
                o
            }),
        ));
    }
    // the same alphabets scaled by a power of two (exactly the same elimination, bit for bit up to the exponent): no
    // absolute threshold and no squared magnitude may decide a pivot
    const SCALES: [i32; 3] = [-40, -600, 600];
    for (n, alpha) in [(1usize, real_alpha12.clone()), (2, real_alpha12.clone()), (3, vec![0, 1, -1])] {
        let k = alpha.len();
        let per = k.pow((n * n) as u32);
        let only = only.clone();
        groups.push((
            format!("real n={} alphabet={:?} scaled by 2^{:?}", n, alpha, SCALES),
            per * SCALES.len(),
            Box::new(move |idx| {
                let (si, mi) = (idx / per, idx % per);
                let key = format!("realscaled:{}:{}:{}:{}", n, k, SCALES[si], mi);
                if let Some(o) = &only {
                    if *o != key {
                        return CaseOut::default();
                    }
                }
                let digits = crate::util::decode(mi, &vec![k; n * n]);
                let ai: Vec<i64> = digits.iter().map(|d| alpha[*d]).collect();
                let f = 2f64.powi(SCALES[si]);
                let a: Vec<f64> = ai.iter().map(|v| *v as f64 * f).collect();
                let desc = json!({"key": key, "n": n, "matrix_before_scaling": ai, "scale": format!("2^{}", SCALES[si])});
                let mut o = check_real(&key, n, &a, Some(det_real(n, &ai)), desc.clone());
                for v in o.violations.iter_mut() {
                    v.sig.insert("scale".into(), format!("2^{}", SCALES[si]));
                }
                o.sample = Some(desc);
                o
            }),
        ));
    }
    // the real alphabets with graded columns (first column times 2^-520, last column times 2^520, and the reverse): the
    // unknowns are measured in very different units; the elimination is the same one, exactly, column by column
    for (n, alpha) in [(2usize, real_alpha12.clone()), (3, vec![0, 1, -1])] {
        let k = alpha.len();
        let per = k.pow((n * n) as u32);
        let only = only.clone();
        groups.push((
            format!("real n={} alphabet={:?}, columns graded by 2^-520 .. 2^520 and the reverse", n, alpha),
            per * 2,
            Box::new(move |idx| {
                let (gi, mi) = (idx / per, idx % per);
                let key = format!("realgraded:{}:{}:{}:{}", n, k, gi, mi);
                if let Some(o) = &only {
                    if *o != key {
                        return CaseOut::default();
                    }
                }
                let digits = crate::util::decode(mi, &vec![k; n * n]);
                let ai: Vec<i64> = digits.iter().map(|d| alpha[*d]).collect();
                let g = if gi == 0 { 1 } else { -1 };
                let colf: Vec<f64> = (0..n).map(|j| 2f64.powi(g * (1040 * j as i32 / (n as i32 - 1) - 520))).collect();
                let a: Vec<f64> = ai.iter().enumerate().map(|(q, v)| *v as f64 * colf[q % n]).collect();
                let desc = json!({"key": key, "n": n, "matrix_before_scaling": ai, "column_factors": colf.iter().map(|f| format!("2^{}", f.log2())).collect::<Vec<_>>()});
                let mut o = check_real(&key, n, &a, Some(det_real(n, &ai)), desc.clone());
                for v in o.violations.iter_mut() {
                    v.sig.insert("scale".into(), "graded columns".into());
                }
                o.sample = Some(desc);
                o
            }),
        ));
    }
    for (n, alpha) in [(1usize, cplx_alpha12.clone()), (2, cplx_alpha12.clone()), (3, vec![(0, 0), (1, 0), (0, 1)])] {
        let k = alpha.len();
        let per = k.pow((n * n) as u32);
        let only = only.clone();
        groups.push((
            format!("complex n={} alphabet={:?} scaled by 2^{:?}", n, alpha, SCALES),
            per * SCALES.len(),
            Box::new(move |idx| {
                let (si, mi) = (idx / per, idx % per);
                let key = format!("complexscaled:{}:{}:{}:{}", n, k, SCALES[si], mi);
                if let Some(o) = &only {
                    if *o != key {
                        return CaseOut::default();
                    }
                }
                let digits = crate::util::decode(mi, &vec![k; n * n]);
                let c: Vec<C> = digits.iter().map(|d| alpha[*d]).collect();
                let f = 2f64.powi(SCALES[si]);
                let ar: Vec<f64> = c.iter().map(|v| v.0 as f64 * f).collect();
                let ai: Vec<f64> = c.iter().map(|v| v.1 as f64 * f).collect();
                let desc = json!({"key": key, "n": n, "scale": format!("2^{}", SCALES[si])});
                let mut o = check_complex(&key, n, &ar, &ai, Some(det_complex(n, &c)), desc.clone());
                for v in o.violations.iter_mut() {
                    v.sig.insert("scale".into(), format!("2^{}", SCALES[si]));
                }
                o.sample = Some(desc);
                o
            }),
        ));
    }
    for (n, alpha) in [(1usize, cplx_alpha12.clone()), (2, cplx_alpha12.clone()), (3, cplx_alpha.clone())] {
        let k = alpha.len();
        let total = k.pow((n * n) as u32);
        let only = only.clone();
        groups.push((
            format!("complex n={} alphabet={:?}", n, alpha),
            total,
            Box::new(move |idx| {
                let key = format!("complex:{}:{}:{}", n, k, idx);
                if let Some(o) = &only {
                    if *o != key {
                        return CaseOut::default();
                    }
                }
                let digits = crate::util::decode(idx, &vec![k; n * n]);
                let c: Vec<C> = digits.iter().map(|d| alpha[*d]).collect();
                let ar: Vec<f64> = c.iter().map(|v| v.0 as f64).collect();
                let ai: Vec<f64> = c.iter().map(|v| v.1 as f64).collect();
                let desc = json!({"key": key, "n": n, "re": ar, "im": ai});
                let mut o = check_complex(&key, n, &ar, &ai, Some(det_complex(n, &c)), desc.clone());
                o.sample = Some(desc);
                o
            }),
        ));
    }
    let st = std::sync::Arc::new(structured(thorough));
    {
        let st2 = st.clone();
        let only_c = only.clone();
        let only = only.clone();
        groups.push((
            "structured real n=4..12".into(),
            st.len(),
            Box::new(move |idx| {
                let (name, n, a) = &st2[idx];
                let key = format!("structured:{}", name);
                if let Some(o) = &only {
                    if *o != key {
                        return CaseOut::default();
                    }
                }
                let desc = json!({"key": key, "n": n, "family": name});
                let mut o = check_real(&key, *n, a, None, desc.clone());
                o.sample = Some(desc);
                o
            }),
        ));
        let st3 = st.clone();
        let only = only_c.clone();
        groups.push((
            "structured complex n=4..12 (imaginary part = transposed real part scaled by 0.5)".into(),
            st.len(),
            Box::new(move |idx| {
                let (name, n, a) = &st3[idx];
                let key = format!("structuredc:{}", name);
                if let Some(o) = &only {
                    if *o != key {
                        return CaseOut::default();
                    }
                }
                let n = *n;
                let mut ai = vec![0.0; n * n];
                for i in 0..n {
                    for j in 0..n {
                        // keep the row grading: scale the transposed pattern by the row's own diagonal ratio
                        let s = if a[j * n + j] != 0.0 { a[i * n + i] / a[j * n + j] } else { 1.0 };
                        ai[i * n + j] = 0.5 * a[j * n + i] * if s.is_finite() { s } else { 1.0 };
                    }
                }
                let desc = json!({"key": key, "n": n, "family": name});
                let mut o = check_complex(&key, n, a, &ai, None, desc.clone());
                // structured complex companions are not guaranteed nonsingular: a rejection is not judged
                o.violations.retain(|v| v.sig.get("check").map(|c| c != "nonsingular-rejected").unwrap_or(true));
                o.sample = Some(desc);
                o
            }),
        ));
    }

    // two factorisations in a row on one thread: every ordered pair (A, B) over a small alphabet of 2x2 and 3x3
    // integer matrices (singular ones included).  Real: factorise A (accepted or rejected), then factorise and solve
    // B.  Complex (A + iA^T, B + iB^T): factorise A, factorise B, then solve with A's factors, which are still alive.
    if only.as_ref().map(|o| o.starts_with("pairseq:")).unwrap_or(true) {
        let alpha: Vec<(usize, Vec<i64>)> = vec![
            (2, vec![0, 1, 0, 1]),
            (2, vec![2, 1, 1, 3]),
            (2, vec![0, 1, 1, 0]),
            (2, vec![1, 2, 3, 4]),
            (2, vec![1, 1, 1, 1]),
            (3, vec![0, 1, 2, 0, 3, 1, 0, 0, 2]),
            (3, vec![2, 1, 0, 1, 3, 1, 0, 1, 4]),
            (3, vec![0, 2, 1, 1, 0, 3, 4, 1, 0]),
            (3, vec![1, 2, 3, 4, 5, 6, 7, 8, 10]),
        ];
        for (ia, (na, a)) in alpha.iter().enumerate() {
            for (ib, (nb, b)) in alpha.iter().enumerate() {
                let key = format!("pairseq:{}.{}", ia, ib);
                if only.as_ref().map(|o| *o != key).unwrap_or(false) {
                    continue;
                }
                rep.evaluations += 1;
                let verdict = guarded(|| -> Option<String> {
                    let (na, nb) = (*na, *nb);
                    let af: Vec<f64> = a.iter().map(|v| *v as f64).collect();
                    let bf: Vec<f64> = b.iter().map(|v| *v as f64).collect();
                    // real
                    let mut ma = Matrix::from_vec(na, na, af.clone());
                    let mut ipa = vec![0usize; na];
                    let _ = lu_decomp(&mut ma, &mut ipa);
                    let mut mb = Matrix::from_vec(nb, nb, bf.clone());
                    let mut ipb = vec![0usize; nb];
                    let rb = lu_decomp(&mut mb, &mut ipb);
                    let xs: Vec<f64> = (0..nb).map(|i| 1.0 + i as f64).collect();
                    let rhs: Vec<f64> = (0..nb).map(|i| (0..nb).map(|j| bf[i * nb + j] * xs[j]).sum()).collect();
                    match (rb.is_ok(), det_real(nb, b) != 0) {
                        (true, true) => {
                            let mut x = rhs.clone();
                            lin_solve(&mb, &mut x, &ipb);
                            let e = x.iter().zip(&xs).fold(0.0f64, |m, (u, v)| m.max((u - v).abs()));
                            if !(e <= 1e-12) {
                                return Some(format!("real: after factorising {:?}, the solve with {:?} gives {:?} instead of {:?}", a, b, x, xs));
                            }
                        }
                        (false, true) => return Some(format!("real: after factorising {:?}, the nonsingular {:?} is rejected", a, b)),
                        (true, false) => return Some(format!("real: after factorising {:?}, the singular {:?} is accepted", a, b)),
                        _ => {}
                    }
                    // complex: M + i M^T
                    let tr = |m: &Vec<f64>, n: usize| -> Vec<f64> { (0..n * n).map(|k| m[(k % n) * n + k / n]).collect() };
                    let (mut ar, mut ai) = (Matrix::from_vec(na, na, af.clone()), Matrix::from_vec(na, na, tr(&af, na)));
                    let mut ipa = vec![0usize; na];
                    let ra = lu_decomp_complex(&mut ar, &mut ai, &mut ipa);
                    let (mut br, mut bi) = (Matrix::from_vec(nb, nb, bf.clone()), Matrix::from_vec(nb, nb, tr(&bf, nb)));
                    let mut ipb = vec![0usize; nb];
                    let _ = lu_decomp_complex(&mut br, &mut bi, &mut ipb);
                    if ra.is_ok() {
                        // solve (A + i A^T) z = (A + i A^T)(x + 0 i) with A's factors
                        let xs: Vec<f64> = (0..na).map(|i| 1.0 + i as f64).collect();
                        let at = tr(&af, na);
                        let mut zr: Vec<f64> = (0..na).map(|i| (0..na).map(|j| af[i * na + j] * xs[j]).sum()).collect();
                        let mut zi: Vec<f64> = (0..na).map(|i| (0..na).map(|j| at[i * na + j] * xs[j]).sum()).collect();
                        lin_solve_complex(&ar, &ai, &mut zr, &mut zi, &ipa);
                        let e = zr.iter().zip(&xs).fold(0.0f64, |m, (u, v)| m.max((u - v).abs())).max(zi.iter().fold(0.0f64, |m, v| m.max(v.abs())));
                        if !(e <= 1e-11) {
                            return Some(format!("complex: the factors of {:?} + i(..)^T, used after {:?} was factorised as well, give ({:?}, {:?}) instead of ({:?}, 0)", a, b, zr, zi, xs));
                        }
                    }
                    None
                });
                rep.validated += 1;
                *rep.tags.entry("factorisation-pairs".into()).or_insert(0) += 1;
                let msg = match verdict {
                    Ok(None) => continue,
                    Ok(Some(m)) => m,
                    Err(p) => format!("panicked: {}", p),
                };
                rep.violations.push(Violation::new(&key, "pair-sequence", msg, json!({"key": key})).with("field", "both"));
            }
        }
    }
    let mut lattice = vec![];
    for (name, total, f) in groups {
        let outs = par_map(total, |i| f(i));
        lattice.push(json!({"group": name, "cases": total}));
        rep.absorb(outs);
    }
    if only.is_none() {
        mismatch_checks(&mut rep);
        rep.require("factorised", 1000);
        rep.require("singular-rejected", 100);
    } else {
        if only.as_deref().map(|k| k.starts_with("mismatch")).unwrap_or(false) {
            mismatch_checks(&mut rep);
            let k = only.clone().unwrap();
            rep.violations.retain(|v| v.key == k);
        }
        let bad = rep.violations.len();
        println!("replay: {}", if bad == 0 { "property holds on this case".to_string() } else { format!("VIOLATED: {}", rep.violations[0].msg) });
        return if bad == 0 { 0 } else { 1 };
    }
    rep.dims = Value::Array(lattice);
    rep.rule = "every matrix over the stated small alphabets for n<=3 (real and complex) and every member of the enumerated structured families for n=4..12 is factorised and solved for the right-hand sides e_i, ones, (1..n); a case is non-trivial when lu_decomp ran (distinct = distinct (matrix, solutions) fingerprints); states = distinct cases, transitions = lu_decomp/lin_solve calls, traces_validated = residuals checked in double-double".into();
    rep.assumptions.push("backward-stability constant c = 8*rho (rho = growth factor read off the factors, asserted <= 2^(n-1)); complex: 32*rho and multiplier modulus <= sqrt(2) because the port pivots on |re|+|im|".into());
    rep.assumptions.push("an exactly singular matrix must be rejected only when the elimination is exact (all pivots are powers of two); otherwise acceptance is counted, not judged".into());
    rep.finish()
}
