//! C19 — the SolOut callback protocol of the low-level solvers.
//! Deviation-bounded exploration of callback histories: the default answer is Continue, a
//! deviation is Interrupt / ModifiedSolution (state untouched) / ModifiedSolution (state doubled)
//! at any callback index; all histories with at most d deviations are run on the real solvers.

use crate::env::Ans;
use crate::problems::{warp, base, reflect, Base, Prob};
use crate::report::{is_thorough, CaseOut, Report, Violation};
use crate::run::{mname, run_lowlevel, Cfg, LowRun, Tol, M6};
use crate::util::{par_map, time_slack};
use ivp::prelude::*;
use serde_json::{json, Value};
use std::sync::Arc;

fn lin2() -> Prob {
    Prob {
        name: "linear homogeneous 2x2 (positive solution)".into(),
        n: 2,
        f: Arc::new(|_t, y, d| {
            d[0] = -y[0] + 0.5 * y[1];
            d[1] = -2.0 * y[1];
        }),
        jac: Some(Arc::new(|_t, _y| vec![-1.0, 0.5, 0.0, -2.0])),
        flow: None,
        y0: vec![1.0, 1.0],
        linear_homogeneous: true,
    }
}

struct Scene {
    prob: Prob,
    cfg: Cfg,
    exact_doubling: bool,
}

fn scenes(m: Method, backward: bool) -> Vec<Scene> {
    let mut v = vec![];
    let mk = |p0: Prob, span: f64, rtol: f64, atol: f64, exact: bool| {
        let p = if backward { reflect(&p0) } else { p0 };
        let xend = if backward { -span } else { span };
        let mut c = Cfg::new(m, 0.0, xend, &p.y0);
        c.rtol = Tol::S(rtol);
        c.atol = Tol::S(atol);
        c.user_jac = true;
        c.keep_log = true;
        if m == Method::RK4 {
            // does not divide the interval: the last step is shortened to land on xend
            c.first_step = Some(xend / 7.3);
        }
        // horizon: the longest history of the unchanged tree has 63 callbacks; a run that does not come to an
        // end (e.g. one stepping away from xend) is cut off here and reported through its status
        c.max_steps = Some(3000);
        c.budget = 400_000;
        Scene { prob: p, cfg: c, exact_doubling: exact }
    };
    v.push(mk(lin2(), 1.0, 1e-5, 0.0, true));
    v.push(mk(base(Base::Logistic(2.0)), 1.5, 1e-5, 1e-8, false));
    v.push(mk(base(Base::Harmonic(2.0)), 1.5, 1e-5, 1e-8, false));
    // the same oscillator in units of 1e-14 (span 1.5e-14): nothing in the protocol may depend on an
    // absolute time scale
    v.push(mk(crate::problems::timescale(&base(Base::Harmonic(2.0)), 1e14), 1.5e-14, 1e-5, 1e-8, false));
    // the stiffness test on every accepted step (builder option stiff_test = 1; the default runs it on every
    // thousandth): whatever it computes must leave the step's results and interpolant alone
    if m == Method::DOPRI5 || m == Method::DOP853 {
        let mut sc = mk(base(Base::Harmonic(2.0)), 1.5, 1e-5, 1e-8, false);
        sc.cfg.stiff_test = Some(1);
        v.push(sc);
    }
    // a right-hand side that depends on t (the dense-output stages of DOP853 are evaluated at their own abscissae)
    v.push(mk(warp(&base(Base::Logistic(2.0)), crate::problems::Warp::Sin), 1.5, 1e-5, 1e-8, false));
    // steps pinned at an eighth of the interval (first_step = max_step = span/8, an easy problem): x + h lands on
    // xend exactly, with no slack for a look-ahead factor to absorb
    if m != Method::RK4 {
        let mut sc = mk(lin2(), 1.0, 1e-3, 1e-6, false);
        sc.cfg.first_step = Some(sc.cfg.xend / 8.0);
        sc.cfg.max_step = Some(1.0 / 8.0);
        v.push(sc);
    }
    // the PI controller's memory (builder option beta > 0; the default 0 switches it off): an answer that leaves
    // the state untouched must leave the controller untouched as well
    if m == Method::DOPRI5 || m == Method::DOP853 {
        let mut sc = mk(base(Base::Logistic(2.0)), 1.5, 1e-5, 1e-8, false);
        sc.cfg.beta = Some(0.08);
        v.push(sc);
    }
    // Radau with two Newton sweeps at most (builder option newton_maxiter): attempts are abandoned and retried
    // all the time, also the one that was clamped to xend
    if m == Method::RADAU {
        for span in [1.0, 1.37] {
            let mut sc = mk(base(Base::Logistic(2.0)), span, 1e-5, 1e-8, false);
            sc.cfg.newton_maxiter = Some(2);
            v.push(sc);
        }
    }
    // RK4 over [3e-13, 4e-13] in sixty-four steps (the oscillator in units of 1e-14): the step divides the interval, the
    // abscissae carry rounding errors, and the landing rule's margin of a hundredth of a step is 1.6e-17
    if m == Method::RK4 {
        let mut sc = mk(crate::problems::timescale(&base(Base::Harmonic(2.0)), 1e14), 1e-13, 1e-5, 1e-8, false);
        let sg = if backward { -1.0 } else { 1.0 };
        sc.cfg.x0 = sg * 3e-13;
        sc.cfg.xend = sg * 4e-13;
        sc.cfg.first_step = Some((sc.cfg.xend - sc.cfg.x0) / 64.0);
        v.push(sc);
    }
    // dense output switched off at the builder: the same protocol without the interpolant
    if m != Method::BDF {
        let mut sc = mk(base(Base::Harmonic(2.0)), 1.5, 1e-5, 1e-8, false);
        sc.cfg.low_dense = Some(false);
        v.push(sc);
    }
    v
}

/// bound of the midpoint clause in units of atol + rtol |y| (measured on the tree: see DESIGN 7.3)
const MID_K: f64 = 20.0;
const ALTS: [Ans; 3] = [Ans::Interrupt, Ans::Modified(1.0), Ans::Modified(2.0)];

fn one_step_method(m: Method) -> bool {
    m != Method::BDF
}
fn exact_scaling_method(m: Method) -> bool {
    matches!(m, Method::RK4 | Method::RK23 | Method::DOPRI5 | Method::DOP853)
}

struct Checked {
    out: CaseOut,
    ncallbacks: usize,
}

fn check_run(key: &str, m: Method, sc: &Scene, script: &[(usize, Ans)], base_run: Option<&LowRun>) -> Checked {
    let r = run_lowlevel(&sc.prob, &sc.cfg, script, &[], None, false);
    let mut out = CaseOut::default();
    let c = &sc.cfg;
    let dir = (c.xend - c.x0).signum();
    let desc = json!({"key": key, "method": mname(m), "problem": sc.prob.name, "x0": c.x0, "xend": c.xend, "rtol": c.rtol.json(), "atol": c.atol.json(),
        "script": script.iter().map(|(k, a)| format!("callback {} -> {:?}", k, a)).collect::<Vec<_>>(),
        "callbacks": r.recs.len(), "outcome": r.outcome_name(), "x_seen": r.recs.iter().take(8).map(|q| q.x).collect::<Vec<_>>()});
    macro_rules! viol {
        ($c:expr, $m:expr) => {
            out.violations.push(Violation::new(key, $c, $m, desc.clone()).with("method", mname(m)).with("deviations", script.len()))
        };
    }
    out.events = r.recs.len() as u64 + r.st.n_ode;
    let n = sc.prob.n;
    let ir = match r.ok() {
        Some(ir) => ir,
        None => {
            viol!("outcome", format!("solver ended with {}", r.outcome_name()));
            return Checked { out, ncallbacks: r.recs.len() };
        }
    };
    let recs = &r.recs;
    if recs.is_empty() {
        viol!("no-initial-callback", "SolOut was never called".to_string());
        return Checked { out, ncallbacks: 0 };
    }
    // 1. initial callback
    let r0 = &recs[0];
    if r0.xold.to_bits() != c.x0.to_bits() || r0.x.to_bits() != c.x0.to_bits() || r0.has_interp || r0.y.iter().zip(&c.y0).any(|(a, b)| a.to_bits() != b.to_bits()) {
        viol!("initial-callback", format!("first callback: xold={:e} x={:e} interpolant={} y={:?}", r0.xold, r0.x, r0.has_interp, r0.y));
    }
    // 2. contiguity, progress, interpolant identities
    let mut written: Vec<Vec<f64>> = vec![]; // state the solver continues from after callback j
    for (j, q) in recs.iter().enumerate() {
        let fac = script.iter().find(|(k, _)| *k == j).map(|(_, a)| if let Ans::Modified(f) = a { *f } else { 1.0 }).unwrap_or(1.0);
        written.push(q.y.iter().map(|v| v * fac).collect());
        if j == 0 {
            continue;
        }
        let p = &recs[j - 1];
        if q.xold.to_bits() != p.x.to_bits() {
            let sl = time_slack(c.x0, c.xend, q.xold, recs.len());
            if (q.xold - p.x).abs() > sl {
                viol!("contiguity", format!("callback {}: xold={:e} but the previous x was {:e}", j, q.xold, p.x));
            } else {
                out.tag("xold-equal-to-rounding-only");
            }
        }
        if !((q.x - q.xold) * dir > 0.0) {
            viol!("progress", format!("callback {}: no progress toward xend (xold={:e}, x={:e})", j, q.xold, q.x));
        }
        if !q.has_interp {
            if c.low_dense != Some(false) {
                viol!("interpolant", format!("callback {} has no interpolant (builder default is dense output on)", j));
            }
            continue;
        }
        let sc_y = 1.0 + q.y.iter().chain(written[j - 1].iter()).fold(0.0f64, |a, b| a.max(b.abs()));
        let tol = 64.0 * f64::EPSILON * sc_y;
        let dl = q.at_xold.iter().zip(&written[j - 1]).fold(0.0f64, |a, (u, v)| a.max((u - v).abs()));
        let dr = q.at_x.iter().zip(&q.y).fold(0.0f64, |a, (u, v)| a.max((u - v).abs()));
        if dl > tol || dr > tol || !dl.is_finite() || !dr.is_finite() {
            viol!("interpolant-endpoints", format!("callback {}: interpolant(xold) off by {:e}, interpolant(x) off by {:e} (tolerance {:e})", j, dl, dr, tol));
        }
        // the interpolant is valid inside the interval: at the midpoint it follows the exact flow from the state
        // the step started from, to within a modest multiple of the tolerance (error-controlled one-step methods; measured: at most 2)
        if one_step_method(m) && m != Method::RK4 {
            let xm = q.xold + 0.5 * (q.x - q.xold);
            if let Some(ex) = sc.prob.exact(q.xold, &written[j - 1], xm) {
                let tolv = |i: usize| c.atol.at(i) + c.rtol.at(i) * ex[i].abs().max(q.y[i].abs());
                let worst = (0..n).map(|i| (q.at_mid[i] - ex[i]).abs() / tolv(i).max(1e-300)).fold(0.0f64, f64::max);
                if std::env::var("VERIF_DEBUG").is_ok() && worst > 1.0 {
                    println!("DBG c19 mid {} {} cb {} ratio {:.2}", mname(m), sc.prob.name, j, worst);
                }
                if !(worst <= MID_K) {
                    viol!("interpolant-midpoint", format!("callback {}: interpolant(midpoint) = {:?}, the exact flow from the step's start gives {:?} ({}x the tolerance)", j, q.at_mid, ex, worst));
                }
                out.validated += 1;
            }
        }
        let (lo, hi) = (q.xold.min(q.x), q.xold.max(q.x));
        let sl = time_slack(c.x0, c.xend, q.x, recs.len());
        if (q.bounds.0 - lo).abs() > sl || (q.bounds.1 - hi).abs() > sl {
            viol!("bounds", format!("callback {}: bounds() = {:?} but the step is [{:e},{:e}]", j, q.bounds, lo, hi));
        }
        out.validated += 3;
    }
    // 3. status / end point
    let interrupt_at = script.iter().filter(|(k, a)| *a == Ans::Interrupt && *k < recs.len()).map(|(k, _)| *k).min();
    match interrupt_at {
        Some(k) => {
            out.tag("interrupted");
            if ir.status != Status::UserInterrupt {
                viol!("interrupt-status", format!("Interrupt returned at callback {} but status is {:?}", k, ir.status));
            }
            if recs.len() != k + 1 {
                viol!("callback-after-interrupt", format!("{} callbacks after the Interrupt at callback {}", recs.len() - k - 1, k));
            }
            if r.st.calls_after_seal != 0 {
                viol!("call-after-interrupt", format!("{} interface calls (ode/jac/events) after Interrupt", r.st.calls_after_seal));
            }
        }
        None => {
            // (with at most two Newton sweeps Radau may honestly give up on a state the callback has scaled)
            let may_give_up = c.newton_maxiter.is_some() && !script.is_empty() && matches!(ir.status, Status::SingularMatrix | Status::StepSizeTooSmall);
            if ir.status != Status::Success {
                if !may_give_up {
                    viol!("status", format!("no Interrupt but status {:?}", ir.status));
                }
            } else {
                let last = recs.last().unwrap().x;
                if (last - c.xend).abs() > time_slack(c.x0, c.xend, last, recs.len()) {
                    viol!("end-point", format!("Success but the last callback was at x={:e}, xend={:e}", last, c.xend));
                }
            }
        }
    }
    // 4. ModifiedSolution: the next RHS evaluation is at (x, y as written)
    for (k, a) in script {
        if let Ans::Modified(_) = a {
            if *k >= recs.len() {
                continue;
            }
            out.tag("modified");
            let idx = recs[*k].n_ode_before;
            let call = r.st.log.iter().find(|cl| !cl.in_jac && cl.idx == idx);
            match call {
                Some(cl) => {
                    if cl.t.to_bits() != recs[*k].x.to_bits() || cl.y.iter().zip(&written[*k]).any(|(u, v)| u.to_bits() != v.to_bits()) {
                        viol!("modified-reevaluation", format!("after ModifiedSolution at callback {} the next RHS call is at t={:e}, y={:?}; expected t={:e}, y={:?}", k, cl.t, cl.y, recs[*k].x, written[*k]));
                    }
                }
                None => {
                    if interrupt_at.map(|i| i <= *k).unwrap_or(false) {
                    } else if recs.len() > k + 1 || ir.status == Status::Success && (recs[*k].x - c.xend).abs() > 1e-9 {
                        viol!("modified-reevaluation", format!("no RHS evaluation after ModifiedSolution at callback {}", k));
                    }
                }
            }
            out.validated += 1;
        }
    }
    // 5. equivariance against the all-Continue baseline
    if let Some(b) = base_run {
        let mut fac = 1.0;
        let mut exact = true; // still comparable bit for bit
        let any_scaled = script.iter().any(|(_, a)| matches!(a, Ans::Modified(f) if *f != 1.0));
        if script.iter().any(|(_, a)| matches!(a, Ans::Modified(_))) && !one_step_method(m) {
            exact = false; // BDF restarts at order 1 by design
        }
        if any_scaled && (!sc.exact_doubling || !exact_scaling_method(m)) {
            exact = false;
        }
        if exact {
            for j in 0..recs.len() {
                if j >= b.recs.len() {
                    viol!("baseline-prefix", format!("{} callbacks, baseline has only {}", recs.len(), b.recs.len()));
                    break;
                }
                let (q, bq) = (&recs[j], &b.recs[j]);
                if q.x.to_bits() != bq.x.to_bits() || q.y.iter().zip(&bq.y).any(|(u, v)| u.to_bits() != (v * fac).to_bits()) {
                    viol!("equivariance", format!("callback {}: (x,y)=({:e},{:?}) but {}x baseline is ({:e},{:?})", j, q.x, q.y, fac, bq.x, bq.y.iter().map(|v| v * fac).collect::<Vec<_>>()));
                    break;
                }
                // the interpolant of the step that led here is scaled like its end state (its interior, too)
                if j >= 1 && q.has_interp && bq.has_interp && q.at_mid.iter().zip(&bq.at_mid).any(|(u, v)| u.to_bits() != (v * fac).to_bits()) {
                    viol!("equivariance-interpolant", format!("callback {}: interpolant(midpoint) = {:?} but {}x baseline is {:?}", j, q.at_mid, fac, bq.at_mid.iter().map(|v| v * fac).collect::<Vec<_>>()));
                    break;
                }
                if let Some((_, Ans::Modified(f))) = script.iter().find(|(k, _)| *k == j) {
                    fac *= f;
                }
                out.validated += 1;
            }
            if interrupt_at.is_none() && recs.len() != b.recs.len() {
                viol!("baseline-length", format!("{} callbacks, baseline {}", recs.len(), b.recs.len()));
            }
            out.tag("bitwise-equivariance-checked");
        } else if interrupt_at.is_none() && ir.status == Status::Success && sc.exact_doubling {
            // tolerance-level: the final state is the product of the factors times the baseline
            // factors written at callbacks before the last one (the state seen by the last callback)
            let f: f64 = script.iter().filter(|(k, _)| *k + 1 < recs.len()).map(|(_, a)| if let Ans::Modified(f) = a { *f } else { 1.0 }).product();
            let (yl, bl) = (&recs.last().unwrap().y, &b.recs.last().unwrap().y);
            let scale = bl.iter().fold(0.0f64, |a, v| a.max(v.abs())) * f;
            let d = yl.iter().zip(bl).fold(0.0f64, |a, (u, v)| a.max((u - v * f).abs()));
            let nacc = recs.len() as f64;
            if d > 50.0 * nacc * (c.rtol.at(0) * scale + c.atol.at(0)) {
                viol!("equivariance-tolerance", format!("final state differs from {}x baseline by {:e} (scale {:e})", f, d, scale));
            }
            out.tag("tolerance-equivariance-checked");
            out.validated += 1;
        }
    }
    // 6. a backward run is the mirror image of the forward run of the reflected problem, callback by
    //    callback, whatever the callbacks answer (user Jacobian: bit for bit)
    if dir < 0.0 {
        let twin = reflect(&sc.prob);
        let mut ct = c.clone();
        ct.x0 = -c.x0;
        ct.xend = -c.xend;
        ct.first_step = c.first_step.map(|h| -h);
        let r2 = run_lowlevel(&twin, &ct, script, &[], None, false);
        out.events += r2.st.n_ode;
        if r2.recs.len() != recs.len() {
            viol!("mirror", format!("{} callbacks, the mirrored forward run has {}", recs.len(), r2.recs.len()));
        } else {
            for (j, (q, q2)) in recs.iter().zip(&r2.recs).enumerate() {
                if q.x.to_bits() != (-q2.x).to_bits() && !(q.x == 0.0 && q2.x == 0.0) || q.y.iter().zip(&q2.y).any(|(u, v)| u.to_bits() != v.to_bits()) {
                    viol!("mirror", format!("callback {}: (x,y)=({:e},{:?}), the mirrored forward run has ({:e},{:?})", j, q.x, q.y, q2.x, q2.y));
                    break;
                }
            }
            out.tag("mirror-checked");
        }
        out.validated += 1;
    }
    let _ = n;
    let mut h = r.st.fp;
    h.u(recs.len() as u64);
    h.s(&format!("{:?}", ir.status));
    out.fp = Some(h.as_u128());
    out.sample = Some(desc);
    Checked { out, ncallbacks: r.recs.len() }
}

fn explore(keybase: &str, m: Method, sc: &Scene, base_run: &LowRun, prefix: Vec<(usize, Ans)>, d: usize, outs: &mut Vec<CaseOut>, only: Option<&str>) {
    let key = format!("{}:{}", keybase, prefix.iter().map(|(k, a)| format!("{}{}", k, match a { Ans::Interrupt => "I", Ans::Modified(f) if *f == 1.0 => "M", Ans::Modified(_) => "D", Ans::Continue => "C", Ans::XOut(_) => "X" })).collect::<Vec<_>>().join("."));
    let run_it = only.map(|o| o == key).unwrap_or(true);
    let ck = check_run(&key, m, sc, &prefix, Some(base_run));
    let nc = ck.ncallbacks;
    let violated = !ck.out.violations.is_empty();
    if run_it {
        outs.push(ck.out);
    }
    if prefix.len() >= d {
        return;
    }
    if violated && only.is_none() {
        return; // the counterexample with the fewest deviations is the one reported: nothing is explored below it
    }
    if prefix.iter().any(|(_, a)| *a == Ans::Interrupt) {
        return; // the run has ended: no later decision point exists
    }
    let start = prefix.last().map(|(k, _)| k + 1).unwrap_or(0);
    for i in start..nc {
        for alt in ALTS {
            let mut p = prefix.clone();
            p.push((i, alt));
            explore(keybase, m, sc, base_run, p, d, outs, only);
        }
    }
}

pub fn run_check(replay: Option<Value>) -> i32 {
    let mut rep = Report::new("C19", "model_checking");
    let only = replay.as_ref().and_then(|c| c["key"].as_str().map(|s| s.to_string()));
    let d = if is_thorough() { 3 } else { 2 };
    let mut jobs = vec![];
    for (mi, m) in M6.iter().enumerate() {
        for backward in [false, true] {
            let n = scenes(*m, backward).len();
            for si in 0..n {
                jobs.push((mi, backward, si));
            }
        }
    }
    // a replay names its history: run exactly that one
    if let Some(key) = &only {
        let parts: Vec<&str> = key.split(':').collect();
        let ids: Vec<usize> = parts.get(1).map(|p| p.split('.').filter_map(|x| x.parse().ok()).collect()).unwrap_or_default();
        if parts.len() >= 2 && ids.len() == 3 && ids[0] < M6.len() && ids[2] < scenes(M6[ids[0]], ids[1] == 1).len() {
            let m = M6[ids[0]];
            let sc = scenes(m, ids[1] == 1).remove(ids[2]);
            let mut prefix: Vec<(usize, Ans)> = vec![];
            for tok in parts.get(2).unwrap_or(&"").split('.').filter(|t| !t.is_empty()) {
                let (num, letter) = tok.split_at(tok.len() - 1);
                let a = match letter {
                    "I" => Ans::Interrupt,
                    "M" => Ans::Modified(1.0),
                    "D" => Ans::Modified(2.0),
                    _ => Ans::Continue,
                };
                prefix.push((num.parse().unwrap_or(0), a));
            }
            let base_run = run_lowlevel(&sc.prob, &sc.cfg, &[], &[], None, false);
            let ck = check_run(key, m, &sc, &prefix, Some(&base_run));
            for v in &ck.out.violations {
                println!("replay: VIOLATED [{}]: {}\n{}", v.sig["check"], v.msg, serde_json::to_string_pretty(&v.case).unwrap());
            }
            if ck.out.violations.is_empty() {
                println!("replay: property holds on this case");
            }
            return if ck.out.violations.is_empty() { 0 } else { 1 };
        }
    }
    // one job = one (method, direction, problem): baseline + the whole deviation tree below it,
    // first-level branches in parallel
    let mut groups = vec![];
    for (mi, backward, si) in jobs {
        let m = M6[mi];
        let sc = scenes(m, backward).remove(si);
        let keybase = format!("c19:{}.{}.{}", mi, backward as u8, si);
        let base_run = run_lowlevel(&sc.prob, &sc.cfg, &[], &[], None, false);
        let nc = base_run.recs.len();
        groups.push(json!({"group": keybase, "method": mname(m), "backward": backward, "problem": sc.prob.name, "baseline_callbacks": nc, "deviation_bound": d}));
        if base_run.ok().is_none() {
            rep.machinery_errors.push(format!("baseline run failed for {}", keybase));
            continue;
        }
        // depth-0 case
        let mut outs0 = vec![];
        let key0 = format!("{}:", keybase);
        let ck0 = check_run(&key0, m, &sc, &[], Some(&base_run));
        let base_violated = !ck0.out.violations.is_empty();
        if only.as_deref().map(|o| o == key0).unwrap_or(true) {
            outs0.push(ck0.out);
        }
        rep.absorb(outs0);
        if base_violated && only.is_none() {
            continue; // the all-Continue history already violates the protocol: no deviation tree below it
        }
        let firsts: Vec<(usize, Ans)> = (0..nc).flat_map(|i| ALTS.iter().map(move |a| (i, *a))).collect();
        let res = par_map(firsts.len(), |j| {
            let mut outs = vec![];
            explore(&keybase, m, &sc, &base_run, vec![firsts[j]], d, &mut outs, only.as_deref());
            outs
        });
        rep.absorb(res.into_iter().flatten().collect());
    }
    if only.is_some() {
        for v in &rep.violations {
            println!("replay: VIOLATED [{}]: {}\n{}", v.sig["check"], v.msg, serde_json::to_string_pretty(&v.case).unwrap());
        }
        if rep.violations.is_empty() {
            println!("replay: property holds on this case");
        }
        return if rep.violations.is_empty() { 0 } else { 1 };
    }
    rep.dims = json!({"answer_alphabet": ["Continue (default)", "Interrupt", "ModifiedSolution (state untouched)", "ModifiedSolution (state doubled)"],
        "decision_points": "every callback index of the actual run (initial callback included)", "deviation_bound_completed": d, "groups": groups});
    for t in ["interrupted", "modified", "bitwise-equivariance-checked", "tolerance-equivariance-checked"] {
        rep.require(t, 50);
    }
    rep.rule = "deviation-bounded exploration (stateless DFS): run(prefix) replays the scripted answers and answers Continue afterwards; every later callback index is branched over the alternatives while the number of deviations stays <= d; protocol automaton on every history: initial callback, contiguity (bitwise), progress, interpolant endpoint identities, bounds, status/end point, nothing after Interrupt (environment sealed), RHS re-evaluation at the written state after ModifiedSolution, bit-identical no-op / exact doubling against the all-Continue baseline; distinct = distinct (RHS fingerprint, callbacks, status)".into();
    rep.assumptions.push("exact doubling is only demanded for explicit methods on the linear homogeneous problem with atol = 0; Radau/BDF (and BDF after any ModifiedSolution, which restarts at order 1) are compared at tolerance level".into());
    rep.finish()
}
