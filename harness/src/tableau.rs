//! Rooted trees / order conditions, and extraction of the Runge–Kutta tableau that the running
//! code actually applies, by impulse probing (the j-th RHS call is answered with the unit vector
//! e_j, so the state handed to a later call is literally a row of A and the interpolant
//! evaluated at theta is the vector of dense weights b_j(theta)).

use crate::env::Ans;
use crate::problems::Prob;
use crate::run::{run_lowlevel, Cfg, LowRun, Tol};
use ivp::prelude::*;
use std::sync::Arc;

// ---------------------------------------------------------------------------------------------
// rooted trees

#[derive(Clone, Debug)]
pub struct Tree {
    pub children: Vec<usize>,
    pub order: usize,
    pub gamma: f64,
}

pub struct Forest {
    pub trees: Vec<Tree>,
    /// index ranges by order: trees of order k are trees[start[k]..start[k+1]]
    pub start: Vec<usize>,
}

impl Forest {
    pub fn new(max_order: usize) -> Forest {
        let mut trees = vec![Tree { children: vec![], order: 1, gamma: 1.0 }];
        let mut start = vec![0, 0, 1];
        for n in 2..=max_order {
            // all multisets of existing trees with total order n-1 (non-increasing index sequences)
            let mut found: Vec<Vec<usize>> = vec![];
            fn rec(trees: &[Tree], remaining: usize, max_idx: usize, cur: &mut Vec<usize>, out: &mut Vec<Vec<usize>>) {
                if remaining == 0 {
                    out.push(cur.clone());
                    return;
                }
                for i in (0..=max_idx).rev() {
                    if trees[i].order <= remaining {
                        cur.push(i);
                        rec(trees, remaining - trees[i].order, i, cur, out);
                        cur.pop();
                    }
                }
            }
            let last = trees.len() - 1;
            rec(&trees, n - 1, last, &mut vec![], &mut found);
            found.sort();
            for ch in found {
                let gamma = n as f64 * ch.iter().map(|&c| trees[c].gamma).product::<f64>();
                trees.push(Tree { children: ch, order: n, gamma });
            }
            start.push(trees.len());
        }
        Forest { trees, start }
    }
    pub fn of_order(&self, k: usize) -> std::ops::Range<usize> {
        self.start[k]..self.start[k + 1]
    }
    pub fn up_to(&self, k: usize) -> std::ops::Range<usize> {
        0..self.start[k + 1]
    }
    pub fn describe(&self, i: usize) -> String {
        let t = &self.trees[i];
        if t.children.is_empty() {
            "•".to_string()
        } else {
            format!("[{}]", t.children.iter().map(|&c| self.describe(c)).collect::<Vec<_>>().join(""))
        }
    }
    /// elementary weights Phi_i(t) for all stages i, for every tree up to max order; also the
    /// magnitude sums used as the scale of the residual tolerance
    pub fn phis(&self, a: &[Vec<f64>]) -> Vec<Vec<f64>> {
        let s = a.len();
        let mut phi: Vec<Vec<f64>> = Vec::with_capacity(self.trees.len());
        for t in &self.trees {
            let mut v = vec![1.0; s];
            for &c in &t.children {
                let pc = &phi[c];
                for i in 0..s {
                    let mut sum = 0.0;
                    for j in 0..s {
                        if a[i][j] != 0.0 {
                            sum += a[i][j] * pc[j];
                        }
                    }
                    v[i] *= sum;
                }
            }
            phi.push(v);
        }
        phi
    }
}

/// residual of sum_i w_i Phi_i(t) - rhs, and the scale sum_i |w_i Phi_i(t)| + |rhs|
pub fn residual(w: &[f64], phi: &[f64], rhs: f64) -> (f64, f64) {
    let mut s = crate::util::DD::from(-rhs);
    let mut scale = rhs.abs();
    for (a, b) in w.iter().zip(phi.iter()) {
        s = s.add(crate::util::DD::from(*a).mulf(*b));
        scale += (a * b).abs();
    }
    (s.val(), scale)
}

// ---------------------------------------------------------------------------------------------
// extraction

pub struct Extracted {
    pub method: Method,
    /// number of stages s (= number of RHS calls whose answers enter the step / the dense output)
    pub s: usize,
    pub a: Vec<Vec<f64>>,
    pub c: Vec<f64>,
    pub b: Vec<f64>,
    /// theta nodes and dense weights b_j(theta)
    pub thetas: Vec<f64>,
    pub btheta: Vec<Vec<f64>>,
    /// raw record for evidence
    pub calls: usize,
}

fn impulse_problem(n: usize) -> Prob {
    Prob { name: format!("impulse({})", n), n, f: Arc::new(|_t, _y, d| d.iter_mut().for_each(|v| *v = 0.0)), jac: Some(Arc::new(move |_t, _y| vec![0.0; n * n])), flow: None, y0: vec![0.0; n], linear_homogeneous: true }
}

pub fn theta_nodes() -> Vec<f64> {
    (0..=8).map(|k| k as f64 / 8.0).collect()
}

/// number of impulse dimensions per method and the call index whose argument is b
fn layout(m: Method) -> (usize, usize) {
    match m {
        Method::RK4 => (5, 4),
        Method::RK23 => (4, 3),
        Method::DOPRI5 => (7, 6),
        Method::DOP853 => (16, 12),
        Method::RADAU => (4, 6),
        Method::BDF => (0, 0),
    }
}

/// Extraction from the SECOND step of a two-step run whose last step is shortened to land on
/// xend (first step h0 = 1 answered with zeros, second step of length 1/2 answered with the unit
/// impulses).  `xout`: the callback after the first step returns XOut, which must not disturb
/// the reuse of the derivative at the new point (FSAL).  Explicit methods only.
pub fn extract_second_step(m: Method, sign: f64, xout: bool) -> Result<Extracted, String> {
    let (n, bcall) = layout(m);
    if m == Method::RADAU || m == Method::BDF {
        return Err("not applicable".into());
    }
    let p = impulse_problem(n);
    let h0 = sign;
    let xend = 1.5 * sign;
    let mut c = Cfg::new(m, 0.0, xend, &p.y0);
    c.first_step = Some(h0);
    c.keep_log = true;
    c.rtol = Tol::S(0.0);
    c.atol = Tol::S(1e30);
    // call index (in the whole run) that supplies stage j of the second step
    let map = move |j: usize| -> usize {
        match m {
            Method::RK4 => 4 + j,
            Method::RK23 => 3 + j,
            Method::DOPRI5 => 6 + j,
            Method::DOP853 => {
                if j == 0 {
                    12
                } else {
                    15 + j
                }
            }
            _ => usize::MAX,
        }
    };
    let ans = move |idx: u64, _t: f64, _y: &[f64], d: &mut [f64]| {
        for v in d.iter_mut() {
            *v = 0.0;
        }
        for j in 0..n {
            if map(j) == idx as usize {
                d[j] = 1.0;
            }
        }
    };
    let thetas = theta_nodes();
    let script: Vec<(usize, Ans)> = if xout { vec![(1, Ans::XOut(10.0 * sign)), (2, Ans::Interrupt)] } else { vec![(2, Ans::Interrupt)] };
    let r: LowRun = run_lowlevel(&p, &c, &script, &thetas, Some(&ans), false);
    if r.recs.len() < 3 {
        return Err(format!("two-step impulse run failed: {} ({} callbacks)", r.outcome_name(), r.recs.len()));
    }
    let (x1, x2) = (r.recs[1].x, r.recs[2].x);
    if x1 != h0 || x2 != xend {
        return Err(format!("two-step impulse run took steps to {:e}, {:e} (expected {:e}, {:e})", x1, x2, h0, xend));
    }
    let h = x2 - x1;
    let calls: Vec<_> = r.st.log.iter().filter(|cl| !cl.in_jac).collect();
    let s = n;
    if calls.len() <= map(s - 1) {
        return Err(format!("{} RHS calls, expected more than {}", calls.len(), map(s - 1)));
    }
    let mut a = vec![vec![0.0; s]; s];
    let mut cc = vec![0.0; s];
    for j in 0..s {
        let cl = &calls[map(j)];
        for i in 0..s {
            a[j][i] = cl.y[i] / h;
        }
        cc[j] = (cl.t - x1) / h;
    }
    let b: Vec<f64> = (0..s).map(|i| r.recs[2].y[i] / h).collect();
    for i in 0..s {
        if (a[bcall][i] - b[i]).abs() > 0.0 {
            return Err(format!("second step: row {} of A differs from the accepted state in component {}", bcall, i));
        }
    }
    let bt: Vec<Vec<f64>> = r.interior[2].iter().map(|(_, v)| (0..s).map(|i| v[i] / h).collect()).collect();
    Ok(Extracted { method: m, s, a, c: cc, b, thetas, btheta: bt, calls: calls.len() })
}

pub fn extract(m: Method, sign: f64) -> Result<Extracted, String> {
    let (n, bcall) = layout(m);
    let p = impulse_problem(n);
    let h = sign;
    let mut c = Cfg::new(m, 0.0, h, &p.y0);
    c.first_step = Some(h);
    c.keep_log = true;
    c.user_jac = true; // the zero Jacobian (Radau: simplified Newton degenerates to the fixed-point map Z <- h A F(Z))
    if m == Method::RADAU {
        // a tiny Newton tolerance forces the second iteration (whose arguments are the rows of A);
        // with the constant-by-stage answers that iteration changes nothing and converges
        c.rtol = Tol::S(1e-3);
        c.atol = Tol::S(1e30);
        c.newton_tol = Some(1e-40);
    } else {
        c.rtol = Tol::S(0.0);
        c.atol = Tol::S(1e30);
    }
    let ans = move |idx: u64, _t: f64, _y: &[f64], d: &mut [f64]| {
        for v in d.iter_mut() {
            *v = 0.0;
        }
        let j = if m == Method::RADAU {
            // call 0 is f(x0,y0); afterwards the three stage calls of every Newton iteration are
            // answered by stage position, so that the iteration converges to Z = h A [e1 e2 e3]
            if idx == 0 {
                0
            } else {
                1 + ((idx as usize - 1) % 3)
            }
        } else {
            idx as usize
        };
        if j < d.len() {
            d[j] = 1.0;
        }
    };
    let thetas = theta_nodes();
    let r: LowRun = run_lowlevel(&p, &c, &[(1, Ans::Interrupt)], &thetas, Some(&ans), false);
    let ok = r.res.as_ref().map(|x| x.is_ok()).unwrap_or(false);
    if !ok || r.recs.len() < 2 {
        return Err(format!("impulse run failed: {} ({} callbacks)", r.outcome_name(), r.recs.len()));
    }
    if (r.recs[1].x - h).abs() > 0.0 {
        return Err(format!("impulse step was not accepted at full length (x={:e})", r.recs[1].x));
    }
    let calls: Vec<_> = r.st.log.iter().filter(|cl| !cl.in_jac).collect();
    if std::env::var("VERIF_DEBUG").is_ok() {
        for cl in &calls {
            println!("call {} t={} y={:?}", cl.idx, cl.t, cl.y);
        }
        for q in &r.recs {
            println!("rec xold={} x={} y={:?}", q.xold, q.x, q.y);
        }
    }
    let ex = match m {
        Method::RADAU => {
            // stages: 3; rows of A are the arguments of the second iteration's calls (idx 4,5,6)
            if calls.len() < 7 {
                return Err(format!("Radau made only {} RHS calls", calls.len()));
            }
            let mut a = vec![vec![0.0; 3]; 3];
            let mut cc = vec![0.0; 3];
            for i in 0..3 {
                for j in 0..3 {
                    a[i][j] = calls[4 + i].y[1 + j] / h;
                }
                cc[i] = calls[4 + i].t / h;
            }
            let b: Vec<f64> = (0..3).map(|j| r.recs[1].y[1 + j] / h).collect();
            let bt: Vec<Vec<f64>> = r.interior[1].iter().map(|(_, v)| (0..3).map(|j| v[1 + j] / h).collect()).collect();
            Extracted { method: m, s: 3, a, c: cc, b, thetas, btheta: bt, calls: calls.len() }
        }
        _ => {
            let s = n;
            if calls.len() < s {
                return Err(format!("{} RHS calls, expected {}", calls.len(), s));
            }
            let mut a = vec![vec![0.0; s]; s];
            let mut cc = vec![0.0; s];
            for j in 0..s {
                for i in 0..s {
                    a[j][i] = calls[j].y[i] / h;
                }
                cc[j] = calls[j].t / h;
            }
            let b: Vec<f64> = (0..s).map(|i| r.recs[1].y[i] / h).collect();
            // consistency: the argument of the FSAL call is b
            for i in 0..s {
                if (a[bcall][i] - b[i]).abs() > 0.0 {
                    return Err(format!("row {} of A (argument of the call at the new point) differs from the accepted state in component {}", bcall, i));
                }
            }
            let bt: Vec<Vec<f64>> = r.interior[1].iter().map(|(_, v)| (0..s).map(|i| v[i] / h).collect()).collect();
            Extracted { method: m, s, a, c: cc, b, thetas, btheta: bt, calls: calls.len() }
        }
    };
    Ok(ex)
}

/// advertised orders: (step order p, dense order q, estimator's lower order)
pub fn orders(m: Method) -> (usize, usize, Option<usize>) {
    match m {
        Method::RK4 => (4, 3, None),
        Method::RK23 => (3, 3, Some(2)),
        Method::DOPRI5 => (5, 4, Some(4)),
        Method::DOP853 => (8, 7, Some(5)),
        Method::RADAU => (5, 3, None),
        Method::BDF => (0, 0, None),
    }
}
