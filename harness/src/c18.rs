//! C18 — reported statistics count what actually happened.

use crate::explore::{describe, dim, lattice};
use crate::env::{Ans, EvKind, EventSpec};
use crate::problems::{base, reflect, warp, Base, Prob, Warp};
use std::sync::Arc;
use crate::regress;
use crate::report::{is_thorough, CaseOut, Report, Violation};
use crate::run::{mname, run, run_lowlevel, Cfg, Outcome, M6};
use serde_json::{json, Value};

fn vdp(mu: f64) -> Prob {
    Prob {
        name: format!("vanderpol(mu={})", mu),
        n: 2,
        f: Arc::new(move |_t, y, d| {
            d[0] = y[1];
            d[1] = mu * (1.0 - y[0] * y[0]) * y[1] - y[0];
        }),
        jac: Some(Arc::new(move |_t, y| vec![0.0, 1.0, -2.0 * mu * y[0] * y[1] - 1.0, mu * (1.0 - y[0] * y[0])])),
        flow: None,
        y0: vec![2.0, 0.0],
        linear_homogeneous: false,
    }
}

fn problems() -> Vec<Prob> {
    vec![
        base(Base::Decay(-1.0)),
        base(Base::Harmonic(2.0)),
        warp(&base(Base::Logistic(1.5)), Warp::Sin),
        base(Base::Lin3),
        vdp(100.0),
        vdp(1000.0),
        // stiff for the explicit methods: their runs end with ProbablyStiff / StepSizeTooSmall after
        // thousands of steps; the counters must be right at those exits too
        // a right-hand side with a restricted domain integrated to its edge (the tank is empty at t = 2):
        // trial states beyond it answer NaN, Newton iterations end without converging
        Prob {
            name: "draining tank y'=-sqrt(y)".into(),
            n: 1,
            f: Arc::new(|_t, y, d| d[0] = -y[0].sqrt()),
            jac: Some(Arc::new(|_t, y| vec![-0.5 / y[0].sqrt()])),
            flow: None,
            y0: vec![1.0],
            linear_homogeneous: false,
        },
        // the same with a faster outflow: the tank runs dry inside the interval, and the first stage of
        // an oversized first step already leaves the domain
        Prob {
            name: "fast draining tank y'=-3 sqrt(y)".into(),
            n: 1,
            f: Arc::new(|_t, y, d| d[0] = -3.0 * y[0].sqrt()),
            jac: Some(Arc::new(|_t, y| vec![-1.5 / y[0].sqrt()])),
            flow: None,
            y0: vec![1.0],
            linear_homogeneous: false,
        },
        Prob {
            name: "tracking y'=-2000(y-cos t)".into(),
            n: 1,
            f: Arc::new(|t, y, d| d[0] = -2000.0 * (y[0] - t.cos())),
            jac: Some(Arc::new(|_t, _y| vec![-2000.0])),
            flow: None,
            y0: vec![1.0],
            linear_homogeneous: false,
        },
    ]
}

pub fn run_check(replay: Option<Value>) -> i32 {
    let mut rep = Report::new("C18", "model_checking");
    let only = replay.as_ref().and_then(|c| c["key"].as_str().map(|s| s.to_string()));
    let thorough = is_thorough();
    let probs = problems();
    let tols: Vec<f64> = if thorough { vec![1e-2, 1e-3, 1e-4, 1e-5, 1e-6, 1e-7, 1e-8, 1e-9, 1e-10, 1e-11] } else { vec![1e-3, 1e-6, 1e-9] };
    let spans: Vec<f64> = if thorough { vec![0.1, 0.5, 2.0, 7.0, 20.0] } else { vec![2.0] };
    let dims = vec![
        dim("method", &M6.iter().map(|m| mname(*m)).collect::<Vec<_>>()),
        dim("problem", &probs.iter().map(|p| p.name.clone()).collect::<Vec<_>>()),
        dim("tol", &tols),
        dim("span", &spans),
        dim("direction", &["forward", "backward(reflected)"]),
        dim("jacobian", &["user", "finite-difference"]),
        dim("api", &["solve_ivp", "low-level builder"]),
        dim("first_step", &["auto", "given", "given, four times the span (first attempts rejected, trial stages far out)"]),
        dim("stop", &["none", "interrupt/terminal early", "modified(x1)@2 (low-level only)", "interrupt/terminal late", "modified(x2) at the initial callback (low-level only)", "interrupt at the initial callback (low-level only)"]),
    ];
    lattice(&mut rep, "stats", &dims, only.as_deref(), |key, idx| {
        let m = M6[idx[0]];
        let p0 = &probs[idx[1]];
        let tol = tols[idx[2]];
        let span = spans[idx[3]];
        let backward = idx[4] == 1;
        let user_jac = idx[5] == 0;
        let low = idx[6] == 1;
        let fs_given = idx[7] >= 1;
        if idx[7] == 2 && m == ivp::prelude::Method::RK4 {
            return None;
        }
        let stop = idx[8];
        if !crate::run::is_implicit(m) && !user_jac {
            return None; // Jacobian source is irrelevant for explicit methods
        }
        if !crate::run::is_implicit(m) && p0.name.starts_with("vanderpol") {
            return None; // stiff problems are for the implicit methods
        }
        if p0.name.starts_with("vanderpol") && backward {
            return None; // unstable backward
        }
        if (stop == 2 || stop == 4 || stop == 5) && !low {
            return None;
        }
        let span = if p0.name.starts_with("vanderpol") { span * 200.0 } else { span };
        let p = if backward { reflect(p0) } else { p0.clone() };
        let (x0, xend) = if backward { (0.0, -span) } else { (0.0, span) };
        let mut c = Cfg::new(m, x0, xend, &p.y0).tol(tol, tol * 1e-2);
        c.user_jac = user_jac;
        if fs_given {
            let f = if idx[7] == 2 { 4.0 } else { 1.0 / 64.0 };
            c.first_step = Some(if backward { -span * f } else { span * f });
        }
        let desc = json!({"key": key, "point": describe(&dims, idx), "cfg": c.json(&p.name)});
        let mut out = CaseOut::default();
        macro_rules! viol {
            ($c:expr, $m:expr) => {
                out.violations.push(Violation::new(key, $c, $m, desc.clone()).with("method", mname(m)))
            };
        }
        if low {
            // first run without a script to learn the number of callbacks
            let script: Vec<(usize, Ans)> = match stop {
                0 => vec![],
                1 => vec![(2, Ans::Interrupt)],
                2 => vec![(2, Ans::Modified(1.0))],
                4 => vec![(0, Ans::Modified(2.0))],
                5 => vec![(0, Ans::Interrupt)],
                _ => {
                    let plain = run_lowlevel(&p, &c, &[], &[], None, false);
                    vec![(plain.recs.len().saturating_sub(2).max(1), Ans::Interrupt)]
                }
            };
            let r = run_lowlevel(&p, &c, &script, &[], None, false);
            if stop == 1 || stop == 3 || stop == 5 {
                out.tag("interrupted");
            }
            if stop == 2 || stop == 4 {
                out.tag("modified");
            }
            out.events = r.st.n_ode + r.st.n_jac + r.recs.len() as u64;
            match r.ok() {
                None => {
                    viol!("outcome", format!("low-level run ended with {}", r.outcome_name()));
                }
                Some(ir) => {
                    if ir.evals.ode as u64 != r.st.n_ode {
                        viol!("nfev", format!("evals.ode={} but {} RHS calls (Jacobian differencing excluded)", ir.evals.ode, r.st.n_ode));
                    }
                    if ir.evals.jac as u64 != r.st.n_jac {
                        viol!("njev", format!("evals.jac={} but {} Jacobian calls", ir.evals.jac, r.st.n_jac));
                    }
                    let cb = r.recs.len().saturating_sub(1);
                    if ir.steps.accepted != cb {
                        viol!("naccpt", format!("steps.accepted={} but {} step callbacks", ir.steps.accepted, cb));
                    }
                    if ir.steps.total < ir.steps.accepted {
                        viol!("nstep", format!("steps.total={} < steps.accepted={}", ir.steps.total, ir.steps.accepted));
                    }
                    if ir.steps.rejected > 0 {
                        out.tag("with-rejections");
                    }
                    out.validated = 4;
                    let mut h = r.st.fp;
                    h.u(ir.steps.accepted as u64);
                    out.fp = Some(h.as_u128());
                }
            }
        } else {
            // terminal event placed early / late in the span; the plain run gives the step grid
            let mut expected_naccpt: Option<usize> = None;
            if stop == 1 || stop == 3 {
                let plain = run(&p, &c);
                let cpos = x0 + (xend - x0) * if stop == 1 { 0.43 } else { 0.97 };
                if let Some(ps) = plain.sol() {
                    let dirn = (xend - x0).signum();
                    // index of the first accepted endpoint at or beyond the event time
                    expected_naccpt = ps.t.iter().position(|&t| (t - cpos) * dirn >= 0.0);
                }
                c.events = vec![EventSpec::new(EvKind::T(cpos)).term(1)];
                out.tag("terminal-event");
            }
            let r = run(&p, &c);
            out.events = r.st.n_ode + r.st.n_jac;
            match &r.out {
                Outcome::Ok(s) => {
                    if let Some(e) = expected_naccpt {
                        if !fs_given && s.naccpt != e {
                            viol!("naccpt-terminal", format!("terminal event in accepted step {} of the plain run, but naccpt={}", e, s.naccpt));
                        }
                    }
                    let stopped = stop == 1 || stop == 3;
                    if s.nfev as u64 != r.st.n_ode {
                        viol!("nfev", format!("nfev={} but {} RHS calls (Jacobian differencing excluded)", s.nfev, r.st.n_ode));
                    }
                    if s.njev as u64 != r.st.n_jac {
                        viol!("njev", format!("njev={} but {} Jacobian calls", s.njev, r.st.n_jac));
                    }
                    if !fs_given && !stopped && s.naccpt != s.t.len().saturating_sub(1) {
                        viol!("naccpt", format!("naccpt={} but {} reported intervals", s.naccpt, s.t.len().saturating_sub(1)));
                    }
                    if s.nstep < s.naccpt {
                        viol!("nstep", format!("nstep={} < naccpt={}", s.nstep, s.naccpt));
                    }
                    if s.nrejct > 0 {
                        out.tag("with-rejections");
                    }
                    if m == ivp::prelude::Method::RADAU && s.nstep > s.naccpt + s.nrejct + 1 {
                        out.tag("radau-abandoned-newton-attempts");
                    }
                    if r.st.n_ode_in_jac > 0 {
                        out.tag("fd-jacobian-calls-excluded");
                    }
                    out.validated = 4;
                    let mut h = r.st.fp;
                    h.u(s.naccpt as u64);
                    out.fp = Some(h.as_u128());
                }
                _ => {
                    viol!("outcome", format!("run ended with {}", r.outcome_name()));
                }
            }
        }
        out.sample = Some(desc);
        Some(out)
    });

    // zero-length run: all counters zero
    let zdims = vec![dim("method", &M6.iter().map(|m| mname(*m)).collect::<Vec<_>>()), dim("x0", &[0.0, 1.5, -3.0]), dim("dense", &[false, true])];
    lattice(&mut rep, "zero", &zdims, only.as_deref(), |key, idx| {
        let p = base(Base::Harmonic(1.0));
        let x0 = [0.0, 1.5, -3.0][idx[1]];
        let mut c = Cfg::new(M6[idx[0]], x0, x0, &p.y0);
        c.dense = idx[2] == 1;
        let r = run(&p, &c);
        let mut out = CaseOut::default();
        let desc = json!({"key": key, "cfg": c.json(&p.name)});
        match &r.out {
            Outcome::Ok(s) => {
                if s.nfev + s.njev + s.nlu + s.nstep + s.naccpt + s.nrejct != 0 || r.st.n_ode != 0 {
                    out.violations.push(Violation::new(key, "zero-length", format!("counters not all zero: nfev={} njev={} nstep={} naccpt={} calls={}", s.nfev, s.njev, s.nstep, s.naccpt, r.st.n_ode), desc.clone()));
                }
                out.tag("zero-length");
                out.validated = 1;
            }
            _ => out.violations.push(Violation::new(key, "zero-length", format!("zero-length run ended with {}", r.outcome_name()), desc.clone())),
        }
        out.events = 1;
        Some(out)
    });

    // the automatic initial step probes the right-hand side one Euler step ahead: on a tank whose level is below
    // atol next to a large reservoir that probe lies outside the domain (sqrt of a negative level); whatever the
    // estimate does about it, every evaluation it makes is counted
    let tdims = vec![dim("method", &M6.iter().map(|m| mname(*m)).collect::<Vec<_>>()), dim("level0/atol", &["1e-4 / 1e-3", "1e-8 / 1e-6", "1e-6 / 1e-2"]), dim("api", &["solve_ivp", "low-level builder"])];
    lattice(&mut rep, "probe", &tdims, only.as_deref(), |key, idx| {
        let m = M6[idx[0]];
        let (l0, atol) = [(1e-4, 1e-3), (1e-8, 1e-6), (1e-6, 1e-2)][idx[1]];
        let p = Prob {
            name: "tank beside a reservoir".into(),
            n: 2,
            f: Arc::new(|_t, y, d| {
                let q = y[0].sqrt();
                d[0] = -q;
                d[1] = q;
            }),
            jac: Some(Arc::new(|_t, y| {
                let d = 0.5 / y[0].sqrt();
                vec![-d, 0.0, d, 0.0]
            })),
            flow: None,
            y0: vec![l0, 100.0],
            linear_homogeneous: false,
        };
        let xend = 0.9 * 2.0 * l0.sqrt();
        let mut c = Cfg::new(m, 0.0, xend, &p.y0).tol(1e-3, atol);
        c.user_jac = true;
        if m == ivp::prelude::Method::RK4 {
            c.first_step = Some(xend / 20.0);
        }
        let mut out = CaseOut::default();
        let desc = json!({"key": key, "point": describe(&tdims, idx), "cfg": c.json(&p.name)});
        let (rep_nfev, rep_njev, calls, jcalls, name) = if idx[2] == 0 {
            let r = run(&p, &c);
            match r.sol() {
                Some(s) => (s.nfev as u64, s.njev as u64, r.st.n_ode, r.st.n_jac, r.outcome_name()),
                None => return Some(out),
            }
        } else {
            let r = run_lowlevel(&p, &c, &[], &[], None, false);
            match r.ok() {
                Some(ir) => (ir.evals.ode as u64, ir.evals.jac as u64, r.st.n_ode, r.st.n_jac, r.outcome_name()),
                None => return Some(out),
            }
        };
        out.events = calls;
        if rep_nfev != calls {
            out.violations.push(Violation::new(key, "nfev", format!("nfev = {} but the right-hand side was evaluated {} times (run ended with {})", rep_nfev, calls, name), desc.clone()).with("method", mname(m)));
        }
        if rep_njev != jcalls {
            out.violations.push(Violation::new(key, "njev", format!("njev = {} but the Jacobian was evaluated {} times", rep_njev, jcalls), desc.clone()).with("method", mname(m)));
        }
        out.validated = 2;
        out.tag("probe-outside-domain");
        out.fp = Some(calls as u128 ^ ((idx[0] as u128) << 40) ^ ((idx[1] as u128) << 50) ^ ((idx[2] as u128) << 60));
        Some(out)
    });

    // far from the time origin, with steps driven down to the spacing of the doubles: every accepted step is a
    // reported interval (a step that leaves x where it was is not a step)
    for m in M6 {
        for (si, x0) in [1e3f64, 1e6, 1.7e9].iter().enumerate() {
            for backward in [false, true] {
                let key = format!("far-counts:{}:{}:{}", mname(m), si, backward as u8);
                if only.as_ref().map(|o| *o != key).unwrap_or(false) {
                    continue;
                }
                let dirn = if backward { -1.0 } else { 1.0 };
                // y' = y^2 from y = 1: the solution leaves every bound one unit of time later, the steps shrink towards it;
                // at 1.7e9 a plain decay over a hundred steps of 2e-7 (RK4's default step; the spacing there is 2.4e-7)
                let blow = si < 2;
                let p0 = Prob {
                    name: if blow { "y' = y^2".into() } else { "decay".into() },
                    n: 1,
                    f: if blow { Arc::new(|_t, y, d| d[0] = y[0] * y[0]) } else { Arc::new(|_t, y, d| d[0] = -y[0]) },
                    jac: Some(if blow { Arc::new(|_t, y| vec![2.0 * y[0]]) } else { Arc::new(|_t, _y| vec![-1.0]) }),
                    flow: None,
                    y0: vec![1.0],
                    linear_homogeneous: !blow,
                };
                let p = if backward { reflect(&p0) } else { p0 };
                let span = if blow { 2.0 } else { 2e-5 };
                let mut c = Cfg::new(m, dirn * x0, dirn * (x0 + span), &p.y0).tol(1e-6, 1e-9);
                c.user_jac = true;
                c.max_steps = Some(3000);
                c.budget = 3_000_000;
                let r = run(&p, &c);
                rep.evaluations += 1;
                rep.transitions += r.st.n_ode;
                rep.validated += 1;
                *rep.tags.entry("far-origin-counts".into()).or_insert(0) += 1;
                if let Some(s) = r.sol() {
                    let strictly = s.t.windows(2).all(|w| (w[1] - w[0]) * dirn > 0.0);
                    if s.naccpt != s.t.len().saturating_sub(1) || !strictly {
                        rep.violations.push(
                            Violation::new(&key, "naccpt", format!("{} on {} from {:e}: {:?} with naccpt={} and {} reported intervals{}", mname(m), p.name, dirn * x0, s.status, s.naccpt, s.t.len().saturating_sub(1), if strictly { "" } else { " (samples not strictly ordered)" }), json!({"key": key}))
                                .with("method", mname(m)),
                        );
                    }
                }
            }
        }
    }
    if only.is_none() {
        rep.violations.extend(regress::violations_for("C18"));
        rep.require("with-rejections", 1);
        rep.require("fd-jacobian-calls-excluded", 1);
        rep.require("zero-length", 1);
        rep.require("radau-abandoned-newton-attempts", 1);
        rep.require("interrupted", 10);
        rep.require("modified", 10);
        rep.require("terminal-event", 10);
    } else {
        let bad = rep.violations.len();
        println!("replay: {}", if bad == 0 { "property holds on this case".to_string() } else { format!("VIOLATED: {}", rep.violations[0].msg) });
        return if bad == 0 { 0 } else { 1 };
    }
    rep.rule = "full product of the lattice dimensions; the instrumented IVP counts ode calls (tagged when made inside the default finite-difference jac), jac calls and SolOut callbacks; non-trivial = run completed; distinct = distinct RHS-call fingerprints; transitions = interface calls observed".into();
    rep.assumptions.push("naccpt = reported intervals is only checked without t_eval/first_step/terminal events, as the property states".into());
    rep.finish()
}
