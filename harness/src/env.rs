//! The instrumented environment: an `IVP` that wraps a problem, records every interface call,
//! enforces a call budget, and optionally replaces answers (fault injection / impulse probing).

use crate::util::{BudgetExceeded, Fp};
use ivp::matrix::Matrix;
use ivp::prelude::*;
use std::cell::RefCell;

#[derive(Clone, Debug)]
pub enum EvKind {
    /// g = t - c
    T(f64),
    /// g = -(t - c)
    NegT(f64),
    /// g = y[i] - c
    Y(usize, f64),
    /// g = y[0]*y[1]
    Y0Y1,
    /// g = cos(w t)
    Cos(f64),
    /// g = sin(w t)
    Sin(f64),
    /// g = sqrt((c - t) s) + 0.1: positive until t passes c (in the direction s = ±1), NaN afterwards — an event
    /// function with a restricted domain that never has a root
    SqrtUntil(f64, f64),
    /// g = clamp((y[i] - c) / w, -1, 1): a saturating detector (two of them with different levels agree bit for bit
    /// wherever both are saturated)
    ClipY(usize, f64, f64),
    /// g = exp(k (y[i] - c)) - 1: overflows to +inf a little above the level (k (y - c) > 709.8)
    ExpY(usize, f64, f64),
    /// g = (t - c)^3: a triple root (flat: bisection-like convergence)
    CubeT(f64),
    /// g = tanh(k (t - c)): a smoothed switch
    TanhT(f64, f64),
    /// g = sin(w (t - o) + 0.3): an oscillation counted from a far time origin o
    SinAt(f64, f64),
}

#[derive(Clone, Debug)]
pub struct EventSpec {
    pub kind: EvKind,
    pub scale: f64,
    pub dir: Direction,
    pub terminal: Option<usize>,
}

impl EventSpec {
    pub fn new(kind: EvKind) -> Self {
        EventSpec { kind, scale: 1.0, dir: Direction::All, terminal: None }
    }
    pub fn dir(mut self, d: Direction) -> Self {
        self.dir = d;
        self
    }
    pub fn term(mut self, n: usize) -> Self {
        self.terminal = Some(n);
        self
    }
    pub fn scale(mut self, s: f64) -> Self {
        self.scale = s;
        self
    }
    pub fn g(&self, t: f64, y: &[f64]) -> f64 {
        self.scale
            * match self.kind {
                EvKind::T(c) => t - c,
                EvKind::NegT(c) => -(t - c),
                EvKind::Y(i, c) => y[i] - c,
                EvKind::Y0Y1 => y[0] * y[1],
                EvKind::Cos(w) => (w * t).cos(),
                EvKind::Sin(w) => (w * t).sin(),
                EvKind::SqrtUntil(c, sg) => ((c - t) * sg).sqrt() + 0.1,
                EvKind::ClipY(i, c, w) => ((y[i] - c) / w).clamp(-1.0, 1.0),
                EvKind::ExpY(i, c, k) => (k * (y[i] - c)).exp() - 1.0,
                EvKind::CubeT(c) => (t - c) * (t - c) * (t - c),
                EvKind::TanhT(c, k) => (k * (t - c)).tanh(),
                EvKind::SinAt(w, o) => (w * (t - o) + 0.3).sin(),
            }
    }
    /// Lipschitz bound of g along the trajectory in t, given a bound on |y'| and |y|.
    pub fn lipschitz(&self, ymax: f64, dymax: f64) -> f64 {
        self.scale.abs()
            * match self.kind {
                EvKind::T(_) | EvKind::NegT(_) => 1.0,
                EvKind::Y(_, _) => dymax,
                EvKind::Y0Y1 => 2.0 * ymax * dymax,
                EvKind::Cos(w) | EvKind::Sin(w) => w.abs(),
                EvKind::SqrtUntil(_, _) => f64::INFINITY,
                EvKind::ClipY(_, _, w) => dymax / w.abs(),
                // near its root exp(k d) - 1 has slope k; the located point is within 1e-11 of it
                EvKind::ExpY(_, _, k) => 2.0 * k.abs() * dymax,
                // (t - c)^3 within 4e-12 of its root is below any bound worth stating: 1 is generous
                EvKind::CubeT(_) => 1.0,
                EvKind::TanhT(_, k) => k.abs(),
                EvKind::SinAt(w, _) => w.abs(),
            }
    }
    pub fn describe(&self) -> String {
        format!("{:?}*{:e} dir={:?} term={:?}", self.kind, self.scale, self.dir, self.terminal)
    }
}

#[derive(Clone, Debug)]
pub struct OdeCall {
    pub idx: u64,
    pub t: f64,
    pub y: Vec<f64>,
    pub in_jac: bool,
}

#[derive(Default, Clone, Debug)]
pub struct ProbeState {
    pub n_ode: u64,
    pub n_ode_in_jac: u64,
    pub n_jac: u64,
    pub n_events: u64,
    pub n_mass: u64,
    pub in_jac: bool,
    /// fingerprint of all non-Jacobian ode calls (t, y bits): the complete record of the integration
    pub fp: Fp,
    pub tmin: f64,
    pub tmax: f64,
    pub log: Vec<OdeCall>,
    pub ev_times: Vec<f64>,
    pub jac_times: Vec<f64>,
    pub budget_hit: bool,
    /// set by a SolOut probe to forbid any further interface call (C19: after Interrupt)
    pub sealed: bool,
    pub calls_after_seal: u64,
}

pub type RhsFn<'a> = &'a dyn Fn(f64, &[f64], &mut [f64]);
pub type JacFn<'a> = &'a dyn Fn(f64, &[f64], &mut Matrix);
pub type MassFn<'a> = &'a dyn Fn(&mut Matrix);
/// answer hook: (index among non-Jacobian ode calls, t, y, dydx) — may overwrite dydx
pub type AnswerFn<'a> = &'a dyn Fn(u64, f64, &[f64], &mut [f64]);

pub struct Probe<'a> {
    pub f: RhsFn<'a>,
    pub jacf: Option<JacFn<'a>>,
    pub massf: Option<MassFn<'a>>,
    pub events: Vec<EventSpec>,
    pub answer: Option<AnswerFn<'a>>,
    /// answer hook for RHS calls made while the default finite-difference Jacobian is being formed
    /// (index = position among those calls)
    pub answer_in_jac: Option<AnswerFn<'a>>,
    pub budget: u64,
    pub keep_log: bool,
    pub st: RefCell<ProbeState>,
}

impl<'a> Probe<'a> {
    pub fn new(f: RhsFn<'a>) -> Self {
        let mut st = ProbeState::default();
        st.tmin = f64::INFINITY;
        st.tmax = f64::NEG_INFINITY;
        Probe {
            f,
            jacf: None,
            massf: None,
            events: vec![],
            answer: None,
            answer_in_jac: None,
            budget: 2_000_000,
            keep_log: false,
            st: RefCell::new(st),
        }
    }
    pub fn state(&self) -> ProbeState {
        self.st.borrow().clone()
    }
    pub fn seal(&self) {
        self.st.borrow_mut().sealed = true;
    }
    fn note_time(st: &mut ProbeState, t: f64) {
        if t < st.tmin || st.tmin.is_nan() {
            st.tmin = t;
        }
        if t > st.tmax || st.tmax.is_nan() {
            st.tmax = t;
        }
        if t.is_nan() {
            st.tmin = f64::NAN;
            st.tmax = f64::NAN;
        }
    }
}

/// Inner view that only forwards `ode`, so that the trait's *default* `jac` and `mass`
/// implementations are what runs (finite differences; documented identity mass).
struct DefaultsOf<'p, 'a>(&'p Probe<'a>);
impl<'p, 'a> IVP for DefaultsOf<'p, 'a> {
    fn ode(&self, x: f64, y: &[f64], dydx: &mut [f64]) {
        self.0.ode(x, y, dydx)
    }
}

impl<'a> IVP for Probe<'a> {
    fn ode(&self, x: f64, y: &[f64], dydx: &mut [f64]) {
        let idx;
        let in_jac;
        {
            let mut st = self.st.borrow_mut();
            if st.sealed {
                st.calls_after_seal += 1;
            }
            in_jac = st.in_jac;
            if in_jac {
                idx = st.n_ode_in_jac;
                st.n_ode_in_jac += 1;
            } else {
                idx = st.n_ode;
                st.n_ode += 1;
                st.fp.f(x);
                st.fp.fs(y);
            }
            Self::note_time(&mut st, x);
            if self.keep_log {
                st.log.push(OdeCall { idx: if in_jac { u64::MAX } else { idx }, t: x, y: y.to_vec(), in_jac });
            }
            if st.n_ode + st.n_ode_in_jac > self.budget {
                st.budget_hit = true;
                drop(st);
                std::panic::panic_any(BudgetExceeded);
            }
        }
        (self.f)(x, y, dydx);
        if !in_jac {
            if let Some(a) = self.answer {
                a(idx, x, y, dydx);
            }
        } else if let Some(a) = self.answer_in_jac {
            a(idx, x, y, dydx);
        }
    }

    fn n_events(&self) -> usize {
        self.events.len()
    }

    fn events(&self, x: f64, y: &[f64], out: &mut [f64]) {
        {
            let mut st = self.st.borrow_mut();
            if st.sealed {
                st.calls_after_seal += 1;
            }
            st.n_events += 1;
            Self::note_time(&mut st, x);
            if self.keep_log {
                st.ev_times.push(x);
            }
        }
        for (i, e) in self.events.iter().enumerate() {
            out[i] = e.g(x, y);
        }
    }

    fn event_config(&self, i: usize) -> EventConfig {
        let mut c = EventConfig::new();
        c.direction(self.events[i].dir);
        if let Some(n) = self.events[i].terminal {
            c.terminal_count(n);
        }
        c
    }

    fn jac(&self, x: f64, y: &[f64], j: &mut Matrix) {
        {
            let mut st = self.st.borrow_mut();
            if st.sealed {
                st.calls_after_seal += 1;
            }
            st.n_jac += 1;
            Self::note_time(&mut st, x);
            if self.keep_log {
                st.jac_times.push(x);
            }
        }
        match self.jacf {
            Some(jf) => jf(x, y, j),
            None => {
                self.st.borrow_mut().in_jac = true;
                DefaultsOf(self).jac(x, y, j);
                self.st.borrow_mut().in_jac = false;
            }
        }
    }

    fn mass(&self, m: &mut Matrix) {
        self.st.borrow_mut().n_mass += 1;
        match self.massf {
            Some(mf) => mf(m),
            None => DefaultsOf(self).mass(m),
        }
    }
}

// ---------------------------------------------------------------------------------------------
// recording / scripted SolOut for the low-level solvers

#[derive(Clone, Debug)]
pub struct StepRec {
    pub xold: f64,
    pub x: f64,
    pub y: Vec<f64>,
    pub has_interp: bool,
    pub bounds: (f64, f64),
    pub at_xold: Vec<f64>,
    pub at_x: Vec<f64>,
    pub at_mid: Vec<f64>,
    /// number of non-Jacobian ode calls made before this callback
    pub n_ode_before: u64,
    /// entry 6 of the step's dense coefficients (BDF: the order of the step)
    pub cont6: f64,
}

#[derive(Clone, Copy, Debug, PartialEq)]
pub enum Ans {
    Continue,
    Interrupt,
    /// ModifiedSolution with y multiplied by the factor (1.0 = untouched)
    Modified(f64),
    /// XOut(x): ask for dense output at x (low-level protocol only)
    XOut(f64),
}

pub struct ProbeSolOut<'p, 'a> {
    pub probe: &'p Probe<'a>,
    pub recs: Vec<StepRec>,
    /// answer for callback k (default Continue)
    pub script: Vec<(usize, Ans)>,
    /// extra interior evaluation points theta in (0,1) sampled at each step
    pub thetas: Vec<f64>,
    pub interior: Vec<Vec<(f64, Vec<f64>)>>,
}

impl<'p, 'a> ProbeSolOut<'p, 'a> {
    pub fn new(probe: &'p Probe<'a>) -> Self {
        ProbeSolOut { probe, recs: vec![], script: vec![], thetas: vec![], interior: vec![] }
    }
}

impl<'p, 'a> ivp::solout::SolOut for ProbeSolOut<'p, 'a> {
    fn solout(&mut self, xold: f64, x: &mut f64, y: &mut [f64], interp: Option<&StepInterpolant<'_>>) -> ControlFlag {
        let n = y.len();
        let k = self.recs.len();
        let mut rec = StepRec {
            xold,
            x: *x,
            y: y.to_vec(),
            has_interp: interp.is_some(),
            bounds: (f64::NAN, f64::NAN),
            at_xold: vec![],
            at_x: vec![],
            at_mid: vec![],
            n_ode_before: self.probe.st.borrow().n_ode,
            cont6: f64::NAN,
        };
        let mut inner = vec![];
        if let Some(ip) = interp {
            rec.bounds = ip.bounds();
            rec.cont6 = ip.to_segment().cont.get(6).copied().unwrap_or(f64::NAN);
            let mut b = vec![0.0; n];
            ip.interpolate(xold, &mut b);
            rec.at_xold = b.clone();
            ip.interpolate(*x, &mut b);
            rec.at_x = b.clone();
            ip.interpolate(0.5 * (xold + *x), &mut b);
            rec.at_mid = b.clone();
            for &th in &self.thetas {
                let t = xold + th * (*x - xold);
                ip.interpolate(t, &mut b);
                inner.push((t, b.clone()));
            }
        }
        self.recs.push(rec);
        self.interior.push(inner);
        let ans = self.script.iter().find(|(kk, _)| *kk == k).map(|p| p.1).unwrap_or(Ans::Continue);
        match ans {
            Ans::Continue => ControlFlag::Continue,
            Ans::Interrupt => {
                self.probe.seal();
                ControlFlag::Interrupt
            }
            Ans::XOut(xo) => ControlFlag::XOut(xo),
            Ans::Modified(fac) => {
                if fac != 1.0 {
                    for v in y.iter_mut() {
                        *v *= fac;
                    }
                }
                ControlFlag::ModifiedSolution
            }
        }
    }
}
