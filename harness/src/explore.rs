//! E1: exhaustive mixed-radix lattice enumeration with static sharding over worker threads.

use crate::report::{CaseOut, Report};
use crate::util::{decode, lattice_size, par_map};
use serde_json::{json, Value};

pub struct Dim {
    pub name: &'static str,
    pub labels: Vec<String>,
}

pub fn dim<T: std::fmt::Debug>(name: &'static str, vals: &[T]) -> Dim {
    Dim { name, labels: vals.iter().map(|v| format!("{:?}", v)).collect() }
}

/// Enumerates the full product.  `f(key, idx)` returns None for combinations excluded by the
/// check's validity predicate (counted as skipped).  With `only` set, only that key is run.
pub fn lattice<F>(rep: &mut Report, group: &str, dims: &[Dim], only: Option<&str>, f: F)
where
    F: Fn(&str, &[usize]) -> Option<CaseOut> + Sync,
{
    let radices: Vec<usize> = dims.iter().map(|d| d.labels.len()).collect();
    let total = lattice_size(&radices);
    let outs: Vec<Option<CaseOut>> = par_map(total, |i| {
        let idx = decode(i, &radices);
        let key = format!("{}:{}", group, idx.iter().map(|v| v.to_string()).collect::<Vec<_>>().join("."));
        if let Some(o) = only {
            if o != key {
                return None;
            }
        }
        // a panic that escapes from the library through a call the case did not guard itself (e.g. sol_many on a
        // time it cannot place) is a finding about that case, not a failure of the machinery
        let mut out = match crate::util::guarded(|| f(&key, &idx)) {
            Ok(o) => o,
            Err(msg) => {
                let mut c = CaseOut::default();
                let mut m = serde_json::Map::new();
                m.insert("key".into(), json!(key));
                for (d, k) in dims.iter().zip(idx.iter()) {
                    m.insert(d.name.to_string(), json!(d.labels[*k]));
                }
                c.violations.push(crate::report::Violation::new(&key, "panic", format!("a library call panicked: {}", msg), Value::Object(m)));
                Some(c)
            }
        };
        // keep written-out samples only for a handful of evenly spaced points (memory)
        let keep_sample = total < 64 || i % (total / 16).max(1) == 0;
        if let Some(o) = out.as_mut() {
            if !keep_sample && o.violations.is_empty() {
                o.sample = None;
            }
        }
        if let Some(o) = out.as_mut().filter(|_| keep_sample) {
            if o.sample.is_none() {
                let mut m = serde_json::Map::new();
                m.insert("key".into(), json!(key));
                for (d, k) in dims.iter().zip(idx.iter()) {
                    m.insert(d.name.to_string(), json!(d.labels[*k]));
                }
                o.sample = Some(Value::Object(m));
            }
        }
        out
    });
    let mut kept = vec![];
    let mut skipped = 0;
    for o in outs {
        match o {
            Some(c) => kept.push(c),
            None => skipped += 1,
        }
    }
    if only.is_none() {
        rep.skipped += skipped;
    }
    let entry = json!({"group": group, "size": total, "run": kept.len(),
        "dimensions": dims.iter().map(|d| json!({"name": d.name, "values": d.labels})).collect::<Vec<_>>()});
    match &mut rep.dims {
        Value::Array(a) => a.push(entry),
        _ => rep.dims = Value::Array(vec![entry]),
    }
    rep.absorb(kept);
}

/// human-readable description of a lattice point
pub fn describe(dims: &[Dim], idx: &[usize]) -> Value {
    let mut m = serde_json::Map::new();
    for (d, k) in dims.iter().zip(idx.iter()) {
        m.insert(d.name.to_string(), json!(d.labels[*k]));
    }
    Value::Object(m)
}
