//! Small shared utilities: bit-exact float encoding, fingerprints, ulp, double-double
//! arithmetic, a deterministic parallel map and a quiet panic hook.

use std::cell::RefCell;
use std::sync::atomic::{AtomicUsize, Ordering};

pub fn hex(x: f64) -> String {
    format!("{:016x}", x.to_bits())
}

/// JSON value for a float: decimal for reading plus exact bits.
pub fn jf(x: f64) -> serde_json::Value {
    serde_json::json!({"v": format!("{:e}", x), "bits": hex(x)})
}
pub fn jfs(xs: &[f64]) -> serde_json::Value {
    serde_json::Value::Array(xs.iter().map(|&x| serde_json::Value::String(format!("{:e}", x))).collect())
}

/// 128-bit rolling fingerprint (two independent 64-bit mixers).
#[derive(Clone, Copy, Debug, PartialEq, Eq, Hash)]
pub struct Fp(pub u64, pub u64);

impl Default for Fp {
    fn default() -> Self {
        Fp(0x9e3779b97f4a7c15, 0xc2b2ae3d27d4eb4f)
    }
}

impl Fp {
    #[inline]
    pub fn u(&mut self, v: u64) {
        // splitmix-style mixing, two lanes with different constants
        let mut a = self.0 ^ v.wrapping_mul(0xbf58476d1ce4e5b9);
        a = (a ^ (a >> 30)).wrapping_mul(0x94d049bb133111eb);
        a ^= a >> 31;
        self.0 = a.wrapping_add(0x9e3779b97f4a7c15);
        let mut b = self.1.rotate_left(23) ^ v.wrapping_mul(0xff51afd7ed558ccd);
        b = (b ^ (b >> 33)).wrapping_mul(0xc4ceb9fe1a85ec53);
        b ^= b >> 29;
        self.1 = b.wrapping_add(0x165667b19e3779f9);
    }
    #[inline]
    pub fn f(&mut self, v: f64) {
        self.u(v.to_bits())
    }
    pub fn fs(&mut self, v: &[f64]) {
        self.u(v.len() as u64);
        for &x in v {
            self.f(x)
        }
    }
    pub fn s(&mut self, s: &str) {
        for b in s.bytes() {
            self.u(b as u64)
        }
        self.u(0xff)
    }
    pub fn as_u128(&self) -> u128 {
        ((self.0 as u128) << 64) | self.1 as u128
    }
}

pub fn ulp(x: f64) -> f64 {
    let a = x.abs();
    if a == 0.0 || !a.is_finite() {
        return f64::MIN_POSITIVE;
    }
    let b = f64::from_bits(a.to_bits() + 1);
    b - a
}

/// "equal to rounding" in time, DESIGN §2.4.
pub fn time_slack(x0: f64, xend: f64, a: f64, nsteps: usize) -> f64 {
    let m = x0.abs().max(if xend.is_finite() { xend.abs() } else { 0.0 }).max(a.abs());
    8.0 * ulp(m) * (1.0 + nsteps as f64 / 64.0)
}

// ---------------------------------------------------------------------------------------------
// double-double arithmetic (error-free transformations; fma is exact in Rust's mul_add)

#[derive(Clone, Copy, Debug)]
pub struct DD(pub f64, pub f64);

#[inline]
fn two_sum(a: f64, b: f64) -> (f64, f64) {
    let s = a + b;
    let bb = s - a;
    let e = (a - (s - bb)) + (b - bb);
    (s, e)
}
#[inline]
fn two_prod(a: f64, b: f64) -> (f64, f64) {
    let p = a * b;
    let e = a.mul_add(b, -p);
    (p, e)
}
impl DD {
    pub fn from(a: f64) -> DD {
        DD(a, 0.0)
    }
    pub fn add(self, o: DD) -> DD {
        let (s, e) = two_sum(self.0, o.0);
        let e = e + (self.1 + o.1);
        let (s, e) = two_sum(s, e);
        DD(s, e)
    }
    pub fn sub(self, o: DD) -> DD {
        self.add(DD(-o.0, -o.1))
    }
    pub fn mul(self, o: DD) -> DD {
        let (p, e) = two_prod(self.0, o.0);
        let e = e + (self.0 * o.1 + self.1 * o.0);
        let (s, e) = two_sum(p, e);
        DD(s, e)
    }
    pub fn mulf(self, o: f64) -> DD {
        self.mul(DD(o, 0.0))
    }
    pub fn val(self) -> f64 {
        self.0 + self.1
    }
}

// ---------------------------------------------------------------------------------------------
// parallel map with a fixed number of workers; result order is the index order, so the outcome
// of a check never depends on scheduling.

pub fn workers() -> usize {
    std::env::var("VERIF_WORKERS").ok().and_then(|s| s.parse().ok()).unwrap_or(16)
}

pub fn par_map<R: Send, F: Fn(usize) -> R + Sync>(n: usize, f: F) -> Vec<R> {
    let next = AtomicUsize::new(0);
    let nw = workers().min(n.max(1));
    let mut parts: Vec<Vec<(usize, R)>> = Vec::new();
    std::thread::scope(|s| {
        let mut hs = Vec::new();
        for _ in 0..nw {
            hs.push(s.spawn(|| {
                let mut out = Vec::new();
                loop {
                    let i = next.fetch_add(1, Ordering::Relaxed);
                    if i >= n {
                        break;
                    }
                    out.push((i, f(i)));
                }
                out
            }));
        }
        for h in hs {
            parts.push(h.join().expect("worker thread died (machinery failure)"));
        }
    });
    let mut all: Vec<(usize, R)> = parts.into_iter().flatten().collect();
    all.sort_by_key(|p| p.0);
    all.into_iter().map(|p| p.1).collect()
}

// ---------------------------------------------------------------------------------------------
// quiet panics: the harness provokes panics on purpose (call budgets, required panics of the
// matrix type); the hook stores the message per thread instead of printing it.

thread_local! {
    static LAST_PANIC: RefCell<String> = RefCell::new(String::new());
}

pub struct BudgetExceeded;

pub fn install_quiet_panic_hook() {
    std::panic::set_hook(Box::new(|info| {
        let msg = if let Some(s) = info.payload().downcast_ref::<&str>() {
            s.to_string()
        } else if let Some(s) = info.payload().downcast_ref::<String>() {
            s.clone()
        } else if info.payload().downcast_ref::<BudgetExceeded>().is_some() {
            "<budget>".to_string()
        } else {
            "<non-string panic>".to_string()
        };
        let loc = info.location().map(|l| format!("{}:{}", l.file(), l.line())).unwrap_or_default();
        if std::env::var("VERIF_DEBUG").is_ok() {
            eprintln!("panic: {} @ {}", msg, loc);
        }
        LAST_PANIC.with(|p| *p.borrow_mut() = format!("{} @ {}", msg, loc));
    }));
}

pub fn last_panic() -> String {
    LAST_PANIC.with(|p| p.borrow().clone())
}

/// Run `f`, turning a panic into Err(message); a budget overrun becomes Err("<budget>...").
pub fn guarded<R, F: FnOnce() -> R>(f: F) -> Result<R, String> {
    match std::panic::catch_unwind(std::panic::AssertUnwindSafe(f)) {
        Ok(r) => Ok(r),
        Err(_) => Err(last_panic()),
    }
}

/// Mixed-radix decoding of a lattice index.
pub fn decode(mut idx: usize, radices: &[usize]) -> Vec<usize> {
    let mut out = vec![0; radices.len()];
    for k in (0..radices.len()).rev() {
        out[k] = idx % radices[k];
        idx /= radices[k];
    }
    out
}
pub fn lattice_size(radices: &[usize]) -> usize {
    radices.iter().product()
}
