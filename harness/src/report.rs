//! Evidence, replay artefacts, known findings, exit code.

use serde_json::{json, Map, Value};
use std::collections::{BTreeMap, HashSet};
use std::time::Instant;

#[derive(Clone, Debug)]
pub struct Violation {
    /// replay key understood by `--replay` of the owning check
    pub key: String,
    /// narrow signature used for known-finding matching
    pub sig: BTreeMap<String, String>,
    pub msg: String,
    pub case: Value,
}

impl Violation {
    pub fn new(key: impl Into<String>, check: &str, msg: impl Into<String>, case: Value) -> Self {
        // a tree that breaks a property everywhere produces millions of violations: beyond the first 20 000 only
        // key, signature and the head of the message are kept (all of them are still counted and grouped)
        static MADE: std::sync::atomic::AtomicU64 = std::sync::atomic::AtomicU64::new(0);
        let n = MADE.fetch_add(1, std::sync::atomic::Ordering::Relaxed);
        let mut sig = BTreeMap::new();
        sig.insert("check".to_string(), check.to_string());
        if n >= 20_000 {
            let mut m: String = msg.into();
            if m.len() > 160 {
                let mut cut = 160;
                while !m.is_char_boundary(cut) {
                    cut -= 1;
                }
                m.truncate(cut);
            }
            return Violation { key: key.into(), sig, msg: m, case: Value::Null };
        }
        Violation { key: key.into(), sig, msg: msg.into(), case }
    }
    pub fn with(mut self, k: &str, v: impl ToString) -> Self {
        self.sig.insert(k.to_string(), v.to_string());
        self
    }
}

/// What one enumerated case contributes.
#[derive(Default)]
pub struct CaseOut {
    /// fingerprint of the execution if it is non-trivial by the check's rule
    pub fp: Option<u128>,
    /// interface events (or model transitions) monitored in this case
    pub events: u64,
    /// model-vs-implementation comparisons made in this case
    pub validated: u64,
    pub violations: Vec<Violation>,
    /// named situations reached (coverage counters / vacuity guards)
    pub tags: Vec<&'static str>,
    /// optional sample description (used for the evidence samples)
    pub sample: Option<Value>,
}

impl CaseOut {
    pub fn tag(&mut self, t: &'static str) {
        self.tags.push(t)
    }
}

pub struct Report {
    pub id: String,
    pub tier: String,
    pub seed: i64,
    pub level: &'static str,
    pub rule: String,
    pub dims: Value,
    pub evaluations: u64,
    pub fps: HashSet<u128>,
    pub states: u64,
    pub transitions: u64,
    pub validated: u64,
    pub samples: Vec<Value>,
    pub tags: BTreeMap<String, u64>,
    pub extra: Map<String, Value>,
    pub violations: Vec<Violation>,
    pub assumptions: Vec<String>,
    pub exhaustive: bool,
    pub caps: Vec<String>,
    pub machinery_errors: Vec<String>,
    pub skipped: u64,
    start: Instant,
    /// if Some, states is not derived from the number of distinct fingerprints
    pub states_override: Option<u64>,
    /// wall-clock seconds spent outside this process on behalf of the check (Python side of C20)
    pub wall_offset: f64,
}

pub fn tier() -> String {
    std::env::var("VERIF_TIER").unwrap_or_else(|_| "quick".into())
}
pub fn is_thorough() -> bool {
    tier() == "thorough"
}

impl Report {
    pub fn new(id: &str, level: &'static str) -> Self {
        let seed = std::env::var("VERIF_SEED").ok().and_then(|s| s.parse().ok()).unwrap_or(0);
        Report {
            id: id.into(),
            tier: tier(),
            seed,
            level,
            rule: String::new(),
            dims: Value::Null,
            evaluations: 0,
            fps: HashSet::new(),
            states: 0,
            transitions: 0,
            validated: 0,
            samples: vec![],
            tags: BTreeMap::new(),
            extra: Map::new(),
            violations: vec![],
            assumptions: vec![],
            exhaustive: true,
            caps: vec![],
            machinery_errors: vec![],
            skipped: 0,
            start: Instant::now(),
            states_override: None,
            wall_offset: 0.0,
        }
    }

    pub fn absorb(&mut self, outs: Vec<CaseOut>) {
        let n = outs.len();
        // first, last and 3 evenly spaced samples among cases that offer one
        let with_sample: Vec<usize> = outs.iter().enumerate().filter(|(_, o)| o.sample.is_some()).map(|(i, _)| i).collect();
        let mut pick: Vec<usize> = vec![];
        if !with_sample.is_empty() {
            let m = with_sample.len();
            for k in [0, m / 4, m / 2, 3 * m / 4, m - 1] {
                if !pick.contains(&with_sample[k]) {
                    pick.push(with_sample[k]);
                }
            }
        }
        for (i, o) in outs.into_iter().enumerate() {
            self.evaluations += 1;
            if let Some(fp) = o.fp {
                self.fps.insert(fp);
            }
            self.transitions += o.events;
            self.validated += o.validated;
            for t in o.tags {
                *self.tags.entry(t.to_string()).or_insert(0) += 1;
            }
            if pick.contains(&i) && self.samples.len() < 12 {
                if let Some(s) = o.sample {
                    self.samples.push(s);
                }
            }
            self.violations.extend(o.violations);
        }
        let _ = n;
    }

    pub fn tag_count(&self, t: &str) -> u64 {
        *self.tags.get(t).unwrap_or(&0)
    }

    /// Vacuity guard: the named situation must have been reached.
    pub fn require(&mut self, t: &str, min: u64) {
        if self.tag_count(t) < min {
            self.machinery_errors.push(format!(
                "vacuity guard: situation '{}' reached {} times (< {})",
                t,
                self.tag_count(t),
                min
            ));
        }
    }

    pub fn finish(mut self) -> i32 {
        let verif = verif_dir();
        let known = load_known(&verif, &self.id);
        let mut unlisted: Vec<&Violation> = vec![];
        let mut known_hits: BTreeMap<usize, u64> = BTreeMap::new();
        for v in &self.violations {
            let mut hit = None;
            for (i, k) in known.iter().enumerate() {
                if k.iter().all(|(kk, vv)| kk == "__what" || v.sig.get(kk) == Some(vv)) {
                    hit = Some(i);
                    break;
                }
            }
            match hit {
                Some(i) => *known_hits.entry(i).or_insert(0) += 1,
                None => unlisted.push(v),
            }
        }
        for (i, c) in &known_hits {
            println!(
                "KNOWN-FINDING: property={} {} [{} occurrence(s) in this run]",
                self.id,
                known[*i].get("__what").cloned().unwrap_or_default(),
                c
            );
        }
        // replay artefacts for unlisted violations (at most 20 files; all are counted)
        let mut printed = 0;
        let rdir = format!("{}/replays/{}", verif, self.id);
        for v in &unlisted {
            if printed >= 20 {
                break;
            }
            let _ = std::fs::create_dir_all(&rdir);
            let mut h = crate::util::Fp::default();
            h.s(&v.key);
            h.s(&v.msg);
            let path = format!("{}/{:016x}.json", rdir, h.0);
            let body = json!({
                "property": self.id, "tier": self.tier, "key": v.key, "signature": v.sig,
                "message": v.msg, "case": v.case,
                "replay_cmd": format!("./check {} --replay {}", self.id, path),
            });
            let _ = std::fs::write(&path, serde_json::to_string_pretty(&body).unwrap());
            println!("VIOLATION property={} replay={}", self.id, path);
            println!("  {} :: {}", v.key, v.msg);
            printed += 1;
        }
        if unlisted.len() > 5 {
            // signature summary (without method-independent noise) to see the classes at a glance
            let mut classes: BTreeMap<String, (u64, String)> = BTreeMap::new();
            for v in &unlisted {
                let k = v.sig.iter().map(|(a, b)| format!("{}={}", a, b)).collect::<Vec<_>>().join(" ");
                let e = classes.entry(k).or_insert((0, v.key.chars().take(80).collect()));
                e.0 += 1;
            }
            println!("  violation classes ({}):", classes.len());
            for (k, (c, ex)) in classes.iter().take(80) {
                println!("    {:6} x {}   e.g. {}", c, k, ex);
            }
        }
        if unlisted.len() > printed {
            println!("  ... and {} more unlisted violations (not written out)", unlisted.len() - printed);
        }
        for e in &self.machinery_errors {
            println!("MACHINERY-ERROR: {}", e);
        }

        let distinct = self.fps.len() as u64;
        let states = self.states_override.unwrap_or(distinct).max(self.states);
        let mut cov = Map::new();
        cov.insert("evaluations".into(), json!(self.evaluations));
        cov.insert("distinct_nontrivial".into(), json!(distinct));
        cov.insert("rule".into(), json!(self.rule));
        cov.insert("samples".into(), Value::Array(self.samples.clone()));
        cov.insert("states".into(), json!(states));
        cov.insert("transitions".into(), json!(self.transitions));
        cov.insert("traces_validated_against_impl".into(), json!(self.validated));
        cov.insert("exhaustive".into(), json!(self.exhaustive && self.caps.is_empty()));
        cov.insert("lattice".into(), self.dims.clone());
        cov.insert("skipped_by_validity".into(), json!(self.skipped));
        cov.insert("situations".into(), json!(self.tags));
        cov.insert("caps_hit".into(), json!(self.caps));
        cov.insert("known_finding_occurrences".into(), json!(known_hits.values().sum::<u64>()));
        for (k, v) in self.extra.iter() {
            cov.insert(k.clone(), v.clone());
        }
        let ev = json!({
            "property_id": self.id,
            "tier": self.tier,
            "seed": self.seed,
            "level": self.level,
            "coverage": Value::Object(cov),
            "assumptions": self.assumptions,
            "wall_s": self.start.elapsed().as_secs_f64() + self.wall_offset,
            "violations": unlisted.len(),
        });
        let edir = format!("{}/evidence", verif);
        let _ = std::fs::create_dir_all(&edir);
        std::fs::write(format!("{}/{}.json", edir, self.id), serde_json::to_string_pretty(&ev).unwrap())
            .expect("cannot write evidence");
        println!(
            "{} tier={} evaluations={} distinct_nontrivial={} transitions={} validated={} violations={} known={} wall={:.1}s",
            self.id,
            self.tier,
            self.evaluations,
            distinct,
            self.transitions,
            self.validated,
            unlisted.len(),
            known_hits.values().sum::<u64>(),
            self.start.elapsed().as_secs_f64()
        );
        if !unlisted.is_empty() {
            return 1;
        }
        if !self.machinery_errors.is_empty() {
            return 2;
        }
        self.violations.clear();
        0
    }
}

pub fn verif_dir() -> String {
    std::env::var("VERIF_DIR").unwrap_or_else(|_| "/verif".into())
}

/// known entries for one property: signature map plus "__what".
fn load_known(verif: &str, id: &str) -> Vec<BTreeMap<String, String>> {
    let path = std::env::var("VERIF_KNOWN").unwrap_or_else(|_| format!("{}/known_findings.json", verif));
    let txt = match std::fs::read_to_string(&path) {
        Ok(t) => t,
        Err(_) => return vec![],
    };
    let v: Value = serde_json::from_str(&txt).expect("known_findings.json is not valid JSON");
    let mut out = vec![];
    for e in v["findings"].as_array().cloned().unwrap_or_default() {
        if e["kind"] != "known" || e["property"] != id {
            continue;
        }
        let mut m = BTreeMap::new();
        if let Some(sig) = e["signature"].as_object() {
            for (k, vv) in sig {
                m.insert(k.clone(), vv.as_str().unwrap_or(&vv.to_string()).to_string());
            }
        }
        if m.is_empty() {
            continue; // an entry without a signature suppresses nothing
        }
        m.insert("__what".into(), e["what"].as_str().unwrap_or("").to_string());
        out.push(m);
    }
    out
}

// ---------------------------------------------------------------------------------------------
// (de)serialisation of case results for checks that run their cases in child processes

impl Violation {
    pub fn to_json(&self) -> Value {
        json!({"key": self.key, "sig": self.sig, "msg": self.msg, "case": self.case})
    }
    pub fn from_json(v: &Value) -> Violation {
        let mut sig = BTreeMap::new();
        if let Some(m) = v["sig"].as_object() {
            for (k, x) in m {
                sig.insert(k.clone(), x.as_str().unwrap_or("").to_string());
            }
        }
        Violation { key: v["key"].as_str().unwrap_or("").into(), sig, msg: v["msg"].as_str().unwrap_or("").into(), case: v["case"].clone() }
    }
}

/// tags are interned through this table so that CaseOut can keep &'static str
pub fn intern(s: &str) -> &'static str {
    use std::sync::Mutex;
    static TABLE: Mutex<Vec<&'static str>> = Mutex::new(Vec::new());
    let mut t = TABLE.lock().unwrap();
    if let Some(x) = t.iter().find(|x| **x == s) {
        return x;
    }
    let leaked: &'static str = Box::leak(s.to_string().into_boxed_str());
    t.push(leaked);
    leaked
}

impl CaseOut {
    pub fn to_json(&self) -> Value {
        json!({
            "fp": self.fp.map(|f| format!("{:032x}", f)),
            "events": self.events, "validated": self.validated,
            "violations": self.violations.iter().map(|v| v.to_json()).collect::<Vec<_>>(),
            "tags": self.tags, "sample": self.sample,
        })
    }
    pub fn from_json(v: &Value) -> CaseOut {
        CaseOut {
            fp: v["fp"].as_str().and_then(|s| u128::from_str_radix(s, 16).ok()),
            events: v["events"].as_u64().unwrap_or(0),
            validated: v["validated"].as_u64().unwrap_or(0),
            violations: v["violations"].as_array().map(|a| a.iter().map(Violation::from_json).collect()).unwrap_or_default(),
            tags: v["tags"].as_array().map(|a| a.iter().filter_map(|t| t.as_str()).map(intern).collect()).unwrap_or_default(),
            sample: if v["sample"].is_null() { None } else { Some(v["sample"].clone()) },
        }
    }
}
