//! Shared lattice and oracles of the event checks C08 (genuine / filtered / ordered / consistent),
//! C09 (no sign change unreported) and C10 (terminal events).

use crate::env::{EvKind, EventSpec};
use crate::regress;
use crate::report::{is_thorough, CaseOut, Report, Violation};
use crate::run::{mname, run, Cfg, Outcome, M6};
use crate::twopass::{plain_run, scene_cfg, scenes, Plain};
use crate::util::par_map;
use ivp::prelude::*;
use serde_json::{json, Value};

#[derive(Clone, Copy, PartialEq, Debug)]
pub enum Mode {
    C08,
    C09,
    C10,
}

#[derive(Clone)]
pub struct EvCase {
    pub label: String,
    pub specs: Vec<EventSpec>,
    /// known single root of function 0 (for `t - c` style events)
    pub known_root: Option<f64>,
}

const DIRS: [Direction; 3] = [Direction::All, Direction::Positive, Direction::Negative];

fn placements(pl: &Plain, thorough: bool) -> Vec<(f64, String)> {
    let n = pl.nsteps();
    let mut v = vec![];
    let nk = n.min(if thorough { 6 } else { 4 });
    for k in 0..nk {
        let h = pl.h(k);
        for th in [1e-7, 0.25, 0.5, 0.75, 1.0 - 1e-7] {
            v.push((pl.xs[k] + th * h, format!("x{}+{}h", k, th)));
        }
        if h.abs() > 1e-7 && k + 1 < n {
            v.push((pl.xs[k + 1] + 1e-9, format!("x{}+1e-9", k + 1)));
            v.push((pl.xs[k + 1] - 1e-9, format!("x{}-1e-9", k + 1)));
            // exactly on a step boundary: an exact zero of t-c at an accepted endpoint
            v.push((pl.xs[k + 1], format!("x{} exactly", k + 1)));
        }
    }
    // the step that lands on xend
    if n - 1 >= nk {
        let h = pl.h(n - 1);
        for th in [0.3, 0.7] {
            v.push((pl.xs[n - 1] + th * h, format!("last step+{}h", th)));
        }
    }
    let (lo, hi) = (pl.xs[0].min(pl.xs[n]), pl.xs[0].max(pl.xs[n]));
    v.retain(|(t, _)| *t > lo && *t < hi);
    v
}

pub fn ev_cases(pl: &Plain, two_d: bool, thorough: bool) -> Vec<EvCase> {
    let mut v = vec![];
    let pts = placements(pl, thorough);
    let sol = pl.sol();
    for scale in [1.0, 1e-6, 1e-170] {
        for d in DIRS {
            if scale < 1e-100 && d != Direction::All {
                continue;
            }
            for (t, name) in &pts {
                v.push(EvCase { label: format!("t-c @{} scale={:e} {:?}", name, scale, d), specs: vec![EventSpec::new(EvKind::T(*t)).scale(scale).dir(d)], known_root: Some(*t) });
                v.push(EvCase { label: format!("-(t-c) @{} scale={:e} {:?}", name, scale, d), specs: vec![EventSpec::new(EvKind::NegT(*t)).scale(scale).dir(d)], known_root: Some(*t) });
                if let Ok(y) = sol.sol(*t) {
                    v.push(EvCase { label: format!("y0-c @{} scale={:e} {:?}", name, scale, d), specs: vec![EventSpec::new(EvKind::Y(0, y[0])).scale(scale).dir(d)], known_root: None });
                }
            }
            if two_d {
                v.push(EvCase { label: format!("y0*y1 scale={:e} {:?}", scale, d), specs: vec![EventSpec::new(EvKind::Y0Y1).scale(scale).dir(d)], known_root: None });
            }
            v.push(EvCase { label: format!("cos(3t) scale={:e} {:?}", scale, d), specs: vec![EventSpec::new(EvKind::Cos(3.0)).scale(scale).dir(d)], known_root: None });
            v.push(EvCase { label: format!("sin(9t) scale={:e} {:?}", scale, d), specs: vec![EventSpec::new(EvKind::Sin(9.0)).scale(scale).dir(d)], known_root: None });
        }
    }
    // several event functions firing in one step: both index orders, coincident, triples
    let n = pl.nsteps();
    for k in 0..n.min(if thorough { 4 } else { 3 }) {
        let h = pl.h(k);
        let (a, b, c) = (pl.xs[k] + 0.3 * h, pl.xs[k] + 0.6 * h, pl.xs[k] + 0.8 * h);
        let t = |x: f64| EventSpec::new(EvKind::T(x));
        let nt = |x: f64| EventSpec::new(EvKind::NegT(x));
        v.push(EvCase { label: format!("pair ordered step {}", k), specs: vec![t(a), t(b)], known_root: Some(a) });
        v.push(EvCase { label: format!("pair reversed step {}", k), specs: vec![t(b), t(a)], known_root: Some(b) });
        v.push(EvCase { label: format!("pair coincident step {}", k), specs: vec![t(a), nt(a)], known_root: Some(a) });
        v.push(EvCase { label: format!("triple step {}", k), specs: vec![t(c), nt(a), t(b)], known_root: Some(c) });
        // six functions crossing in one step, in scrambled index order, two of them filtered out by direction
        {
            let th = [0.55, 0.15, 0.85, 0.35, 0.7, 0.25];
            let mut specs = vec![];
            for (i, q) in th.iter().enumerate() {
                let x = pl.xs[k] + q * h;
                let mut e = if i % 2 == 0 { t(x) } else { nt(x) };
                if i == 3 {
                    // t - c rises along t: filtered out when integrating forward with Negative (and vice versa)
                    e = t(x).dir(if h > 0.0 { Direction::Negative } else { Direction::Positive });
                }
                if i == 4 {
                    e = t(x).dir(if h > 0.0 { Direction::Positive } else { Direction::Negative });
                }
                specs.push(e);
            }
            v.push(EvCase { label: format!("six functions step {}", k), specs, known_root: None });
        }
        // forty functions crossing in one step (any per-step resource shared between the root searches shows)
        if k == 1 {
            let specs: Vec<EventSpec> = (0..40).map(|i| {
                let x = pl.xs[k] + (0.02 + 0.024 * ((i * 17) % 40) as f64) * h;
                if i % 3 == 0 { nt(x) } else { t(x) }
            }).collect();
            v.push(EvCase { label: format!("forty functions step {}", k), specs, known_root: None });
            // ... and forty level crossings of the first component (root searches that need several iterations each)
            let levels: Vec<EventSpec> = (0..40).filter_map(|i| sol.sol(pl.xs[k] + (0.02 + 0.024 * ((i * 17) % 40) as f64) * h).ok().map(|y| EventSpec::new(EvKind::Y(0, y[0])))).collect();
            if levels.len() == 40 {
                v.push(EvCase { label: format!("forty level crossings step {}", k), specs: levels, known_root: None });
            }
        }
        // a function exactly zero at the start of the step (its event is the previous accepted point) after a
        // lower-numbered function that needs a real root search inside the same step
        v.push(EvCase { label: format!("interior root then zero at step start {}", k), specs: vec![t(a), t(pl.xs[k])], known_root: Some(a) });
        if let Ok(y) = sol.sol(b) {
            v.push(EvCase { label: format!("level crossing then zero at step start {}", k), specs: vec![EventSpec::new(EvKind::Y(0, y[0])), nt(pl.xs[k]), t(pl.xs[k])], known_root: None });
        }
        // a terminal event among several functions firing in the same step (either side of the others)
        v.push(EvCase { label: format!("term pair: other before step {}", k), specs: vec![t(a), t(b).term(1)], known_root: Some(a) });
        v.push(EvCase { label: format!("term pair: other after step {}", k), specs: vec![t(b), t(a).term(1)], known_root: Some(b) });
        v.push(EvCase { label: format!("term triple step {}", k), specs: vec![nt(c), t(b).term(1), t(a)], known_root: Some(c) });
        // two saturating detectors of the same component with different levels: wherever both are saturated they
        // agree bit for bit (in particular at both ends of the step in which both cross)
        if let (Ok(ya), Ok(yb)) = (sol.sol(a), sol.sol(b)) {
            let w = 0.05 * (ya[0] - yb[0]).abs();
            if w > 1e-6 {
                v.push(EvCase { label: format!("two saturating detectors step {}", k), specs: vec![EventSpec::new(EvKind::ClipY(0, ya[0], w)), EventSpec::new(EvKind::ClipY(0, yb[0], w))], known_root: None });
            }
            // an event function that overflows to +inf shortly after its root: +inf has a sign
            v.push(EvCase { label: format!("overflowing event function step {}", k), specs: vec![EventSpec::new(EvKind::ExpY(0, ya[0], 4000.0 / (ya[0] - yb[0]).abs().max(1e-3)))], known_root: None });
        }
        // roots that take the root finder many iterations: a triple root, and a smoothed switch of width 1e-7
        v.push(EvCase { label: format!("triple root step {}", k), specs: vec![EventSpec::new(EvKind::CubeT(a))], known_root: Some(a) });
        v.push(EvCase { label: format!("smoothed switch step {}", k), specs: vec![EventSpec::new(EvKind::TanhT(b, 1e7 / h.abs().max(1e-3)))], known_root: Some(b) });
        // a function counted with terminal_count(2) that fires only once: the run goes on, and what fires later
        // in the same step (and in later steps) is reported as if the count were not there
        v.push(EvCase { label: format!("count-2 function fires once, another later in step {}", k), specs: vec![t(a).term(2), t(b), nt(c)], known_root: Some(a) });
        v.push(EvCase { label: format!("count-3 function last in the list, step {}", k), specs: vec![t(b), nt(c), t(a).term(3)], known_root: Some(b) });
        if let Ok(y) = sol.sol(b) {
            v.push(EvCase { label: format!("t-c and y0-c coincident step {}", k), specs: vec![t(b), EventSpec::new(EvKind::Y(0, y[0]))], known_root: Some(b) });
            v.push(EvCase { label: format!("y0-c then t-c step {}", k), specs: vec![EventSpec::new(EvKind::Y(0, y[0])), t(a), EventSpec::new(EvKind::Cos(3.0))], known_root: None });
        }
    }
    v
}

fn before(a: f64, b: f64, dir: f64) -> bool {
    (b - a) * dir > 0.0
}

/// C08 oracle on one run with events (dense output on, no t_eval)
fn c08(s: &Solution, grid: &[(f64, Vec<f64>)], specs: &[EventSpec], dir: f64, ymax: f64, dymax: f64, v: &mut Vec<(String, String)>, tags: &mut Vec<&'static str>) {
    let gt: Vec<f64> = grid.iter().map(|g| g.0).collect();
    let gy: Vec<&Vec<f64>> = grid.iter().map(|g| &g.1).collect();
    if s.t_events.len() != specs.len() || s.y_events.len() != specs.len() {
        v.push(("shape".into(), format!("t_events has {} lists, y_events {}, {} event functions", s.t_events.len(), s.y_events.len(), specs.len())));
        return;
    }
    let n = s.y[0].len();
    for (i, sp) in specs.iter().enumerate() {
        let (te, ye) = (&s.t_events[i], &s.y_events[i]);
        if te.len() != ye.len() || ye.iter().any(|y| y.len() != n) {
            v.push(("shape".into(), format!("event {}: {} times, {} states (dimension {})", i, te.len(), ye.len(), n)));
            continue;
        }
        for w in te.windows(2) {
            if before(w[1], w[0], dir) {
                v.push(("order".into(), format!("event {}: times not in integration order: {:e} then {:e}", i, w[0], w[1])));
            }
        }
        // a direction-filtered crossing is one event: the same time twice means one crossing was reported by two steps
        // (without a filter the library reports an exact zero on a step end from both sides; that case is not judged)
        if sp.dir != Direction::All {
            for w in te.windows(2) {
                if w[0].to_bits() == w[1].to_bits() {
                    v.push(("duplicate".into(), format!("event {} ({:?}): the time {:e} is reported twice", i, sp.dir, w[0])));
                }
            }
        }
        for (t, y) in te.iter().zip(ye.iter()) {
            tags.push("event");
            // bracket between two consecutive accepted endpoints
            let k = (0..gt.len() - 1).find(|&k| !before(*t, gt[k], dir) && !before(gt[k + 1], *t, dir));
            let k = match k {
                Some(k) => k,
                None => {
                    v.push(("bracket".into(), format!("event {} at t={:e} lies in no accepted step", i, t)));
                    continue;
                }
            };
            // y_e equals the continuous solution
            match s.sol(*t) {
                Ok(ys) => {
                    let sc = 1.0 + ymax;
                    let d = y.iter().zip(&ys).fold(0.0f64, |m, (a, b)| m.max((a - b).abs()));
                    if d > 1e-9 * sc {
                        v.push(("state".into(), format!("event {}: y_e differs from sol(t_e) by {:e} at t={:e}", i, d, t)));
                    }
                }
                Err(e) => v.push(("state".into(), format!("event {}: sol(t_e) failed: {:?}", i, e))),
            }
            // zero to root-finder accuracy
            let g = sp.g(*t, y);
            let lip = sp.lipschitz(ymax, dymax).max(f64::MIN_POSITIVE);
            let bound = lip * (4e-12 + 8.0 * f64::EPSILON * t.abs());
            if g.abs() > bound {
                v.push(("root".into(), format!("event {}: |g(t_e,y_e)| = {:e} exceeds L*(4e-12+8eps|t|) = {:e} (t_e={:e})", i, g.abs(), bound, t)));
            }
            // configured direction, judged at the bracketing endpoints when they have strict opposite signs.
            // An event located exactly on an accepted endpoint belongs to either adjacent step (a function
            // that touches zero there crosses down in one and up in the other): every bracketing step counts.
            let _ = k;
            let mut judged = 0;
            let mut agree = 0;
            for kk in (0..gt.len() - 1).filter(|&kk| !before(*t, gt[kk], dir) && !before(gt[kk + 1], *t, dir)) {
                let (ga, gb) = (sp.g(gt[kk], gy[kk]), sp.g(gt[kk + 1], gy[kk + 1]));
                if (ga < 0.0 && gb > 0.0) || (ga > 0.0 && gb < 0.0) {
                    judged += 1;
                    let rising = gb > ga;
                    let ok = match sp.dir {
                        Direction::Positive => rising,
                        Direction::Negative => !rising,
                        _ => true,
                    };
                    if ok {
                        agree += 1;
                    }
                }
            }
            if judged > 0 {
                if agree == 0 {
                    v.push(("direction".into(), format!("event {} ({:?}) reported at t={:e} although every bracketing step crosses in the other direction", i, sp.dir, t)));
                }
                tags.push("direction-judged");
            }
        }
    }
}

/// C09 oracle: sign pattern at consecutive accepted endpoints <=> events
fn c09(s: &Solution, grid: &[(f64, Vec<f64>)], specs: &[EventSpec], dir: f64, known_root: Option<f64>, v: &mut Vec<(String, String)>, tags: &mut Vec<&'static str>) {
    let gt: Vec<f64> = grid.iter().map(|g| g.0).collect();
    let gy: Vec<&Vec<f64>> = grid.iter().map(|g| &g.1).collect();
    let m = gt.len();
    for (i, sp) in specs.iter().enumerate() {
        let g: Vec<f64> = (0..m).map(|k| sp.g(gt[k], gy[k])).collect();
        // classification of steps
        #[derive(PartialEq, Clone, Copy)]
        enum Cls {
            Expect,
            Forbid,
            Free,
        }
        let cls: Vec<Cls> = (0..m - 1)
            .map(|k| {
                let (a, b) = (g[k], g[k + 1]);
                if a == 0.0 || b == 0.0 || a.is_nan() || b.is_nan() {
                    Cls::Free
                } else if (a < 0.0 && b > 0.0) || (a > 0.0 && b < 0.0) {
                    let rising = b > a;
                    match sp.dir {
                        Direction::All => Cls::Expect,
                        Direction::Positive => {
                            if rising {
                                Cls::Expect
                            } else {
                                Cls::Forbid
                            }
                        }
                        Direction::Negative => {
                            if rising {
                                Cls::Forbid
                            } else {
                                Cls::Expect
                            }
                        }
                    }
                } else {
                    Cls::Forbid
                }
            })
            .collect();
        let mut count = vec![0usize; m - 1];
        for t in &s.t_events[i] {
            // candidate steps whose closed interval contains t
            let cands: Vec<usize> = (0..m - 1).filter(|&k| !before(*t, gt[k], dir) && !before(gt[k + 1], *t, dir)).collect();
            // prefer a step that expects an event and has none yet, then a free one, else the first
            let pick = cands
                .iter()
                .copied()
                .find(|&k| cls[k] == Cls::Expect && count[k] == 0)
                .or_else(|| cands.iter().copied().find(|&k| cls[k] == Cls::Free))
                .or_else(|| cands.first().copied());
            if let Some(k) = pick {
                count[k] += 1;
            }
        }
        for k in 0..m - 1 {
            match cls[k] {
                Cls::Expect => {
                    tags.push("sign-change-step");
                    if count[k] != 1 {
                        v.push(("missed".into(), format!("event {}: g changes sign over step [{:e},{:e}] (g={:e},{:e}) but {} events were reported there", i, gt[k], gt[k + 1], g[k], g[k + 1], count[k])));
                    }
                }
                Cls::Forbid => {
                    if count[k] != 0 {
                        v.push(("spurious".into(), format!("event {}: no (direction-matching) sign change over step [{:e},{:e}] (g={:e},{:e}) but {} events were reported there", i, gt[k], gt[k + 1], g[k], g[k + 1], count[k])));
                    }
                }
                Cls::Free => tags.push("exact-zero-at-endpoint"),
            }
        }
        // an exact zero at an interior endpoint with strict opposite signs on both sides must be
        // reported from one of the two adjacent steps (or from both): never from neither
        for k in 1..m - 1 {
            if g[k] == 0.0 && ((g[k - 1] < 0.0 && g[k + 1] > 0.0) || (g[k - 1] > 0.0 && g[k + 1] < 0.0)) {
                let rising = g[k + 1] > g[k - 1];
                let wanted = match sp.dir {
                    Direction::All => true,
                    Direction::Positive => rising,
                    Direction::Negative => !rising,
                };
                let c = count[k - 1] + count[k];
                tags.push("exact-zero-crossing");
                if wanted && c == 0 {
                    v.push(("missed-exact-zero".into(), format!("event {}: g is exactly zero at the accepted endpoint {:e} with opposite signs on both sides (g={:e},0,{:e}) but no event was reported in the two adjacent steps", i, gt[k], g[k - 1], g[k + 1])));
                }
                if c > 2 || (!wanted && c > 0) {
                    v.push(("spurious".into(), format!("event {}: {} events around the exact zero at {:e} (direction filter {:?})", i, c, gt[k], sp.dir)));
                }
            }
        }
        if (0..m - 1).filter(|&k| cls[k] == Cls::Expect).count() >= 2 {
            tags.push("several-crossings");
        }
    }
    if specs.len() > 1 {
        // two event functions firing in the same step
        tags.push("multi-event");
    }
    // event functions with a single known root (every ±(t-c) of the configuration, whatever its
    // index): exactly one event there (if the direction matches)
    let _ = known_root;
    for (fi, sp) in specs.iter().enumerate() {
        let c = match sp.kind {
            EvKind::T(c) | EvKind::NegT(c) | EvKind::CubeT(c) | EvKind::TanhT(c, _) => c,
            _ => continue,
        };
        let not_endpoint = gt.iter().all(|t| *t != c);
        let rising_in_time = !matches!(sp.kind, EvKind::NegT(_));
        let rising_along = if dir > 0.0 { rising_in_time } else { !rising_in_time };
        let matches_dir = match sp.dir {
            Direction::All => true,
            Direction::Positive => rising_along,
            Direction::Negative => !rising_along,
        };
        if not_endpoint {
            let te = &s.t_events[fi];
            if matches_dir {
                let tol = 2e-11f64;
                if te.len() != 1 || (te[0] - c).abs() > tol {
                    v.push(("single-root".into(), format!("event function {}: g = ±(t-c) with c={:e}: reported events {:?}", fi, c, te)));
                }
                tags.push("single-root-checked");
            } else if !te.is_empty() {
                v.push(("single-root".into(), format!("event function {}: g = ±(t-c) with c={:e} and a non-matching direction filter reported {:?}", fi, c, te)));
            }
        }
    }
}

struct Ctx {
    key: String,
    method: Method,
    backward: bool,
    cfg: Cfg,
    prob: crate::problems::Prob,
    plain: Plain,
    cases: Vec<EvCase>,
    ymax: f64,
    dymax: f64,
    /// accepted endpoints (x_j, y_j) of the run, observed through the low-level solver's callbacks
    grid: Vec<(f64, Vec<f64>)>,
}

fn desc_of(cx: &Ctx, key: &str, ec: &EvCase, extra: Value) -> Value {
    json!({"key": key, "method": mname(cx.method), "problem": cx.prob.name, "backward": cx.backward, "rtol": cx.cfg.rtol.json(),
        "events": ec.specs.iter().map(|e| e.describe()).collect::<Vec<_>>(), "label": ec.label, "grid_head": cx.plain.xs.iter().take(6).collect::<Vec<_>>(), "detail": extra})
}

fn run_case_c0809(cx: &Ctx, key: &str, ec: &EvCase, mode: Mode) -> CaseOut {
    let mut out = CaseOut::default();
    let mut c = cx.cfg.clone();
    c.events = ec.specs.clone();
    c.dense = true;
    let r = run(&cx.prob, &c);
    let dir = (c.xend - c.x0).signum();
    out.events = r.st.n_ode + r.st.n_events;
    let mut vs = vec![];
    let mut tags = vec![];
    let mut detail = json!(null);
    // the same events are reported when the caller did not ask for dense output (the root search has its own
    // interpolant then); contexts without a given first step, where no other option asks for one either
    if mode == Mode::C08 && cx.cfg.first_step.is_none() {
        let mut c2 = c.clone();
        c2.dense = false;
        let r2 = run(&cx.prob, &c2);
        out.events += r2.st.n_ode + r2.st.n_events;
        match (&r.out, &r2.out) {
            (Outcome::Ok(a), Outcome::Ok(b)) => {
                let bits = |s: &Solution| -> Vec<Vec<u64>> { s.t_events.iter().map(|l| l.iter().map(|t| t.to_bits()).collect()).collect() };
                if bits(a) != bits(b) || a.status != b.status {
                    vs.push(("events-without-dense".into(), format!("without dense_output the run reports other events: {:?} ({:?}) vs {:?} ({:?}) with it", b.t_events, b.status, a.t_events, a.status)));
                }
                tags.push("events-without-dense");
            }
            _ => {
                if r.outcome_name() != r2.outcome_name() {
                    vs.push(("events-without-dense".into(), format!("without dense_output the run ends with {}, with it {}", r2.outcome_name(), r.outcome_name())));
                }
            }
        }
    }
    // a count of two or more on a function with a single root (t - c) is never reached: for the oracle that
    // function is an ordinary one
    let reaches = |e: &EventSpec| match (e.terminal, &e.kind) {
        (None, _) => false,
        (Some(n), EvKind::T(_) | EvKind::NegT(_)) => n <= 1,
        (Some(_), _) => true,
    };
    let has_term = ec.specs.iter().any(|e| reaches(e));
    match &r.out {
        Outcome::Ok(s) if s.status == Status::Success || (has_term && s.status == Status::UserInterrupt) => {
            detail = json!({"t_events": s.t_events, "n_steps": cx.grid.len() - 1, "first_step": cx.cfg.first_step, "status": format!("{:?}", s.status), "t_last": s.t.last()});
            if has_term {
                // the run ends at the terminal event: nothing may be reported beyond the last sample,
                // and the (t - c) events of the same step that the integration met before it are there
                tags.push("terminal-in-multi");
                let tl = *s.t.last().unwrap();
                let tstop = ec.specs.iter().find(|e| reaches(e)).and_then(|e| match e.kind {
                    EvKind::T(c) | EvKind::NegT(c) => Some(c),
                    _ => None,
                });
                if s.status != Status::UserInterrupt {
                    vs.push(("terminal-status".into(), format!("a terminal event inside the span fired but the status is {:?}", s.status)));
                }
                for (i, l) in s.t_events.iter().enumerate() {
                    for t in l {
                        if before(tl, *t, dir) && (t - tl).abs() > 1e-9 {
                            vs.push(("beyond-end".into(), format!("event {} reported at t={:e}, beyond the last sample t={:e} at which the terminal event stopped the run", i, t, tl)));
                        }
                    }
                }
                if let Some(ts) = tstop {
                    for (i, e) in ec.specs.iter().enumerate() {
                        if let (false, EvKind::T(c) | EvKind::NegT(c)) = (reaches(e), &e.kind) {
                            let c = *c;
                            // roots closer together than the root-finder's resolution have no defined order
                            if (c - ts).abs() <= 1e-9 {
                                continue;
                            }
                            let want = before(c, ts, dir);
                            let got = s.t_events.get(i).map(|l| l.iter().any(|t| (t - c).abs() <= 1e-9)).unwrap_or(false);
                            if want != got {
                                vs.push(("terminal-order".into(), format!("event {} (root {:e}) lies {} the terminal event at {:e} in the same step and is {}", i, c, if want { "before" } else { "after" }, ts, if got { "reported" } else { "not reported" })));
                            }
                        }
                    }
                }
            }
            match mode {
                Mode::C08 => c08(s, &cx.grid, &ec.specs, dir, cx.ymax, cx.dymax, &mut vs, &mut tags),
                // (a run cut short by a terminal event is judged by the block above: what the
                // integration met before the stop is reported, nothing else)
                _ if has_term => {}
                _ => c09(s, &cx.grid, &ec.specs, dir, ec.known_root, &mut vs, &mut tags),
            }
            if mode == Mode::C09 && !has_term {
                // the same sign changes are reported when output times are requested as well (the first
                // requested time lies well after x0, the last one before xend)
                let mut ct = c.clone();
                let (a, b) = (c.x0, c.xend);
                ct.t_eval = Some(vec![a + 0.41 * (b - a), a + 0.73 * (b - a)]);
                let rt = run(&cx.prob, &ct);
                out.events += rt.st.n_ode + rt.st.n_events;
                match rt.sol() {
                    Some(st) if st.status == Status::Success => {
                        if st.t_events.len() != s.t_events.len() || st.t_events.iter().zip(&s.t_events).any(|(u, v)| !bits_eq(u, v)) {
                            vs.push(("events-with-t-eval".into(), format!("with t_eval the reported events are {:?}, without {:?}", st.t_events, s.t_events)));
                        }
                        tags.push("events-with-t-eval");
                    }
                    _ => vs.push(("outcome".into(), format!("the same run with t_eval ended with {}", rt.outcome_name()))),
                }
            }
            out.validated = s.t_events.iter().map(|l| l.len() as u64).sum::<u64>() + (cx.grid.len() as u64 - 1) * ec.specs.len() as u64;
            let mut h = r.st.fp;
            for l in &s.t_events {
                h.fs(l);
            }
            h.s(&ec.label);
            out.fp = Some(h.as_u128());
        }
        _ => vs.push(("outcome".into(), format!("run with non-terminal events ended with {}", r.outcome_name()))),
    }
    let d = desc_of(cx, key, ec, detail);
    for (k, m) in vs {
        out.violations.push(
            Violation::new(key, &k, m, d.clone())
                .with("method", mname(cx.method))
                .with("backward", cx.backward)
                .with("scale", format!("{:e}", ec.specs[0].scale))
                .with("kind", format!("{:?}", ec.specs[0].kind).split('(').next().unwrap_or("")),
        );
    }
    for t in tags {
        out.tag(t);
    }
    out.sample = Some(d);
    out
}

// ---------------------------------------------------------------------------------------------
// C10: differential between the run without and with a terminal flag

fn bits_eq(a: &[f64], b: &[f64]) -> bool {
    a.len() == b.len() && a.iter().zip(b).all(|(x, y)| x.to_bits() == y.to_bits())
}

fn run_case_c10(cx: &Ctx, key: &str, ec: &EvCase, tj: usize, count: usize, with_teval: bool, dense: bool) -> CaseOut {
    let mut out = CaseOut::default();
    let dir = (cx.cfg.xend - cx.cfg.x0).signum();
    let mut c0 = cx.cfg.clone();
    c0.events = ec.specs.clone();
    c0.dense = dense;
    if with_teval {
        let (a, b) = (cx.cfg.x0, cx.cfg.xend);
        c0.t_eval = Some((0..=12).map(|i| a + (b - a) * i as f64 / 12.0).collect());
    }
    let mut c1 = c0.clone();
    c1.events[tj].terminal = Some(count);
    let (r0, r1) = (run(&cx.prob, &c0), run(&cx.prob, &c1));
    out.events = r0.st.n_ode + r1.st.n_ode;
    let mut vs: Vec<(String, String)> = vec![];
    let mut detail = json!(null);
    match (&r0.out, &r1.out) {
        (Outcome::Ok(s0), Outcome::Ok(s1)) => {
            detail = json!({"terminal_on": tj, "count": count, "t_eval": with_teval, "dense": dense, "base_t_events": s0.t_events, "term_t_events": s1.t_events,
                "term_status": format!("{:?}", s1.status), "term_t_tail": s1.t.iter().rev().take(3).rev().collect::<Vec<_>>()});
            // the plain run itself: a (t - c) function of either sign with its root well inside the span and no
            // direction filter has exactly one event there (the differential below is blind to a defect that drops
            // the event from both runs)
            for (i, e) in ec.specs.iter().enumerate() {
                if let (EvKind::T(cr) | EvKind::NegT(cr), Direction::All) = (&e.kind, e.dir) {
                    let (lo, hi) = (c0.x0.min(c0.xend), c0.x0.max(c0.xend));
                    let on_grid = cx.grid.iter().any(|g| (g.0 - cr).abs() <= 1e-9);
                    if *cr > lo + 1e-6 * (hi - lo) && *cr < hi - 1e-6 * (hi - lo) && !on_grid {
                        let hits = s0.t_events[i].iter().filter(|t| (*t - cr).abs() <= 1e-9 * (1.0 + cr.abs())).count();
                        if hits != 1 {
                            vs.push(("plain-run-event".into(), format!("event {} has its only root at {:e} but the plain run reports {:?}", i, cr, s0.t_events[i])));
                        }
                    }
                }
            }
            let reached = s0.t_events[tj].len() >= count;
            if !reached {
                out.tag("count-not-reached");
                if s1.status != s0.status || !bits_eq(&s1.t, &s0.t) || s0.t_events != s1.t_events {
                    vs.push(("not-reached-differs".into(), format!("terminal count {} not reached ({} events) but the run differs from the plain one (status {:?})", count, s0.t_events[tj].len(), s1.status)));
                }
            } else {
                out.tag("terminal-stop");
                let tstop = s0.t_events[tj][count - 1];
                if s1.status != Status::UserInterrupt {
                    vs.push(("status".into(), format!("terminal event reached its count but status is {:?}", s1.status)));
                }
                // the event lists: everything before the stop identical, nothing after
                for i in 0..ec.specs.len() {
                    let want: Vec<f64> = if i == tj { s0.t_events[tj][..count].to_vec() } else { s0.t_events[i].iter().copied().filter(|t| before(*t, tstop, dir)).collect() };
                    let got = &s1.t_events[i];
                    // events of other functions at exactly the stopping time may go either way
                    let tie_ok: Vec<f64> = s0.t_events[i].iter().copied().filter(|t| before(*t, tstop, dir) || *t == tstop).collect();
                    // (any number of them: a function exactly zero on an accepted step end is reported once by
                    // each adjacent step, and the stop may fall between the two)
                    let ok_i = bits_eq(got, &want) || (i != tj && got.len() >= want.len() && got.len() <= tie_ok.len() && bits_eq(got, &tie_ok[..got.len()]));
                    if !ok_i {
                        vs.push(("events-prefix".into(), format!("event {}: with the terminal flag {:?}, without it (up to the stop at {:e}) {:?}", i, got, tstop, want)));
                    }
                    if got.iter().any(|t| before(tstop, *t, dir)) {
                        vs.push(("event-after-stop".into(), format!("event {} reported at a time after the stop {:e}: {:?}", i, tstop, got)));
                    }
                    if got.len() != s1.y_events[i].len() {
                        vs.push(("shape".into(), format!("event {}: {} times but {} states", i, got.len(), s1.y_events[i].len())));
                    }
                    if got.len() > 1 && i != tj {
                        out.tag("earlier-events-kept");
                    }
                }
                // the final sample is the event point
                let (lt, ly) = (s1.t.last().copied().unwrap_or(f64::NAN), s1.y.last().cloned().unwrap_or_default());
                let ev_y = s1.y_events[tj].last().cloned().unwrap_or_default();
                let ev_t = s1.t_events[tj].last().copied().unwrap_or(f64::NAN);
                if lt.to_bits() != ev_t.to_bits() || !bits_eq(&ly, &ev_y) || ev_t.to_bits() != tstop.to_bits() {
                    vs.push(("final-sample".into(), format!("final sample ({:e}) is not the terminal event point ({:e}; plain run's event at {:e})", lt, ev_t, tstop)));
                }
                // ... and its state is the solution there (the plain run's continuous solution is the witness)
                if dense {
                    if let Ok(w) = s0.sol(lt) {
                        let sc = 1.0 + w.iter().fold(0.0f64, |a, v| a.max(v.abs()));
                        let d = ly.iter().zip(&w).fold(0.0f64, |a, (u, v)| a.max((u - v).abs()));
                        if !(d <= 1e-9 * sc) {
                            vs.push(("final-state".into(), format!("the state of the final sample at t={:e} differs from the solution there by {:e}", lt, d)));
                        }
                    }
                }
                // nothing later, everything before identical to the plain run's prefix
                if s1.t.iter().any(|t| before(tstop, *t, dir)) {
                    vs.push(("sample-after-stop".into(), format!("a sample later than the stop {:e} was reported", tstop)));
                }
                let want_t: Vec<(f64, &Vec<f64>)> = s0.t.iter().zip(s0.y.iter()).filter(|(t, _)| before(**t, tstop, dir)).map(|(t, y)| (*t, y)).collect();
                let got_n = s1.t.len().saturating_sub(1);
                // samples at exactly the stopping time in the plain run may or may not appear
                let got_prefix: Vec<(f64, &Vec<f64>)> = s1.t.iter().zip(s1.y.iter()).take(got_n).filter(|(t, _)| before(**t, tstop, dir)).map(|(t, y)| (*t, y)).collect();
                let same = want_t.len() == got_prefix.len() && want_t.iter().zip(&got_prefix).all(|(a, b)| a.0.to_bits() == b.0.to_bits() && bits_eq(a.1, b.1));
                if !same {
                    vs.push(("samples-prefix".into(), format!("samples before the stop differ from the plain run: {} vs {} entries (stop at {:e})", got_prefix.len(), want_t.len(), tstop)));
                }
                if dense {
                    match s1.sol_span() {
                        Some((a, b)) => {
                            let (lo, hi) = (a.min(b), a.max(b));
                            if lt < lo - 1e-12 || lt > hi + 1e-12 {
                                vs.push(("sol-span".into(), format!("sol_span [{:e},{:e}] does not cover the last reported time {:e}", lo, hi, lt)));
                            } else if s1.sol(lt).is_err() {
                                vs.push(("sol-span".into(), format!("sol({:e}) fails at the last reported time", lt)));
                            }
                        }
                        None => vs.push(("sol-span".into(), "dense output requested but sol_span is None".into())),
                    }
                }
            }
            out.validated = 4;
            let mut h = r1.st.fp;
            h.fs(&s1.t);
            h.u((tj * 16 + count) as u64);
            out.fp = Some(h.as_u128());
        }
        _ => vs.push(("outcome".into(), format!("runs ended with {} / {}", r0.outcome_name(), r1.outcome_name()))),
    }
    let d = desc_of(cx, key, ec, detail);
    for (k, m) in vs {
        out.violations.push(Violation::new(key, &k, m, d.clone()).with("method", mname(cx.method)).with("backward", cx.backward).with("t_eval", with_teval));
    }
    out.sample = Some(d);
    out
}

pub fn run_check(mode: Mode, replay: Option<Value>) -> i32 {
    let id = match mode {
        Mode::C08 => "C08",
        Mode::C09 => "C09",
        Mode::C10 => "C10",
    };
    let mut rep = Report::new(id, "model_checking");
    let only = replay.as_ref().and_then(|c| c["key"].as_str().map(|s| s.to_string()));
    let thorough = is_thorough();
    // a negative entry stands for per-component tolerances (rtol_i = |v| 10^-i, atol_i = 1e-2 rtol_i)
    let tols: Vec<f64> = if thorough { vec![1e-4, 1e-8, -1e-5, 1e-2, 1e-6, 1e-10] } else { vec![1e-4, 1e-8, -1e-5] };
    let mut ctxs = vec![];
    for (mi, m) in M6.iter().enumerate() {
        for backward in [false, true] {
            for (si, sc) in scenes(backward).into_iter().enumerate() {
                for (ti, tol) in tols.iter().enumerate() {
                    if mode == Mode::C10 && ti == 1 && !thorough {
                        continue;
                    }
                  // first_step: automatic; 0.3 of the span; 2e-13 in absolute terms (an accepted step
                  // shorter than every absolute time-matching constant, with roots placed inside it)
                  for (fi, fs) in [None, Some(0.3), Some(-2e-13)].iter().enumerate() {
                    if mode == Mode::C10 && fi >= 1 && ti == 1 {
                        continue;
                    }
                    // (a 2e-13 step is below the resolution of the abscissa once |x0| is large: not a valid request there)
                    if fi == 2 && (*m == Method::RK4 || ti != 0 || sc.x0.abs() > 1.0) {
                        continue;
                    }
                    if *tol < 0.0 && (sc.prob.n < 2 || fi != 0 || mode == Mode::C10) {
                        continue;
                    }
                    let mut cfg = scene_cfg(*m, &sc, tol.abs());
                    if *tol < 0.0 {
                        let r: Vec<f64> = (0..sc.prob.n).map(|i| tol.abs() * 10f64.powi(-(i as i32))).collect();
                        cfg.atol = crate::run::Tol::V(r.iter().map(|v| v * 1e-2).collect());
                        cfg.rtol = crate::run::Tol::V(r);
                    }
                    if let Some(f) = fs {
                        cfg.first_step = Some(if *f < 0.0 { -f * (sc.xend - sc.x0).signum() } else { f * (sc.xend - sc.x0) });
                    }
                    let plain = match plain_run(&sc.prob, &cfg) {
                        Some(p) => p,
                        None => {
                            rep.machinery_errors.push(format!("plain run failed for {} {}", mname(*m), sc.name));
                            continue;
                        }
                    };
                    // the accepted endpoints, seen through the low-level solver's own callbacks
                    let low = crate::run::run_lowlevel(&sc.prob, &cfg, &[], &[], None, false);
                    let grid: Vec<(f64, Vec<f64>)> = low.recs.iter().map(|q| (q.x, q.y.clone())).collect();
                    if low.ok().is_none() || grid.len() < 2 {
                        rep.machinery_errors.push(format!("low-level grid run failed for {} {}", mname(*m), sc.name));
                        continue;
                    }
                    // placements are made relative to the real accepted grid
                    let plain = Plain { xs: grid.iter().map(|g| g.0).collect(), ys: grid.iter().map(|g| g.1.clone()).collect(), run: plain.run };
                    let cases = ev_cases(&plain, sc.prob.n == 2, thorough);
                    let ymax = plain.ys.iter().flat_map(|y| y.iter()).fold(0.0f64, |a, b| a.max(b.abs()));
                    let mut dymax: f64 = 0.0;
                    let mut d = vec![0.0; sc.prob.n];
                    for (t, y) in plain.xs.iter().zip(plain.ys.iter()) {
                        (sc.prob.f)(*t, y, &mut d);
                        dymax = d.iter().fold(dymax, |a, b| a.max(b.abs()));
                    }
                    ctxs.push(Ctx { key: format!("{}:{}.{}.{}.{}.{}", id.to_lowercase(), mi, backward as u8, si, ti, fi), method: *m, backward, cfg, prob: sc.prob.clone(), plain, cases, ymax: ymax * 1.2, dymax: dymax * 1.5, grid });
                  }
                }
            }
        }
    }
    let mut groups = vec![];
    for cx in &ctxs {
        // enumerate the jobs of this context
        let mut jobs: Vec<(String, usize, usize, usize, bool, bool)> = vec![];
        for (ci, ec) in cx.cases.iter().enumerate() {
            match mode {
                Mode::C08 | Mode::C09 => {
                    jobs.push((format!("{}:{}", cx.key, ci), ci, 0, 0, false, false))
                }
                Mode::C10 => {
                    // reduced lattice for the differential: scale 1 only
                    if ec.specs[0].scale != 1.0 || ec.specs.iter().any(|e| e.terminal.is_some()) {
                        continue;
                    }
                    if !thorough && ec.specs.len() == 1 && ec.specs[0].dir != Direction::All && !matches!(ec.specs[0].kind, EvKind::Cos(_) | EvKind::Sin(_) | EvKind::Y0Y1) {
                        continue;
                    }
                    for tj in 0..ec.specs.len() {
                        for count in 1..=3usize {
                            for with_teval in [false, true] {
                                for dense in [false, true] {
                                    jobs.push((format!("{}:{}.{}.{}.{}.{}", cx.key, ci, tj, count, with_teval as u8, dense as u8), ci, tj, count, with_teval, dense));
                                }
                            }
                        }
                    }
                }
            }
        }
        groups.push(json!({"group": cx.key, "method": mname(cx.method), "backward": cx.backward, "problem": cx.prob.name, "rtol": cx.cfg.rtol.json(), "event_configurations": cx.cases.len(), "runs": jobs.len(), "grid_steps": cx.plain.nsteps()}));
        let outs = par_map(jobs.len(), |i| {
            let (key, ci, tj, count, te, de) = &jobs[i];
            if let Some(o) = &only {
                if o != key {
                    return None;
                }
            }
            Some(match mode {
                Mode::C10 => run_case_c10(cx, key, &cx.cases[*ci], *tj, *count, *te, *de),
                m => run_case_c0809(cx, key, &cx.cases[*ci], m),
            })
        });
        rep.absorb(outs.into_iter().flatten().collect());
    }
    if mode == Mode::C08 {
        // the degenerate zero-length run: one (empty) list per event function, whatever the dimension
        for m in M6 {
            for (pi, p) in [crate::problems::base(crate::problems::Base::Harmonic(1.0)), crate::problems::base(crate::problems::Base::Decay(-1.0)), crate::problems::base(crate::problems::Base::Lin3)].iter().enumerate() {
                for nev in 1..=4usize {
                    let key = format!("zero:{}.{}.{}", mname(m), pi, nev);
                    if only.as_ref().map(|o| *o != key).unwrap_or(false) {
                        continue;
                    }
                    let mut c = Cfg::new(m, 0.5, 0.5, &p.y0);
                    c.events = (0..nev).map(|k| EventSpec::new(EvKind::T(0.5 + k as f64))).collect();
                    let r = run(p, &c);
                    rep.evaluations += 1;
                    rep.transitions += 1;
                    match r.sol() {
                        Some(s) => {
                            if s.t_events.len() != nev || s.y_events.len() != nev {
                                rep.violations.push(Violation::new(&key, "shape", format!("zero-length run with {} event functions on a {}-dimensional problem: t_events has {} lists, y_events {}", nev, p.n, s.t_events.len(), s.y_events.len()), json!({"key": key})).with("method", mname(m)));
                            }
                            *rep.tags.entry("zero-length-shapes".into()).or_insert(0) += 1;
                        }
                        None => rep.violations.push(Violation::new(&key, "outcome", format!("zero-length run ended with {}", r.outcome_name()), json!({"key": key})).with("method", mname(m))),
                    }
                }
            }
        }
    }
    if mode == Mode::C08 {
        // the other degenerate case: a problem without state components (y0 = []) and time-only event functions,
        // over a real interval: still one list per event function on both sides
        let empty = crate::problems::Prob { name: "no state components".into(), n: 0, f: std::sync::Arc::new(|_t, _y, _d| {}), jac: None, flow: None, y0: vec![], linear_homogeneous: true };
        for m in M6 {
            for nev in 1..=3usize {
                let key = format!("emptystate:{}.{}", mname(m), nev);
                if only.as_ref().map(|o| *o != key).unwrap_or(false) {
                    continue;
                }
                let mut c = Cfg::new(m, 0.0, 1.0, &empty.y0);
                c.events = (0..nev).map(|k| EventSpec::new(EvKind::T(0.3 + 0.2 * k as f64))).collect();
                let r = run(&empty, &c);
                rep.evaluations += 1;
                rep.transitions += 1;
                match &r.out {
                    Outcome::Ok(s) => {
                        if s.t_events.len() != nev || s.y_events.len() != nev || s.t_events.iter().zip(&s.y_events).any(|(a, b)| a.len() != b.len()) {
                            rep.violations.push(Violation::new(&key, "shape", format!("{} event functions on a problem without state components: t_events has {} lists, y_events {}", nev, s.t_events.len(), s.y_events.len()), json!({"key": key})).with("method", mname(m)));
                        }
                        *rep.tags.entry("empty-state-shapes".into()).or_insert(0) += 1;
                    }
                    // (an Err for the empty state is an answer too; a panic is not)
                    Outcome::Panic(msg) => rep.violations.push(Violation::new(&key, "outcome", format!("empty state: panicked: {}", msg), json!({"key": key})).with("method", mname(m))),
                    _ => {}
                }
            }
        }
    }
    if mode == Mode::C10 || mode == Mode::C08 {
        // the EventConfig setters: every sequence of up to three calls leaves the documented state
        // ("terminal(): turn on termination after the first occurrence", the last call wins)
        #[derive(Clone, Copy, Debug)]
        enum Call {
            Term,
            Count(usize),
            Dir(Direction),
            All,
            Pos,
            Neg,
        }
        let calls = [Call::Term, Call::Count(2), Call::Count(5), Call::Dir(Direction::Negative), Call::All, Call::Pos, Call::Neg];
        let mut seqs: Vec<Vec<Call>> = vec![vec![]];
        for len in 1..=3 {
            let prev: Vec<Vec<Call>> = seqs.iter().filter(|q| q.len() == len - 1).cloned().collect();
            for q in prev {
                for c in calls {
                    let mut w = q.clone();
                    w.push(c);
                    seqs.push(w);
                }
            }
        }
        {
            // an event left at its Default configuration is an event configured with new(): not terminal, all directions
            let (d, n) = (EventConfig::default(), EventConfig::new());
            rep.evaluations += 1;
            let key = "eventconfig:default".to_string();
            if only.as_ref().map(|o| *o == key).unwrap_or(true) && (d.terminal_count != n.terminal_count || d.direction != n.direction || d.terminal_count.is_some() || d.direction != Direction::All) {
                rep.violations.push(Violation::new(&key, "event-config", format!("EventConfig::default() is (terminal_count {:?}, direction {:?}), EventConfig::new() is ({:?}, {:?}); documented: not terminal, all directions", d.terminal_count, d.direction, n.terminal_count, n.direction), json!({"key": key})));
            }
        }
        for q in &seqs {
            let mut cfg = EventConfig::new();
            let (mut want_t, mut want_d): (Option<usize>, Direction) = (None, Direction::All);
            for c in q {
                match c {
                    Call::Term => {
                        cfg.terminal();
                        want_t = Some(1);
                    }
                    Call::Count(n) => {
                        cfg.terminal_count(*n);
                        want_t = Some(*n);
                    }
                    Call::Dir(d) => {
                        cfg.direction(*d);
                        want_d = *d;
                    }
                    Call::All => {
                        cfg.all();
                        want_d = Direction::All;
                    }
                    Call::Pos => {
                        cfg.positive();
                        want_d = Direction::Positive;
                    }
                    Call::Neg => {
                        cfg.negative();
                        want_d = Direction::Negative;
                    }
                }
            }
            rep.evaluations += 1;
            let key = format!("eventconfig:{:?}", q).replace(' ', "");
            if only.as_ref().map(|o| *o != key).unwrap_or(false) {
                continue;
            }
            let ok_here = if mode == Mode::C10 { cfg.terminal_count == want_t } else { cfg.direction == want_d };
            if !ok_here {
                rep.violations.push(Violation::new(&key, "event-config", format!("after the calls {:?} the configuration is (terminal_count {:?}, direction {:?}), expected ({:?}, {:?})", q, cfg.terminal_count, cfg.direction, want_t, want_d), json!({"key": key})));
            }
        }
    }
    if mode == Mode::C09 {
        // spans below every absolute time constant of the library (3e-13, 4e-14), x0 = 0: the single root of a
        // +-(t - c) function in the middle of the span is one event, located inside the span
        for m in M6 {
            for span in [3e-13, 4e-14] {
                for backward in [false, true] {
                    for neg in [false, true] {
                        let key = format!("tinyspan:{}:{:e}:{}:{}", mname(m), span, backward as u8, neg as u8);
                        if only.as_ref().map(|o| *o != key).unwrap_or(false) {
                            continue;
                        }
                        let p0 = crate::problems::timescale(&crate::problems::base(crate::problems::Base::Harmonic(1.0)), 1e13);
                        let p = if backward { crate::problems::reflect(&p0) } else { p0 };
                        let xend = if backward { -span } else { span };
                        let c_root = 0.43 * xend;
                        let mut c = Cfg::new(m, 0.0, xend, &p.y0).tol(1e-6, 1e-8);
                        c.events = vec![EventSpec::new(if neg { EvKind::NegT(c_root) } else { EvKind::T(c_root) })];
                        let r = run(&p, &c);
                        rep.evaluations += 1;
                        rep.transitions += r.st.n_ode;
                        match r.sol() {
                            Some(s) if s.status == Status::Success => {
                                let ev = &s.t_events[0];
                                let inside = ev.iter().all(|t| (t - 0.0) * xend.signum() >= 0.0 && (xend - t) * xend.signum() >= 0.0);
                                if ev.len() != 1 || !inside {
                                    rep.violations.push(Violation::new(&key, "tiny-span-event", format!("{} on [0,{:e}] with g = {}(t - {:e}): events {:?} (expected one, inside the span)", mname(m), xend, if neg { "-" } else { "" }, c_root, ev), json!({"key": key})).with("method", mname(m)));
                                }
                                rep.validated += 1;
                                *rep.tags.entry("tiny-span-event".into()).or_insert(0) += 1;
                            }
                            _ => rep.violations.push(Violation::new(&key, "outcome", format!("{} on [0,{:e}] with one event function ended with {}", mname(m), xend, r.outcome_name()), json!({"key": key})).with("method", mname(m))),
                        }
                    }
                }
            }
        }
        // the integer conversion of the direction filter (SciPy style): the sign decides, not the value
        for k in -3i32..=3 {
            let want = if k > 0 { Direction::Positive } else if k < 0 { Direction::Negative } else { Direction::All };
            let got = Direction::from(k);
            rep.evaluations += 1;
            if got != want {
                let key = format!("direction-from:{}", k);
                rep.violations.push(Violation::new(&key, "direction-conversion", format!("Direction::from({}) is {:?}, expected {:?}", k, got, want), json!({"key": key})));
            }
        }
    }
    // far from the time origin, and in units where the roots are closer together than any absolute time constant:
    // whatever is compared with an absolute number, or converted to an integer, breaks here
    if mode == Mode::C09 || mode == Mode::C08 {
        let dec = crate::problems::base(crate::problems::Base::Decay(-0.05));
        for m in M6 {
            for backward in [false, true] {
                let dirn = if backward { -1.0 } else { 1.0 };
                let p = if backward { crate::problems::reflect(&dec) } else { dec.clone() };
                if mode == Mode::C09 {
                    // (a) sign changes of one function every two steps: at the origin 1e12 (steps of 2.5e-4, two ulps),
                    // and in picoseconds at the origin 0 (steps of 3e-13); one event per sign change between samples
                    for (si, (o, h, nst, w)) in [(1e12, 2.5e-4, 80.0, std::f64::consts::PI / 5e-4), (0.0, 3e-13, 40.0, 2.5e12)].iter().enumerate() {
                        let key = format!("crossings-far:{}:{}:{}", mname(m), si, backward as u8);
                        if only.as_ref().map(|k| *k != key).unwrap_or(false) {
                            continue;
                        }
                        if si == 0 && m != Method::RK4 {
                            // (the error-controlled methods refuse steps below ten ulps of x - StepSizeTooSmall - which is what
                            // two ulps are; the fixed-step method takes them)
                            continue;
                        }
                        let (x0, xend) = (dirn * o, dirn * o + dirn * h * nst);
                        let mut c = Cfg::new(m, x0, xend, &p.y0).tol(1e-6, 1e-8);
                        c.first_step = Some(dirn * h);
                        c.max_step = Some(*h);
                        let spec = EventSpec::new(EvKind::SinAt(*w, x0));
                        c.events = vec![spec.clone()];
                        let r = run(&p, &c);
                        rep.evaluations += 1;
                        rep.transitions += r.st.n_ode;
                        match r.sol() {
                            Some(s) if s.status == Status::Success => {
                                let gs: Vec<f64> = s.t.iter().zip(&s.y).map(|(t, y)| spec.g(*t, y)).collect();
                                let changes = gs.windows(2).filter(|w| (w[0] < 0.0 && w[1] >= 0.0) || (w[0] > 0.0 && w[1] <= 0.0)).count();
                                let ev = &s.t_events[0];
                                if ev.len() != changes {
                                    rep.violations.push(Violation::new(&key, "crossings-far", format!("{} on [{:e}, {:e}] in steps of {:e}: g = sin(w (t - x0) + 0.3) changes sign between consecutive samples {} times, {} events are reported", mname(m), x0, xend, h, changes, ev.len()), json!({"key": key})).with("method", mname(m)));
                                }
                                rep.validated += 1;
                                if changes >= 10 {
                                    *rep.tags.entry("crossings-far".into()).or_insert(0) += 1;
                                }
                            }
                            _ => rep.violations.push(Violation::new(&key, "outcome", format!("{} on [{:e}, {:e}] in steps of {:e} with one event function ended with {}", mname(m), x0, xend, h, r.outcome_name()), json!({"key": key})).with("method", mname(m))),
                        }
                    }
                    // (b) a single root in the last ulps before xend, steps of 2^-10 on [1e9, 1e9 + 1]
                    for back_ulps in [1u32, 3, 6] {
                        let key = format!("root-before-xend:{}:{}:{}", mname(m), back_ulps, backward as u8);
                        if only.as_ref().map(|k| *k != key).unwrap_or(false) {
                            continue;
                        }
                        // (for the larger two the interval is three ulps longer than 1024 steps: the regular steps end three ulps
                        // before xend and the root lies in the sliver that is left)
                        let x0: f64 = dirn * 1e9;
                        let mut xend: f64 = dirn * 1e9 + dirn;
                        if back_ulps > 1 {
                            xend = f64::from_bits(xend.to_bits() + 3);
                        }
                        let back_ulps = if back_ulps > 1 { back_ulps / 3 } else { 1 };
                        let mut root = xend;
                        for _ in 0..back_ulps {
                            root = f64::from_bits(root.to_bits() - 1);
                        }
                        let mut c = Cfg::new(m, x0, xend, &p.y0).tol(1e-6, 1e-8);
                        c.first_step = Some(dirn / 1024.0);
                        c.max_step = Some(1.0 / 1024.0);
                        c.events = vec![EventSpec::new(EvKind::T(root))];
                        let r = run(&p, &c);
                        rep.evaluations += 1;
                        rep.transitions += r.st.n_ode;
                        let ok = r.sol().map(|s| s.status == Status::Success && s.t_events[0].len() == 1 && (s.t_events[0][0] - root).abs() <= 8.0 * f64::EPSILON * 1e9).unwrap_or(false);
                        if !ok {
                            rep.violations.push(Violation::new(&key, "root-before-xend", format!("{} on [{:e}, {:?}] in steps of 2^-10, g = t - c with c {} ulps before xend: {} with events {:?}", mname(m), x0, xend, back_ulps, r.outcome_name(), r.sol().map(|s| s.t_events[0].clone())), json!({"key": key})).with("method", mname(m)));
                        }
                        rep.validated += 1;
                        *rep.tags.entry("root-before-xend".into()).or_insert(0) += 1;
                    }
                } else {
                    // (c) two functions with roots in one step at the origin 1e10, the earlier one terminal, in both index
                    // orders: the run stops at the earlier root and nothing later is recorded
                    for swap in [false, true] {
                        let key = format!("terminal-far:{}:{}:{}", mname(m), backward as u8, swap as u8);
                        if only.as_ref().map(|k| *k != key).unwrap_or(false) {
                            continue;
                        }
                        let o = 1e10;
                        let (x0, xend) = (dirn * o, dirn * o + dirn * 2.0);
                        let (early, late) = (x0 + dirn * 0.5625, x0 + dirn * 0.6875);
                        let mut c = Cfg::new(m, x0, xend, &p.y0).tol(1e-6, 1e-8);
                        c.first_step = Some(dirn * 0.25);
                        c.max_step = Some(0.25);
                        let e_t = EventSpec::new(EvKind::T(early)).term(1);
                        let e_n = EventSpec::new(EvKind::T(late));
                        c.events = if swap { vec![e_n, e_t] } else { vec![e_t, e_n] };
                        let (it, inn) = if swap { (1, 0) } else { (0, 1) };
                        let r = run(&p, &c);
                        rep.evaluations += 1;
                        rep.transitions += r.st.n_ode;
                        let slack = 8.0 * f64::EPSILON * o;
                        let ok = r
                            .sol()
                            .map(|s| s.status == Status::UserInterrupt && s.t_events[it].len() == 1 && (s.t_events[it][0] - early).abs() <= slack && s.t_events[inn].is_empty() && s.t.last().map(|t| (t - early).abs() <= slack).unwrap_or(false))
                            .unwrap_or(false);
                        if !ok {
                            rep.violations.push(
                                Violation::new(&key, "terminal-far", format!("{} from {:e} in steps of 0.25: a terminal root at {:?} (function {}) and a later root at {:?} (function {}) in one step: {} with t_events {:?}, last sample {:?}", mname(m), x0, early, it, late, inn, r.outcome_name(), r.sol().map(|s| s.t_events.clone()), r.sol().and_then(|s| s.t.last().copied())), json!({"key": key}))
                                    .with("method", mname(m)),
                            );
                        }
                        rep.validated += 1;
                        *rep.tags.entry("terminal-far".into()).or_insert(0) += 1;
                    }
                }
            }
        }
    }
    if only.is_some() {
        for v in &rep.violations {
            println!("replay: VIOLATED [{}]: {}\n{}", v.sig["check"], v.msg, serde_json::to_string_pretty(&v.case).unwrap());
        }
        if rep.violations.is_empty() {
            println!("replay: property holds on this case");
        }
        return if rep.violations.is_empty() { 0 } else { 1 };
    }
    rep.violations.extend(regress::violations_for(id));
    rep.dims = json!({"event_alphabet": "t-c, -(t-c), y0-c (c = plain solution at the placement), y0*y1, cos(3t), sin(9t); scale {1,1e-6}; direction {All,Positive,Negative}; roots at x_k+θh_k (θ=1e-7,1/4,1/2,3/4,1-1e-7) and x_k±1e-9 for the first 4 (quick) / 6 (thorough) steps; pairs/triples of functions firing in one step in both index orders and coincident",
        "groups": groups});
    match mode {
        Mode::C08 => {
            rep.require("event", 1000);
            rep.require("direction-judged", 1000);
            rep.require("terminal-in-multi", 100);
            rep.rule = "two-pass: roots placed relative to the plain run's grid; every event configuration is run (dense output on, t_eval none) and every reported event is checked: bracket, y_e = sol(t_e), |g| <= L(4e-12+8eps|t|), direction at the bracketing endpoints, order, no time reported twice under a direction filter, shapes; non-trivial = run with events completed; distinct = distinct (RHS fingerprint, event times, configuration)".into();
        }
        Mode::C09 => {
            rep.require("sign-change-step", 1000);
            rep.require("several-crossings", 10);
            rep.require("multi-event", 10);
            rep.require("single-root-checked", 100);
            rep.require("exact-zero-crossing", 100);
            rep.require("events-with-t-eval", 1000);
            rep.rule = "same lattice as C08; the event functions are evaluated by the harness at every pair of consecutive accepted endpoints of the run: strict opposite signs in the configured direction <=> exactly one event in that step, same strict sign => none (exact zeros excluded); ±(t-c): exactly one event within 2e-11 of c".into();
        }
        Mode::C10 => {
            rep.require("terminal-stop", 1000);
            rep.require("count-not-reached", 100);
            rep.require("earlier-events-kept", 10);
            rep.rule = "differential: every event configuration (scale 1) is run without a terminal flag and with the flag on each function in turn, count 1..3, t_eval none/13 points, dense off/on; oracle: UserInterrupt iff the count is reached in the plain run, final sample = event point bitwise, nothing later, earlier events kept, everything before the stop bit-identical to the plain run, sol_span covers the last time".into();
        }
    }
    rep.assumptions.push("whether/where events occur is read off the computed trajectory of the run itself (its accepted endpoints and dense output), never the exact solution".into());
    rep.finish()
}
