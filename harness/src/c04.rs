//! C04 — termination and no panic: fault enumeration.
//! Every RHS call index of the nominal run is a decision point; a deviation replaces the
//! truthful answer by NaN / +inf / -inf / 1e300, once or from that call on.  Executions run in
//! child processes under a heartbeat watchdog so that a real hang is a verdict, not a stall.

use crate::c03::monitor;
use crate::problems::Prob;
use crate::regress;
use crate::report::{is_thorough, CaseOut, Report, Violation};
use crate::run::{mname, run_with, run_with2, Cfg, Outcome, M6};
use ivp::prelude::*;
use serde_json::{json, Value};
use std::io::{BufRead, BufReader, Write};
use std::process::{Command, Stdio};
use std::sync::mpsc;
use std::sync::Arc;
use std::time::{Duration, Instant};

const KINDS: [(&str, f64); 4] = [("NaN", f64::NAN), ("+inf", f64::INFINITY), ("-inf", f64::NEG_INFINITY), ("1e300", 1e300)];

fn problem(k: usize, backward: bool) -> (Prob, f64) {
    let s = if backward { -1.0 } else { 1.0 };
    // f_dir(t, y) = s * f(s t, y): the backward variant integrates the reflected problem
    let mk = |name: &str, n: usize, y0: Vec<f64>, f: Arc<dyn Fn(f64, &[f64], &mut [f64]) + Send + Sync>| Prob {
        name: format!("{}{}", name, if backward { " (reflected, backward)" } else { "" }),
        n,
        f: Arc::new(move |t, y, d| {
            f(s * t, y, d);
            for v in d.iter_mut() {
                *v *= s;
            }
        }),
        jac: None,
        flow: None,
        y0,
        linear_homogeneous: false,
    };
    match k {
        0 => (mk("decay", 1, vec![1.0], Arc::new(|_t, y, d| d[0] = -y[0])), 2.0),
        1 => (
            mk("oscillator", 2, vec![1.0, 0.0], Arc::new(|_t, y, d| {
                d[0] = y[1];
                d[1] = -4.0 * y[0];
            })),
            3.0,
        ),
        2 => (mk("blowup y'=y^2", 1, vec![1.0], Arc::new(|_t, y, d| d[0] = y[0] * y[0])), 2.0),
        3 => (mk("blowup y'=1+y^2", 1, vec![0.0], Arc::new(|_t, y, d| d[0] = 1.0 + y[0] * y[0])), 3.0),
        4 => (mk("stiff decay 1e4", 1, vec![0.0], Arc::new(|t, y, d| d[0] = -1e4 * (y[0] - t.cos()))), 0.05),
        // resonances: a first step for which the iteration matrix of the first attempt is exactly
        // singular in floating point (BDF: I - (h/1.185) J with h = 1.185, J = 1; Radau:
        // (U1/h) I - J with h = 1, J = U1): the retry has to change something
        7 => (mk("growth y'=y (BDF resonance h=1.185)", 1, vec![1.0], Arc::new(|_t, y, d| d[0] = y[0])), 2.0),
        8 => {
            let mut p = mk("growth y'=U1*y (Radau resonance h=1)", 1, vec![1.0], Arc::new(|_t, y, d| d[0] = RADAU_U1 * y[0]));
            p.jac = Some(Arc::new(move |_t, _y| vec![s * RADAU_U1]));
            (p, 1.5)
        }
        // an interval shorter than min_step (1e-3): a lower bound on the step that cannot bind
        9 => (mk("decay on an interval of 5e-4", 1, vec![1.0], Arc::new(|_t, y, d| d[0] = -y[0])), 5e-4),
        // a singularity at the end of the interval, approached from a start that is far from it on the scale of
        // the end point: y' = -y/x from x0 = -1 (reflected: +1) into xend = 0, y = -1/x
        10 => (mk("y'=-y/x into the singularity at xend=0", 1, vec![1.0], Arc::new(|t, y, d| d[0] = -y[0] / t)), 1.0),
        // so stiff that only the stiffness detectors of DOPRI5 / DOP853 bound the work (about a thousand steps
        // instead of span * 1e7 / 3.3): they have to work in both directions
        11 => (mk("stiff decay 1e7 (work bounded by the stiffness detector)", 1, vec![0.0], Arc::new(|t, y, d| d[0] = -1e7 * (y[0] - t.cos()))), 1.0),
        // ... and at tight tolerances (rtol 1e-9), where the differences the detectors work with are tiny
        12 => (mk("stiff decay 1e7 at rtol 1e-9 (work bounded by the stiffness detector)", 1, vec![0.0], Arc::new(|t, y, d| d[0] = -1e7 * (y[0] - t.cos()))), 1.0),
        // far from the time origin with a first step below one ulp of x0 (x0 = ±1e9, ulp 1.2e-7, first_step 1e-8):
        // x + h == x, no attempt can make progress; every method has to come back (with a non-success status)
        13 => (mk("decay from x0=1e9 with a first step below ulp(x0)", 1, vec![1.0], Arc::new(|_t, y, d| d[0] = -y[0])), 1.0),
        // a blow-up in the second component under per-component tolerances whose first component is nearly
        // absolute-only (rtol = [1e-10, 1e-6], atol = [1, 1e-9]): the weak component must not set the scale for both
        14 => (
            mk("blowup in y1 with per-component tolerances", 2, vec![1.0, 0.0], Arc::new(|_t, y, d| {
                d[0] = -y[0];
                d[1] = 1.0 + y[1] * y[1];
            })),
            2.0,
        ),
        // an upper-bidiagonal linear system solved with the Jacobian storage declared as Banded { ml: 0, mu: 1 }
        // (with an analytic Jacobian: the library's differenced default documents that it does not support banded storage)
        15 => {
            let mut p = mk("upper bidiagonal system, banded Jacobian storage (0,1)", 3, vec![1.0, 0.5, 0.25], Arc::new(|_t, y, d| {
                d[0] = -y[0] + 2.0 * y[1];
                d[1] = -3.0 * y[1] + y[2];
                d[2] = -0.5 * y[2];
            }));
            p.jac = Some(Arc::new(move |_t, _y| vec![-s, 2.0 * s, 0.0, 0.0, -3.0 * s, s, 0.0, 0.0, -0.5 * s]));
            (p, 2.0)
        }
        // an interval of 1e-5 straddling 2^30, where the spacing of the doubles doubles (1.2e-7 -> 2.4e-7): RK4's default
        // step span/100 = 1e-7 is above half an ulp before 2^30 and below it afterwards - progress stops part-way
        16 => (mk("decay across x = 2^30 on an interval of 1e-5", 1, vec![1.0], Arc::new(|_t, y, d| d[0] = -y[0])), 1e-5),
        5 => (mk("rhs discontinuous in t", 1, vec![1.0], Arc::new(|t, y, d| d[0] = -y[0] + if t > 0.7 { 5.0 } else { 0.0 })), 2.0),
        _ => (mk("rhs discontinuous in y", 1, vec![0.0], Arc::new(|_t, y, d| d[0] = if y[0] > 0.5 { -2.0 } else { 1.0 })), 1.0),
    }
}
const NPROB: usize = 17;
/// real eigenvalue of the inverse Radau IIA matrix as written in radau.rs (the resonance scene is
/// only a scene: if the constant differed the run would simply not meet a singular matrix)
const RADAU_U1: f64 = 3.637_834_252_744_496;

#[derive(Clone, Debug)]
struct Base {
    method: Method,
    prob: usize,
    backward: bool,
    max_steps: Option<usize>,
    min_step: Option<f64>,
    /// first_step option (absolute length; the sign follows the direction)
    first_step: Option<f64>,
    /// 8 requested times (two of them an ulp apart) and dense output (values then come from the step interpolants)
    teval: bool,
    /// four event functions (more than state components), one of them terminal with count 2
    events: bool,
}

fn bases() -> Vec<Base> {
    let mut v = vec![];
    for m in M6 {
        for p in 0..NPROB {
            if (p == 11 || p == 12) && !matches!(m, Method::DOPRI5 | Method::DOP853) {
                // without a stiffness detector the work is legitimately millions of steps (RK23 by stability, the
                // implicit methods when the differenced Jacobian is made useless by the injected answers: measured
                // 5.4e6 accepted steps, 1e8 calls, Success) - bounded, but beyond this check's budget of 1e6 calls
                continue;
            }
            for backward in [false, true] {
                for max_steps in [None, Some(40)] {
                    // (a min_step above the given first step would be a contradictory configuration: not for problem 13)
                    let mins: Vec<Option<f64>> = if crate::run::is_implicit(m) && p != 13 && p != 16 { vec![None, Some(1e-3)] } else { vec![None] };
                    for min_step in mins {
                        let span = problem(p, backward).1;
                        // automatic initial step; a first step of twice the interval (the solver trims
                        // it: the first attempt already reaches for xend); the resonant lengths
                        let fss: Vec<Option<f64>> = match p {
                            7 => vec![Some(1.185), Some(1.185 / 2.0)],
                            8 => vec![Some(1.0), Some(0.5)],
                            13 => vec![Some(1e-8), None],
                            16 => vec![None],
                            _ => vec![None, Some(2.0 * span)],
                        };
                        let mut fss = fss;
                        if p == 0 && max_steps.is_some() {
                            // a first step that is minute relative to the interval (1e-30 of it), under a step budget
                            fss.push(Some(1e-30 * span));
                        }
                        for first_step in fss {
                            v.push(Base { method: m, prob: p, backward, max_steps, min_step, first_step, teval: false, events: false });
                        }
                        if p < 7 && min_step.is_none() {
                            v.push(Base { method: m, prob: p, backward, max_steps, min_step, first_step: None, teval: true, events: false });
                            v.push(Base { method: m, prob: p, backward, max_steps, min_step, first_step: None, teval: false, events: true });
                        }
                    }
                }
            }
        }
    }
    v
}

#[derive(Clone, Debug)]
struct Fault {
    at: u64,
    kind: usize,
    persistent: bool,
    /// the fault hits an RHS call made while the finite-difference Jacobian is formed
    in_jac: bool,
}

fn cfg_of(b: &Base) -> (Prob, Cfg) {
    let (p, t) = problem(b.prob, b.backward);
    let xend = if b.backward { -t } else { t };
    let mut c = Cfg::new(b.method, 0.0, xend, &p.y0).tol(1e-4, 1e-6);
    if b.prob == 12 {
        c = c.tol(1e-9, 1e-11);
    }
    if b.prob == 15 {
        c.jac_storage = ivp::matrix::MatrixStorage::Banded { ml: 0, mu: 1 };
    }
    if b.prob == 14 {
        c.rtol = crate::run::Tol::V(vec![1e-10, 1e-6]);
        c.atol = crate::run::Tol::V(vec![1.0, 1e-9]);
    }
    if b.prob == 13 {
        c.x0 = if b.backward { -1e9 } else { 1e9 };
        c.xend = c.x0 + xend;
    }
    if b.prob == 16 {
        let o = 1073741824.0 - 5e-6;
        c.x0 = if b.backward { -o } else { o };
        c.xend = c.x0 + xend;
    }
    if b.prob == 10 {
        c.x0 = -xend;
        c.xend = 0.0;
    }
    c.max_steps = b.max_steps;
    c.min_step = b.min_step;
    c.first_step = b.first_step.map(|h| if b.backward { -h } else { h });
    c.user_jac = p.jac.is_some();
    if b.events {
        use crate::env::{EvKind, EventSpec};
        c.events = vec![
            EventSpec::new(EvKind::T(0.31 * xend)),
            EventSpec::new(EvKind::Y(0, 0.5 * p.y0[0] + 0.3)).term(2),
            EventSpec::new(EvKind::Cos(5.0)),
            EventSpec::new(EvKind::T(0.33 * xend)).dir(Direction::Negative),
        ];
    }
    if b.teval {
        // (two of the requested times are one ulp apart: a valid, strictly monotone list)
        let mut te: Vec<f64> = (0..=6).map(|i| xend * i as f64 / 6.0).collect();
        te.insert(4, te[3] * (1.0 + f64::EPSILON));
        c.t_eval = Some(te);
        c.dense = true;
    }
    c.budget = std::env::var("VERIF_C04_BUDGET").ok().and_then(|v| v.parse().ok()).unwrap_or(1_000_000);
    (p, c)
}

fn exec(b: &Base, faults: &[Fault], key: &str) -> CaseOut {
    let (p, c) = cfg_of(b);
    let fl: Vec<Fault> = faults.iter().filter(|f| !f.in_jac).cloned().collect();
    let fj: Vec<Fault> = faults.iter().filter(|f| f.in_jac).cloned().collect();
    let ans = move |i: u64, _t: f64, _y: &[f64], d: &mut [f64]| {
        for f in &fl {
            if i == f.at || (f.persistent && i >= f.at) {
                for v in d.iter_mut() {
                    *v = KINDS[f.kind].1;
                }
            }
        }
    };
    let ansj = move |i: u64, _t: f64, _y: &[f64], d: &mut [f64]| {
        for f in &fj {
            if i == f.at || (f.persistent && i >= f.at) {
                for v in d.iter_mut() {
                    *v = KINDS[f.kind].1;
                }
            }
        }
    };
    let r = if faults.is_empty() { run_with(&p, &c, None, None) } else { run_with2(&p, &c, Some(&ans), Some(&ansj), None) };
    let mut out = CaseOut::default();
    let fdesc: Vec<Value> = faults.iter().map(|f| json!({"at_call": f.at, "answer": KINDS[f.kind].0, "persistent": f.persistent, "during_jacobian_differencing": f.in_jac})).collect();
    let desc = json!({"key": key, "cfg": c.json(&p.name), "faults": fdesc, "outcome": r.outcome_name(), "rhs_calls": r.st.n_ode});
    if std::env::var("VERIF_DEBUG").is_ok() {
        println!("DBG c04 {} outcome {} rhs {} jac-rhs {} njac {} t in [{:e},{:e}] sol {:?}", key, r.outcome_name(), r.st.n_ode, r.st.n_ode_in_jac, r.st.n_jac, r.st.tmin, r.st.tmax, r.sol().map(|s| (s.status, s.t.len(), s.t.last().copied(), s.nstep, s.naccpt, s.nrejct, s.njev, s.nlu)));
    }
    let mut vs: Vec<(String, String)> = vec![];
    let mut tags = vec![];
    match &r.out {
        Outcome::Budget => vs.push(("no-return".into(), "more than 10^6 RHS calls without returning".into())),
        Outcome::Panic(m) => vs.push(("panic".into(), format!("solve_ivp panicked: {}", m))),
        Outcome::Err(_) => tags.push("err"),
        Outcome::Ok(s) => {
            // the same well-formedness monitor as C03 (prefix ordering, shapes, status <=> coverage);
            // with non-finite answers the RHS call times themselves can be non-finite, so the
            // call-range clause is only kept for fault-free runs.
            let mut mv = vec![];
            monitor(&c, &r, p.n, b.events, &mut mv, &mut tags);
            for (k, m) in mv {
                if !faults.is_empty() && (k == "call-range") {
                    continue;
                }
                if k == "nonfinite" {
                    continue; // reported below with the fault in the signature
                }
                if b.prob == 10 && k == "covered-not-success" {
                    // the accepted samples approach xend = 0 geometrically (to 1e-100 and closer) without the
                    // run ever being able to cover the interval: "at xend to rounding of the interval's scale"
                    // is not coverage here, and the non-success status is the honest one
                    continue;
                }
                vs.push((format!("prefix:{}", k), m));
            }
            if s.status == Status::Success && c.method != Method::RK4 && faults.is_empty() && matches!(b.prob, 2 | 3 | 10 | 14) {
                vs.push(("success-through-singularity".into(), format!("the solution does not exist up to xend, yet the run is reported as Success (last sample t = {:e}, y = {:?})", s.t.last().copied().unwrap_or(f64::NAN), s.y.last())));
            }
            if s.status == Status::Success && c.method != Method::RK4 {
                let bad = s.y.iter().any(|row| row.iter().any(|x| !x.is_finite())) || s.t.iter().any(|x| !x.is_finite());
                if bad {
                    vs.push(("success-nonfinite".into(), "Success reported with non-finite states".into()));
                }
            }
            match s.status {
                Status::StepSizeTooSmall => tags.push("step-size-too-small"),
                Status::SingularMatrix => tags.push("newton-failure"),
                Status::NeedLargerNMax => tags.push("budget-exhausted"),
                Status::ProbablyStiff => tags.push("probably-stiff"),
                _ => {}
            }
            if s.nrejct > 0 {
                tags.push("rejection");
            }
        }
    }
    for (k, m) in vs {
        out.violations.push(
            Violation::new(key, &k, m, desc.clone())
                .with("method", mname(c.method))
                .with("problem", p.name.split(" (").next().unwrap_or(""))
                .with("min_step", b.min_step.is_some())
                .with("faults", faults.len()),
        );
    }
    for t in tags {
        out.tag(t);
    }
    out.events = r.st.n_ode + r.st.n_jac;
    out.validated = 1;
    let mut h = r.st.fp;
    h.s(&r.outcome_name());
    out.fp = Some(h.as_u128());
    out.sample = Some(desc);
    out
}

fn key_of(bi: usize, fs: &[Fault]) -> String {
    format!("c04:{}:{}", bi, fs.iter().map(|f| format!("{}.{}.{}.{}", f.at, f.kind, f.persistent as u8, f.in_jac as u8)).collect::<Vec<_>>().join(","))
}

/// deterministic enumeration of the fault sets of one base configuration
fn fault_sets(b: &Base, thorough: bool) -> Vec<Vec<Fault>> {
    let (p, c) = cfg_of(b);
    let nominal = run_with(&p, &c, None, None);
    let l_full = nominal.st.n_ode;
    if b.prob == 10 && b.max_steps.is_none() {
        // tens of thousands of ever shorter steps before the solver gives up: the fault-free run only
        return vec![vec![]];
    }
    let cap1 = if thorough { 4000 } else { 150 };
    let l1 = l_full.min(cap1);
    let mut v = vec![vec![]];
    for kind in 0..KINDS.len() {
        for persistent in [false, true] {
            for k in 0..l1 {
                v.push(vec![Fault { at: k, kind, persistent, in_jac: false }]);
            }
        }
    }
    // faults hitting the RHS calls of the finite-difference Jacobian (implicit methods)
    let lj = nominal.st.n_ode_in_jac.min(if thorough { 1000 } else { 60 });
    for kind in 0..KINDS.len() {
        for persistent in [false, true] {
            for k in 0..lj {
                v.push(vec![Fault { at: k, kind, persistent, in_jac: true }]);
            }
        }
    }
    if thorough {
        // d = 2: a second one-shot fault at every later index (first 40 indices, NaN and +inf)
        let l2 = l_full.min(40);
        for k1 in 0..l2 {
            for k2 in (k1 + 1)..l2 {
                for (a, bk) in [(0usize, 0usize), (0, 1), (1, 0), (3, 0)] {
                    v.push(vec![Fault { at: k1, kind: a, persistent: false, in_jac: false }, Fault { at: k2, kind: bk, persistent: false, in_jac: false }]);
                }
            }
        }
    }
    v
}

fn worker(i: usize, of: usize, after: Option<(usize, usize)>) -> i32 {
    let thorough = is_thorough();
    let bs = bases();
    let stdout = std::io::stdout();
    for (bi, b) in bs.iter().enumerate() {
        if bi % of != i {
            continue;
        }
        if let Some((ab, _)) = after {
            if bi < ab {
                continue;
            }
        }
        if let Some((ab, ae)) = after {
            if bi == ab && ae == usize::MAX {
                continue; // the fault-free run of this base configuration did not return
            }
        }
        {
            // the fault-free run (made while the fault sets are enumerated) is execution 0: watched too
            let mut o = stdout.lock();
            let _ = writeln!(o, "S {} {} {}", bi, 0, key_of(bi, &[]));
            let _ = o.flush();
        }
        let sets = fault_sets(b, thorough);
        for (e, fs) in sets.iter().enumerate() {
            if let Some((ab, ae)) = after {
                if bi == ab && e <= ae {
                    continue;
                }
            }
            {
                let mut o = stdout.lock();
                let _ = writeln!(o, "S {} {} {}", bi, e, key_of(bi, fs));
                let _ = o.flush();
            }
            let key = key_of(bi, fs);
            let mut out = exec(b, fs, &key);
            if e % 499 != 0 {
                out.sample = None; // keep the parent small: a few written-out samples are enough
            }
            let mut o = stdout.lock();
            let _ = writeln!(o, "D {} {} {}", bi, e, out.to_json());
            let _ = o.flush();
        }
    }
    let mut o = stdout.lock();
    let _ = writeln!(o, "E");
    0
}

/// messages carry the generation of the child that sent them: a killed child's reader thread
/// reports its end of stream after the replacement has been started
enum Msg {
    Line(usize, usize, String),
    Closed(usize, usize),
}

pub fn run_check(args: &[String], replay: Option<Value>) -> i32 {
    // worker mode
    if let Some(p) = args.iter().position(|a| a == "--worker") {
        let i: usize = args[p + 1].parse().unwrap();
        let of: usize = args[p + 2].parse().unwrap();
        let after = args.iter().position(|a| a == "--after").map(|q| {
            let mut it = args[q + 1].split(':');
            (it.next().unwrap().parse().unwrap(), it.next().unwrap().parse().unwrap())
        });
        return worker(i, of, after);
    }
    let mut rep = Report::new("C04", "fault_enumeration");
    let thorough = is_thorough();
    if let Some(case) = replay {
        let key = case["key"].as_str().unwrap_or("");
        let mut it = key.split(':').skip(1);
        let bi: usize = it.next().unwrap().parse().unwrap();
        let fs: Vec<Fault> = it
            .next()
            .unwrap_or("")
            .split(',')
            .filter(|s| !s.is_empty())
            .map(|s| {
                let p: Vec<&str> = s.split('.').collect();
                Fault { at: p[0].parse().unwrap(), kind: p[1].parse().unwrap(), persistent: p[2] == "1", in_jac: p.get(3).map(|x| *x == "1").unwrap_or(false) }
            })
            .collect();
        let b = &bases()[bi];
        let sets = vec![fs];
        let e = 0;
        println!("replay: base {:?}\n        faults {:?}", b, sets[e]);
        // the replay runs under the same budgets: 10^6 RHS calls, and 20 s of wall-clock time
        let (txr, rxr) = mpsc::channel();
        {
            let (b, fs, key) = (b.clone(), sets[e].clone(), key.to_string());
            std::thread::spawn(move || {
                let _ = txr.send(exec(&b, &fs, &key));
            });
        }
        let out = match rxr.recv_timeout(Duration::from_secs(20)) {
            Ok(o) => o,
            Err(_) => {
                println!("replay: VIOLATED [hang]: no return within 20 s of wall-clock time");
                std::process::exit(1);
            }
        };
        for v in &out.violations {
            println!("replay: VIOLATED [{}]: {}", v.sig["check"], v.msg);
        }
        if out.violations.is_empty() {
            println!("replay: property holds on this case");
        }
        return if out.violations.is_empty() { 0 } else { 1 };
    }

    let nw = crate::util::workers();
    let exe = std::env::current_exe().expect("own path");
    let (tx, rx) = mpsc::channel::<Msg>();
    let generation = std::cell::Cell::new(0usize);
    let current: std::cell::RefCell<Vec<usize>> = std::cell::RefCell::new(vec![0; nw]);
    let spawn = |i: usize, after: Option<(usize, usize)>, tx: mpsc::Sender<Msg>| {
        let gen = generation.get() + 1;
        generation.set(gen);
        current.borrow_mut()[i] = gen;
        let mut cmd = Command::new(&exe);
        cmd.arg("C04").arg("--worker").arg(i.to_string()).arg(nw.to_string());
        if let Some((b, e)) = after {
            cmd.arg("--after").arg(format!("{}:{}", b, e));
        }
        let mut child = cmd.stdout(Stdio::piped()).stderr(Stdio::null()).spawn().expect("cannot spawn worker");
        let so = child.stdout.take().unwrap();
        std::thread::spawn(move || {
            for line in BufReader::new(so).lines() {
                match line {
                    Ok(l) => {
                        if tx.send(Msg::Line(i, gen, l)).is_err() {
                            break;
                        }
                    }
                    Err(_) => break,
                }
            }
            let _ = tx.send(Msg::Closed(i, gen));
        });
        child
    };
    let mut children: Vec<Option<std::process::Child>> = (0..nw).map(|i| Some(spawn(i, None, tx.clone()))).collect();
    let mut in_flight: Vec<Option<(usize, usize)>> = vec![None; nw];
    let mut in_flight_key: Vec<String> = vec![String::new(); nw];
    let mut last_seen: Vec<Instant> = vec![Instant::now(); nw];
    let mut finished = vec![false; nw];
    let mut outs: Vec<(usize, usize, CaseOut)> = vec![];
    let stall = Duration::from_secs(20);
    let mut hangs = 0;
    let mut n_viol = 0usize;
    while finished.iter().any(|f| !f) {
        if n_viol >= 200 {
            // a broken tree can make thousands of executions burn their whole budget: stop early
            for c in children.iter_mut() {
                if let Some(mut ch) = c.take() {
                    let _ = ch.kill();
                    let _ = ch.wait();
                }
            }
            rep.caps.push("stopped after 200 violations; remaining executions not run".into());
            break;
        }
        match rx.recv_timeout(Duration::from_millis(500)) {
            Ok(Msg::Line(i, g, _)) | Ok(Msg::Closed(i, g)) if g != current.borrow()[i] => {
                let _ = i; // a message of a child that has been replaced
            }
            Ok(Msg::Line(i, _, l)) => {
                last_seen[i] = Instant::now();
                if let Some(rest) = l.strip_prefix("S ") {
                    let mut it = rest.split(' ');
                    in_flight[i] = Some((it.next().unwrap().parse().unwrap(), it.next().unwrap().parse().unwrap()));
                    in_flight_key[i] = it.next().unwrap_or("").to_string();
                } else if let Some(rest) = l.strip_prefix("D ") {
                    let mut it = rest.splitn(3, ' ');
                    let b: usize = it.next().unwrap().parse().unwrap();
                    let e: usize = it.next().unwrap().parse().unwrap();
                    let v: Value = serde_json::from_str(it.next().unwrap()).expect("bad worker line");
                    let co = CaseOut::from_json(&v);
                    n_viol += co.violations.len();
                    outs.push((b, e, co));
                    in_flight[i] = None;
                } else if l == "E" {
                    finished[i] = true;
                }
            }
            Ok(Msg::Closed(i, _)) => {
                if !finished[i] {
                    // worker died without finishing: abnormal end of the case in flight
                    if let Some(mut c) = children[i].take() {
                        let _ = c.wait();
                    }
                    match in_flight[i].take() {
                        Some((b, e)) if hangs < 50 => {
                            hangs += 1;
                            let key = in_flight_key[i].clone();
                            let mut o = CaseOut::default();
                            o.violations.push(Violation::new(&key, "abort", "the process executing this case ended abnormally (abort / stack overflow / killed)", json!({"key": key})));
                            outs.push((b, e, o));
                            children[i] = Some(spawn(i, Some((b, e)), tx.clone()));
                            last_seen[i] = Instant::now();
                        }
                        _ => {
                            rep.machinery_errors.push(format!("worker {} ended without a case in flight", i));
                            finished[i] = true;
                        }
                    }
                }
            }
            Err(_) => {}
        }
        for i in 0..nw {
            if !finished[i] && in_flight[i].is_some() && last_seen[i].elapsed() > stall {
                // hang: kill, record, resume behind the case
                let (b, e) = in_flight[i].take().unwrap();
                if let Some(mut c) = children[i].take() {
                    let _ = c.kill();
                    let _ = c.wait();
                }
                hangs += 1;
                let key = in_flight_key[i].clone();
                let mut o = CaseOut::default();
                let bs = bases();
                o.violations.push(
                    Violation::new(&key, "hang", format!("no return within {} s of wall-clock time (and no RHS call budget overrun)", stall.as_secs()), json!({"key": key, "base": format!("{:?}", bs[b])}))
                        .with("method", mname(bs[b].method)),
                );
                outs.push((b, e, o));
                if hangs < 50 {
                    // a hang of the fault-free run: none of the fault sets of that base can be enumerated
                    let e = if e == 0 {
                        rep.caps.push(format!("base configuration {}: the fault-free run hangs, its fault sets were not run", b));
                        usize::MAX
                    } else {
                        e
                    };
                    children[i] = Some(spawn(i, Some((b, e)), tx.clone()));
                    last_seen[i] = Instant::now();
                } else {
                    finished[i] = true;
                    rep.caps.push("more than 50 hangs: remaining cases of that shard not run".into());
                }
            }
        }
    }
    for c in children.iter_mut().flatten() {
        let _ = c.wait();
    }
    outs.sort_by_key(|o| (o.0, o.1));
    let nb = bases().len();
    rep.dims = json!([{"group": "c04", "base_configurations": nb,
        "dimensions": {"method": M6.iter().map(|m| mname(*m)).collect::<Vec<_>>(), "problem": (0..NPROB).map(|k| problem(k, false).0.name).collect::<Vec<_>>(),
            "direction": ["forward", "backward(reflected)"], "max_steps": ["none", "40"], "min_step": ["none", "1e-3 (Radau, BDF)"],
            "fault_answer": KINDS.iter().map(|k| k.0).collect::<Vec<_>>(), "fault_mode": ["one-shot", "persistent from call k on"],
            "fault_call_index": if thorough { "every k < min(L, 4000) of the nominal run; every k < min(Lj, 1000) of the RHS calls made while differencing the Jacobian" } else { "every k < min(L, 150) of the nominal run; every k < min(Lj, 60) of the RHS calls made while differencing the Jacobian" },
            "deviation_bound": if thorough { "d <= 2 (second fault at every later index among the first 40 calls)" } else { "d <= 1" }}}]);
    let _ = nw;
    rep.absorb(outs.into_iter().map(|o| o.2).collect());
    rep.violations.extend(regress::violations_for("C04"));
    rep.require("rejection", 1);
    rep.require("step-size-too-small", 1);
    rep.require("newton-failure", 1);
    rep.require("budget-exhausted", 1);
    rep.rule = "deviation-bounded fault enumeration: for every base configuration the nominal run fixes the RHS call indices; every index is a decision point whose truthful answer is replaced by NaN/+inf/-inf/1e300 once or persistently; all executions with at most d deviations are run to completion in watched child processes (20 s stall = hang, 10^6 RHS calls = no return); non-trivial = every execution (each runs the real solver); distinct = distinct (RHS-call fingerprint, outcome)".into();
    rep.assumptions.push("RK4 is exempt from the finiteness clause (it has no error control), as the property states".into());
    rep.assumptions.push("every unbounded loop of the six solvers contains an RHS call, so the call budget is a sound hang detector; loops without interface calls are covered by the wall-clock watchdog".into());
    rep.finish()
}
