//! C03 — interval discipline and honest status.

use crate::env::{EvKind, EventSpec};
use crate::explore::{describe, dim, lattice};
use crate::problems::Prob;
use crate::regress;
use crate::report::{is_thorough, CaseOut, Report, Violation};
use crate::run::{mname, run, Cfg, Outcome, M6};
use crate::util::{time_slack, ulp};
use ivp::prelude::*;
use serde_json::{json, Value};
use std::sync::Arc;

/// problems expressed in the scaled time tau = (t - x0)/span * T, so that every span sees the
/// same amount of dynamics; kind 0 is NOT scaled (unit rate whatever the span).
fn problem(kind: usize, x0: f64, span_signed: f64) -> Prob {
    match kind {
        0 => Prob {
            name: "decay(unit rate, unscaled)".into(),
            n: 1,
            f: Arc::new(|_t, y, d| d[0] = -y[0]),
            jac: Some(Arc::new(|_t, _y| vec![-1.0])),
            flow: None,
            y0: vec![1.0],
            linear_homogeneous: true,
        },
        1 => {
            // one and a half periods of an oscillator over the span
            let c = 1.5 * 2.0 * std::f64::consts::PI / span_signed;
            Prob {
                name: "oscillator(scaled to span)".into(),
                n: 2,
                f: Arc::new(move |_t, y, d| {
                    d[0] = c * y[1];
                    d[1] = -c * y[0];
                }),
                jac: Some(Arc::new(move |_t, _y| vec![0.0, c, -c, 0.0])),
                flow: None,
                y0: vec![1.0, 0.25],
                linear_homogeneous: true,
            }
        }
        4 => {
            // restricted domain: Gompertz y' = c r y ln(1/y), y(0) = 5 -> 1; the solution stays in
            // y > 0 but a trial step that is far too long (first_step = span, loose tolerances)
            // leaves it and the right-hand side answers NaN
            let c = 1.0 / span_signed;
            Prob {
                name: "gompertz, domain y>0 (scaled to span)".into(),
                n: 1,
                f: Arc::new(move |_t, y, d| d[0] = c * 40.0 * y[0] * (1.0 / y[0]).ln()),
                jac: Some(Arc::new(move |_t, y| vec![c * 40.0 * ((1.0 / y[0]).ln() - 1.0)])),
                flow: None,
                y0: vec![5.0],
                linear_homogeneous: false,
            }
        }
        3 => {
            // starts at rest: y' = c (tau - y), y(0) = 0, so f(x0, y0) = 0 and the automatic
            // initial step falls back to its absolute default
            let c = 2.0 / span_signed;
            Prob {
                name: "starts at rest (scaled to span)".into(),
                n: 1,
                f: Arc::new(move |t, y, d| {
                    let tau = c * (t - x0);
                    d[0] = c * (tau - y[0]);
                }),
                jac: Some(Arc::new(move |_t, _y| vec![-c])),
                flow: None,
                y0: vec![0.0],
                linear_homogeneous: false,
            }
        }
        _ => {
            // non-autonomous: y' = c * (-2 tau y^2 + cos(3 tau)), tau = c (t - x0), over tau in [0, 2]
            let c = 2.0 / span_signed;
            Prob {
                name: "nonautonomous(scaled to span)".into(),
                n: 1,
                f: Arc::new(move |t, y, d| {
                    let tau = c * (t - x0);
                    d[0] = c * (-2.0 * tau * y[0] * y[0] + (3.0 * tau).cos());
                }),
                jac: Some(Arc::new(move |t, y| {
                    let tau = c * (t - x0);
                    vec![c * (-4.0 * tau * y[0])]
                })),
                flow: None,
                y0: vec![0.8],
                linear_homogeneous: false,
            }
        }
    }
}

#[derive(Clone, Copy, Debug, PartialEq)]
enum Fs {
    None,
    Seventh,
    Span,
    TwiceSpan,
    WrongSign,
    /// 0.9999 of the span: the piece left for the second step is a ten-thousandth of the interval
    AlmostSpan,
    /// twice the span, pointing away from xend
    WrongSignTwice,
}
#[derive(Clone, Copy, Debug, PartialEq)]
enum Ms {
    None,
    Inf,
    Quarter,
    Odd,
    FiveSpan,
}
#[derive(Clone, Copy, Debug, PartialEq)]
enum Ev {
    None,
    NonTerminal,
    Terminal,
    /// a non-terminal function (index 0) whose root lies just after the root of the terminal one
    /// (index 1) in the same step: time order and index order differ
    TerminalPair,
}

pub fn monitor(c: &Cfg, r: &crate::run::Run, n: usize, has_terminal: bool, viols: &mut Vec<(String, String)>, tags: &mut Vec<&'static str>) {
    let dir = if c.xend >= c.x0 { 1.0 } else { -1.0 };
    let (lo, hi) = if dir > 0.0 { (c.x0, c.xend) } else { (c.xend, c.x0) };
    let mut v = |k: &str, m: String| viols.push((k.to_string(), m));
    match &r.out {
        Outcome::Panic(p) => v("panic", format!("solve_ivp panicked: {}", p)),
        Outcome::Budget => v("budget", "call budget exceeded (no return)".into()),
        Outcome::Err(e) => {
            let wrong_sign = c.first_step.map(|h| h * dir < 0.0).unwrap_or(false);
            if !(c.method == Method::RK4 && wrong_sign && e.contains("InvalidStepSize")) {
                v("err", format!("valid configuration rejected: {}", e));
            } else {
                tags.push("rk4-sign-rule");
            }
        }
        Outcome::Ok(s) => {
            let nst = s.nstep.max(s.t.len());
            let slack = |a: f64| time_slack(c.x0, c.xend, a, nst);
            if s.t.len() != s.y.len() {
                v("shape", format!("len(t)={} != len(y)={}", s.t.len(), s.y.len()));
            }
            if s.y.iter().any(|row| row.len() != n) {
                v("shape", "a sample does not have the problem's dimension".into());
            }
            if c.t_eval.is_none() {
                match s.t.first() {
                    Some(t0) if t0.to_bits() == c.x0.to_bits() => {}
                    other => v("start", format!("first sample {:?} is not x0={:e}", other, c.x0)),
                }
            }
            for w in s.t.windows(2) {
                let ok = if c.t_eval.is_none() { (w[1] - w[0]) * dir > 0.0 } else { (w[1] - w[0]) * dir >= 0.0 };
                if !ok {
                    v("monotone", format!("samples not ordered toward xend: {:e} then {:e}", w[0], w[1]));
                    break;
                }
            }
            for &t in &s.t {
                if t < lo - slack(t) || t > hi + slack(t) || t.is_nan() {
                    v("range", format!("sample time {:e} outside [{:e},{:e}]", t, lo, hi));
                    break;
                }
            }
            // every interface call inside the closed interval
            if r.st.n_ode + r.st.n_events + r.st.n_jac > 0 {
                if r.st.tmin < lo - slack(r.st.tmin) || r.st.tmax > hi + slack(r.st.tmax) || r.st.tmin.is_nan() {
                    v("call-range", format!("RHS/events/Jacobian evaluated on [{:e},{:e}], interval is [{:e},{:e}]", r.st.tmin, r.st.tmax, lo, hi));
                }
            }
            let terminal_recorded = has_terminal
                && c.events.iter().enumerate().any(|(i, e)| e.terminal.map(|k| s.t_events.get(i).map(|l| l.len() >= k).unwrap_or(false)).unwrap_or(false));
            let last = s.t.last().copied();
            let covered_by_samples = last.map(|t| c.xend.is_finite() && (t - c.xend).abs() <= slack(t)).unwrap_or(false);
            let far_end = if dir > 0.0 { r.st.tmax } else { r.st.tmin };
            let covered_by_calls = c.xend.is_finite() && (far_end - c.xend).abs() <= slack(far_end);
            match s.status {
                Status::Success => {
                    tags.push("success");
                    if c.t_eval.is_none() && !covered_by_samples {
                        v("success-not-covered", format!("Success but the last sample is {:?}, xend={:e}", last, c.xend));
                    }
                    if c.t_eval.is_some() && !covered_by_calls && r.st.n_ode > 0 {
                        v("success-not-covered", format!("Success but the integration only reached {:e}, xend={:e}", far_end, c.xend));
                    }
                    if terminal_recorded {
                        v("success-after-terminal", "Success although a terminal event reached its count".into());
                    }
                    if c.method != Method::RK4 && s.y.iter().any(|row| row.iter().any(|x| !x.is_finite())) {
                        v("nonfinite", "Success with non-finite values".into());
                    }
                    if let Some(te) = &c.t_eval {
                        if s.t.len() != te.len() {
                            v("success-t-eval-count", format!("Success but {} of {} requested times reported", s.t.len(), te.len()));
                        }
                    }
                }
                Status::UserInterrupt => {
                    tags.push("terminal-stop");
                    if !terminal_recorded {
                        v("interrupt-without-terminal", "UserInterrupt without a recorded terminal event".into());
                    } else if let Some(tl) = last {
                        // the run stops AT the occurrence that reached the count of a terminal event
                        let at_terminal = c.events.iter().enumerate().any(|(i, e)| match e.terminal {
                            Some(k) => s.t_events.get(i).and_then(|l| l.get(k - 1)).map(|te| (te - tl).abs() <= 1e-9 * (1.0 + tl.abs())).unwrap_or(false),
                            None => false,
                        });
                        if !at_terminal {
                            v("interrupt-not-at-terminal", format!("UserInterrupt, but the last sample t={:e} is not the occurrence of a terminal event that reached its count (t_events {:?})", tl, s.t_events));
                        }
                    }
                }
                other => {
                    tags.push("non-success");
                    if terminal_recorded {
                        v("terminal-not-reported", format!("terminal event recorded but status {:?}", other));
                    }
                    // a run that ran out of its step budget one rounding error before xend truthfully
                    // needs one more (tiny) step: only exact coverage contradicts NeedLargerNMax
                    let exact = last.map(|t| t.to_bits() == c.xend.to_bits()).unwrap_or(false) && (far_end.to_bits() == c.xend.to_bits());
                    // (the same for a run that gives up with StepSizeTooSmall a few ulps before xend: the remaining
                    // sliver is below the solver's own step-size floor - e.g. Radau at x0 = 0.3 on a span of 1e-12)
                    // - but not when the last sample is xend to the rounding of a single addition (two units in the last
                    // place): that is the closing step every method takes, and the run has covered the interval
                    let within_2ulp = last.map(|t| t.is_finite() && c.xend.is_finite() && (t > 0.0) == (c.xend > 0.0) && (t.to_bits() as i64 - c.xend.to_bits() as i64).abs() <= 2).unwrap_or(false);
                    let covered = match other {
                        Status::NeedLargerNMax => exact,
                        Status::StepSizeTooSmall => exact || within_2ulp,
                        _ => covered_by_samples,
                    };
                    if c.t_eval.is_none() && covered && s.t.len() > 1 {
                        v("covered-not-success", format!("the last sample is xend but status is {:?}", other));
                    }
                }
            }
        }
    }
}

pub fn run_check(replay: Option<Value>) -> i32 {
    let mut rep = Report::new("C03", "model_checking");
    let only = replay.as_ref().and_then(|c| c["key"].as_str().map(|s| s.to_string()));
    let thorough = is_thorough();
    // (0.3: fl(0.3 + 1e-12) - 0.3 is 9.99978e-13, strictly below the nominal span)
    let x0s: Vec<f64> = if thorough { vec![0.0, 1.0, -1e3, 0.3, 1e6] } else { vec![0.0, 1.0, -1e3, 0.3] };
    // (1e200: squares of the abscissae overflow)
    let spans: Vec<f64> = vec![1e-12, 1e-9, 1e-3, 1.0, 1e3, 1e9, 1e200, f64::INFINITY];
    let fss = [Fs::None, Fs::Seventh, Fs::Span, Fs::TwiceSpan, Fs::WrongSign, Fs::AlmostSpan, Fs::WrongSignTwice];
    let mss = [Ms::None, Ms::Inf, Ms::Quarter, Ms::Odd, Ms::FiveSpan];
    let evs = [Ev::None, Ev::NonTerminal, Ev::Terminal, Ev::TerminalPair];
    let tols: Vec<f64> = if thorough { vec![1e-3, 1e-8] } else { vec![1e-3] };
    let dims = vec![
        dim("method", &M6.iter().map(|m| mname(*m)).collect::<Vec<_>>()),
        dim("direction", &["forward", "backward"]),
        dim("x0", &x0s),
        dim("span", &spans),
        dim("first_step", &fss),
        dim("max_step", &mss),
        dim("t_eval", &[false, true]),
        dim("dense", &[false, true]),
        dim("events", &evs),
        dim("problem", &["decay(unscaled)", "oscillator", "nonautonomous", "starts-at-rest", "gompertz(domain y>0)"]),
        dim("rtol", &tols),
        dim("max_steps", &["none", "4"]),
    ];
    lattice(&mut rep, "c03", &dims, only.as_deref(), |key, idx| {
        let m = M6[idx[0]];
        let dir = if idx[1] == 0 { 1.0 } else { -1.0 };
        let x0 = x0s[idx[2]];
        let span = spans[idx[3]];
        let (fs, ms, ev) = (fss[idx[4]], mss[idx[5]], evs[idx[8]]);
        let pk = idx[9];
        let infinite = span.is_infinite();
        // nominal length used for scaling / placement when the span is infinite
        let nominal = if infinite { 1.0 } else { span };
        // validity predicate (DESIGN §2.4)
        if !infinite && span < 1e4 * ulp(x0) {
            return None;
        }
        if infinite && ev != Ev::Terminal {
            return None; // infinite xend needs a terminal event that fires
        }
        if infinite && m == Method::RK4 && (fs == Fs::None || fs == Fs::WrongSign) {
            return None; // RK4's fixed step cannot be derived from an infinite span
        }
        if span == 1e200 && m == Method::RADAU {
            // Radau's complex linear system has entries of size 1/h: on this span their squares underflow in the
            // naive complex division (known finding D38), the run crawls; it is exercised once, below
            return None;
        }
        if pk == 0 && span > 1.0 && !infinite {
            return None; // the unscaled unit-rate problem is only meant for short spans (it is stiff over 1e3+)
        }
        let xend = if infinite { dir * f64::INFINITY } else { x0 + dir * span };
        let p = problem(pk, x0, dir * nominal);
        let mut c = Cfg::new(m, x0, xend, &p.y0).tol(tols[idx[10]], tols[idx[10]] * 1e-3);
        c.first_step = match fs {
            Fs::None => None,
            Fs::Seventh => Some(dir * nominal / 7.0),
            Fs::Span => Some(dir * nominal),
            Fs::TwiceSpan => Some(dir * 2.0 * nominal),
            Fs::WrongSign => Some(-dir * nominal / 7.0),
            Fs::AlmostSpan => Some(dir * 0.9999 * nominal),
            Fs::WrongSignTwice => Some(-dir * 2.0 * nominal),
        };
        c.max_step = match ms {
            Ms::None => None,
            Ms::Inf => Some(f64::INFINITY),
            Ms::Quarter => Some(nominal / 4.0),
            Ms::Odd => Some(nominal / 3.7),
            Ms::FiveSpan => Some(5.0 * nominal),
        };
        if idx[6] == 1 {
            c.t_eval = Some([0.1, 0.3, 0.5, 0.7, 0.9].iter().map(|f| x0 + dir * f * nominal).collect());
        }
        c.dense = idx[7] == 1;
        c.events = match ev {
            Ev::None => vec![],
            Ev::NonTerminal => vec![EventSpec::new(EvKind::T(x0 + dir * 0.37 * nominal)), EventSpec::new(EvKind::Y(0, 0.5))],
            Ev::Terminal => vec![EventSpec::new(EvKind::Y(0, 0.5)), EventSpec::new(EvKind::T(x0 + dir * 0.61 * nominal)).term(1)],
            Ev::TerminalPair => vec![EventSpec::new(EvKind::T(x0 + dir * (0.61 + 1e-6) * nominal)), EventSpec::new(EvKind::T(x0 + dir * 0.61 * nominal)).term(1)],
        };
        c.budget = 3_000_000;
        if idx[11] == 1 {
            c.max_steps = Some(4);
        }
        let r = run(&p, &c);
        let mut out = CaseOut::default();
        let mut vs = vec![];
        let mut tags = vec![];
        monitor(&c, &r, p.n, matches!(ev, Ev::Terminal | Ev::TerminalPair), &mut vs, &mut tags);
        let desc = json!({"key": key, "point": describe(&dims, idx), "cfg": c.json(&p.name), "outcome": r.outcome_name(),
            "t_head": r.sol().map(|s| s.t.iter().take(4).copied().collect::<Vec<_>>()), "t_tail": r.sol().map(|s| s.t.iter().rev().take(4).rev().copied().collect::<Vec<_>>()), "n_samples": r.sol().map(|s| s.t.len()), "nstep": r.sol().map(|s| s.nstep),
            "call_range": [r.st.tmin, r.st.tmax]});
        for (k, msg) in vs {
            out.violations.push(
                Violation::new(key, &k, msg, desc.clone())
                    .with("method", mname(m))
                    .with("span", format!("{:e}", span))
                    .with("first_step", format!("{:?}", fs))
                    .with("t_eval", idx[6] == 1)
                    .with("events", format!("{:?}", ev))
                    .with("status", r.outcome_name()),
            );
        }
        for t in tags {
            out.tag(t);
        }
        if infinite {
            out.tag("inf-span");
        }
        if span <= 1e-9 {
            out.tag("tiny-span");
        }
        if fs == Fs::Span || fs == Fs::TwiceSpan {
            out.tag("first-step-covers-span");
        }
        if ms == Ms::Quarter {
            out.tag("max-step-divides-span");
        }
        out.events = r.st.n_ode + r.st.n_events + r.st.n_jac;
        out.validated = 1;
        if r.st.n_ode > 0 {
            let mut h = r.st.fp;
            h.s(&r.outcome_name());
            h.u(idx[6] as u64 * 2 + idx[7] as u64);
            out.fp = Some(h.as_u128());
        }
        out.sample = Some(desc);
        Some(out)
    });
    // wherever xend falls relative to the step sequence: default options, 150 (600) end points per
    // method and direction, also intervals that cross zero and end near it
    {
        let nx = if thorough { 600 } else { 120 };
        let sdims = vec![
            dim("method", &M6.iter().map(|m| mname(*m)).collect::<Vec<_>>()),
            dim("direction", &["forward", "backward"]),
            dim("x0", &[0.0, -3.0]),
            dim("k", &(0..nx).collect::<Vec<_>>()),
            dim("output", &["plain", "t_eval = [x0, mid, xend] + dense"]),
            dim("rtol", &[1e-3, 1e-6, 1e-9]),
        ];
        lattice(&mut rep, "sweep", &sdims, only.as_deref(), |key, idx| {
            let m = M6[idx[0]];
            let dir = if idx[1] == 0 { 1.0 } else { -1.0 };
            let x0 = [0.0, -3.0][idx[2]] * dir;
            // x0 = 0: xend in [10, 15); x0 = -3: xend in (0, 0.6) — the landing x + (xend - x) is inexact there
            let len = if idx[2] == 0 { 10.0 + 5.0 * idx[3] as f64 / nx as f64 } else { 3.0 + 0.004 * (idx[3] + 1) as f64 };
            let xend = x0 + dir * len;
            let p = problem(1, x0, dir * 2.0 * std::f64::consts::PI * 1.5 / 1.0);
            let rt = [1e-3, 1e-6, 1e-9][idx[5]];
            let mut c = Cfg::new(m, x0, xend, &p.y0).tol(rt, rt * 1e-3);
            if idx[4] == 1 {
                c.t_eval = Some(vec![x0, 0.5 * (x0 + xend), xend]);
                c.dense = true;
            }
            c.budget = 3_000_000;
            let r = run(&p, &c);
            let mut out = CaseOut::default();
            let mut vs = vec![];
            let mut tags = vec![];
            monitor(&c, &r, p.n, false, &mut vs, &mut tags);
            let desc = json!({"key": key, "point": describe(&sdims, idx), "cfg": c.json(&p.name), "outcome": r.outcome_name(),
                "t_tail": r.sol().map(|s| s.t.iter().rev().take(4).rev().copied().collect::<Vec<_>>()), "call_range": [r.st.tmin, r.st.tmax]});
            for (k, msg) in vs {
                out.violations.push(Violation::new(key, &k, msg, desc.clone()).with("method", mname(m)).with("span", "sweep").with("first_step", "None").with("t_eval", idx[4] == 1).with("events", "None").with("status", r.outcome_name()));
            }
            if r.sol().map(|s| s.status != Status::Success).unwrap_or(true) {
                out.violations.push(Violation::new(key, "sweep-outcome", format!("default run over [{:e},{:e}] ended with {}", x0, xend, r.outcome_name()), desc.clone()).with("method", mname(m)).with("span", "sweep"));
            }
            out.tag("xend-sweep");
            out.events = r.st.n_ode;
            out.validated = 1;
            let mut h = r.st.fp;
            h.s(key);
            out.fp = Some(h.as_u128());
            out.sample = Some(desc);
            Some(out)
        });
    }
    // the same sweep on a nonlinear problem with a fast transition (Van der Pol, mu = 5; y' = y^2 towards its pole)
    // at loose tolerances, where the closing attempt of the implicit solvers does fail now and then (diverging or
    // slow Newton iteration) and is retried with a shorter step: Success only at xend
    {
        let nx = if thorough { 480 } else { 120 };
        let ndims = vec![
            dim("method", &M6.iter().map(|m| mname(*m)).collect::<Vec<_>>()),
            dim("problem", &["vanderpol(5), xend in [4.0, 5.4)", "vanderpol(10), xend in [8.0, 9.4)", "y'=y^2 from 1, xend in [0.5, 0.98)"]),
            dim("k", &(0..nx).collect::<Vec<_>>()),
            dim("rtol", &[1e-1, 1e-2]),
            dim("jacobian", &["user", "finite-difference"]),
        ];
        lattice(&mut rep, "sweepnl", &ndims, only.as_deref(), |key, idx| {
            let m = M6[idx[0]];
            if idx[4] == 1 && !crate::run::is_implicit(m) {
                return None;
            }
            let th = idx[2] as f64 / nx as f64;
            let (p, xend) = match idx[1] {
                0 | 1 => {
                    let mu = if idx[1] == 0 { 5.0 } else { 10.0 };
                    (
                        Prob {
                            name: format!("vanderpol({})", mu),
                            n: 2,
                            f: Arc::new(move |_t, y, d| {
                                d[0] = y[1];
                                d[1] = mu * (1.0 - y[0] * y[0]) * y[1] - y[0];
                            }),
                            jac: Some(Arc::new(move |_t, y| vec![0.0, 1.0, -2.0 * mu * y[0] * y[1] - 1.0, mu * (1.0 - y[0] * y[0])])),
                            flow: None,
                            y0: vec![2.0, 0.0],
                            linear_homogeneous: false,
                        },
                        if idx[1] == 0 { 4.0 + 1.4 * th } else { 8.0 + 1.4 * th },
                    )
                }
                _ => (
                    Prob { name: "y'=y^2".into(), n: 1, f: Arc::new(|_t, y, d| d[0] = y[0] * y[0]), jac: Some(Arc::new(|_t, y| vec![2.0 * y[0]])), flow: None, y0: vec![1.0], linear_homogeneous: false },
                    0.5 + 0.48 * th,
                ),
            };
            let rt = [1e-1, 1e-2][idx[3]];
            let mut c = Cfg::new(m, 0.0, xend, &p.y0).tol(rt, rt * 1e-3);
            c.user_jac = idx[4] == 0;
            c.budget = 3_000_000;
            let r = run(&p, &c);
            let mut out = CaseOut::default();
            let mut vs = vec![];
            let mut tags = vec![];
            monitor(&c, &r, p.n, false, &mut vs, &mut tags);
            let desc = json!({"key": key, "point": describe(&ndims, idx), "cfg": c.json(&p.name), "outcome": r.outcome_name(),
                "t_tail": r.sol().map(|s| s.t.iter().rev().take(4).rev().copied().collect::<Vec<_>>())});
            for (k, msg) in vs {
                out.violations.push(Violation::new(key, &k, msg, desc.clone()).with("method", mname(m)).with("span", "sweepnl").with("first_step", "None").with("t_eval", false).with("events", "None").with("status", r.outcome_name()));
            }
            if r.sol().map(|s| s.nrejct > 0).unwrap_or(false) {
                out.tag("xend-sweep-nonlinear-with-rejections");
            }
            out.tag("xend-sweep-nonlinear");
            out.events = r.st.n_ode;
            out.validated = 1;
            let mut h = r.st.fp;
            h.s(key);
            out.fp = Some(h.as_u128());
            out.sample = Some(desc);
            Some(out)
        });
    }
    // The iteration matrix of an implicit method exactly singular on the step that is clipped to xend (first_step
    // >= span): y2' = lambda y2 with lambda = kappa / h for the real Radau eigenvalue kappa = u1 (three neighbouring
    // doubles) and for kappa = 1 (BDF at order one), y2(x0) = 0.  The factorisation fails, the step is halved with
    // the last-step flag set, and the run still has to cover the interval or say that it did not.
    {
        let u1 = 3.637_834_252_744_496f64;
        let kappas = [f64::from_bits(u1.to_bits() - 1), u1, f64::from_bits(u1.to_bits() + 1), 1.0];
        let gdims = vec![
            dim("method", &["RADAU", "BDF"]),
            dim("kappa", &kappas),
            dim("span", &[0.5, 1.0, 2.0, 3.0]),
            dim("direction", &["forward", "backward"]),
            dim("first_step", &["span", "2 span", "span/2", "span/4"]),
            dim("mass", &["identity", "diag(2, 1/2) (low-level form not used: lambda scaled instead)"]),
        ];
        lattice(&mut rep, "singular", &gdims, only.as_deref(), |key, idx| {
            let m = [Method::RADAU, Method::BDF][idx[0]];
            let span = [0.5, 1.0, 2.0, 3.0][idx[2]];
            let xend = if idx[3] == 0 { span } else { -span };
            let h = xend * [1.0, 1.0, 0.5, 0.25][idx[4]];
            let fs = xend * [1.0, 2.0, 0.5, 0.25][idx[4]];
            // (the second "mass" entry halves lambda: singular for a step of twice the length, i.e. not on the first attempt
            // but on a later one when the controller doubles)
            let lam = kappas[idx[1]] / h * if idx[5] == 0 { 1.0 } else { 0.5 };
            let p = Prob {
                name: format!("y1'=-y1, y2'={:e} y2 on the line y2=0", lam),
                n: 2,
                f: Arc::new(move |_t, y, d| {
                    d[0] = -y[0];
                    d[1] = lam * y[1];
                }),
                jac: Some(Arc::new(move |_t, _y| vec![-1.0, 0.0, 0.0, lam])),
                flow: None,
                y0: vec![1.0, 0.0],
                linear_homogeneous: true,
            };
            let mut c = Cfg::new(m, 0.0, xend, &p.y0).tol(1e-4, 1e-8);
            c.user_jac = true;
            c.first_step = Some(fs);
            c.budget = 3_000_000;
            let r = run(&p, &c);
            let mut out = CaseOut::default();
            let mut vs = vec![];
            let mut tags = vec![];
            monitor(&c, &r, p.n, false, &mut vs, &mut tags);
            let desc = json!({"key": key, "point": describe(&gdims, idx), "cfg": c.json(&p.name), "outcome": r.outcome_name(),
                "t_tail": r.sol().map(|s| s.t.iter().rev().take(4).rev().copied().collect::<Vec<_>>())});
            for (k, msg) in vs {
                out.violations.push(Violation::new(key, &k, msg, desc.clone()).with("method", mname(m)).with("span", "singular").with("first_step", "covering").with("t_eval", false).with("events", "None").with("status", r.outcome_name()));
            }
            if r.sol().map(|s| s.nrejct > 0 || s.nstep > s.naccpt).unwrap_or(false) {
                out.tag("singular-scene-with-repeated-step");
            }
            out.tag("singular-iteration-matrix-scene");
            out.events = r.st.n_ode;
            out.validated = 1;
            let mut h = r.st.fp;
            h.s(key);
            out.fp = Some(h.as_u128());
            out.sample = Some(desc);
            Some(out)
        });
    }
    // Radau over [0, 1e200] (excluded from the lattice above): one run with a budget of 20 000 steps; the interval is
    // covered in a few hundred steps by BDF and by Radau itself up to 1e150
    if only.is_none() || only.as_deref() == Some("radau-huge-span") {
        let p = problem(1, 0.0, 1e200);
        let mut c = Cfg::new(Method::RADAU, 0.0, 1e200, &p.y0).tol(1e-3, 1e-6);
        c.user_jac = true;
        c.max_steps = Some(20_000);
        c.budget = 3_000_000;
        let r = run(&p, &c);
        rep.evaluations += 1;
        rep.validated += 1;
        rep.transitions += r.st.n_ode;
        let ok = r.sol().map(|s| s.status == Status::Success && s.t.last().map(|t| t.to_bits()) == Some(1e200f64.to_bits())).unwrap_or(false);
        if !ok {
            rep.violations.push(
                Violation::new("radau-huge-span", "huge-span", format!("RADAU on the oscillator scaled to [0, 1e200] with a budget of 20000 steps: {} after {} steps, last sample {:?}", r.outcome_name(), r.sol().map(|s| s.nstep).unwrap_or(0), r.sol().and_then(|s| s.t.last().copied())), json!({"key": "radau-huge-span"}))
                    .with("method", "RADAU")
                    .with("span", "1e200"),
            );
        }
    }
    if only.is_none() {
        rep.violations.extend(regress::violations_for("C03"));
        for t in ["success", "terminal-stop", "inf-span", "tiny-span", "first-step-covers-span", "max-step-divides-span", "rk4-sign-rule", "xend-sweep", "xend-sweep-nonlinear", "xend-sweep-nonlinear-with-rejections"] {
            rep.require(t, 10);
        }
    } else {
        let bad = rep.violations.len();
        for v in &rep.violations {
            println!("replay: VIOLATED [{}]: {}", v.sig["check"], v.msg);
            println!("{}", serde_json::to_string_pretty(&v.case).unwrap());
        }
        if bad == 0 {
            println!("replay: property holds on this case");
        }
        return if bad == 0 { 0 } else { 1 };
    }
    rep.rule = "full product of the lattice minus combinations excluded by the stated validity predicate (span >= 1e4 ulp(x0); infinite xend only with a terminal event that fires; RK4 with infinite span needs first_step); monitor: start at x0, strict monotonicity, never beyond xend, Success <=> covered, UserInterrupt <=> terminal event recorded, every ode/events/jac call time inside [x0,xend] (slack 8 ulp (1+n/64)), shapes, finiteness; non-trivial = at least one RHS call; distinct = distinct RHS-call fingerprints x outcome x output options".into();
    rep.assumptions.push("whether a terminal event fires is judged from the computed trajectory (a recorded event), not from the exact solution".into());
    rep.assumptions.push("NeedLargerNMax one rounding error before xend is truthful (one more tiny step is needed); only exact coverage of xend contradicts it".into());
    rep.assumptions.push("StepSizeTooSmall and similar outcomes are legitimate and only oblige a well-formed prefix; Err(Config(InvalidStepSize)) is accepted only for RK4's documented sign rule".into());
    rep.finish()
}
