//! C11 — max_step, first_step and max_steps are honoured.

use crate::explore::{describe, dim, lattice};
use crate::problems::{base, reflect, Base, Prob};
use crate::regress;
use crate::report::{is_thorough, CaseOut, Report, Violation};
use crate::run::{is_implicit, mname, run, run_lowlevel, Cfg, Outcome, M6};
use crate::util::par_map;
use crate::env::Ans;
use ivp::prelude::*;
use serde_json::{json, Value};
use std::sync::Arc;

fn vdp(mu: f64) -> Prob {
    Prob {
        name: format!("vanderpol(mu={})", mu),
        n: 2,
        f: Arc::new(move |_t, y, d| {
            d[0] = y[1];
            d[1] = mu * (1.0 - y[0] * y[0]) * y[1] - y[0];
        }),
        jac: Some(Arc::new(move |_t, y| vec![0.0, 1.0, -2.0 * mu * y[0] * y[1] - 1.0, mu * (1.0 - y[0] * y[0])])),
        flow: None,
        y0: vec![2.0, 0.0],
        linear_homogeneous: false,
    }
}

fn problems() -> Vec<(Prob, f64)> {
    // the last two over spans of 1e-6 and 3e-12: every max_step of the lattice is then below the absolute
    // default initial steps of the implicit solvers, resp. below every absolute time constant of the library
    vec![(base(Base::Decay(-0.01)), 10.0), (base(Base::Harmonic(1.0)), 6.0), (base(Base::Logistic(1.0)), 5.0), (base(Base::Harmonic(1.0)), 1e-6), (base(Base::Harmonic(1.0)), 3e-12)]
}

/// abscissa fraction of the first stage evaluated after the initial ones
fn c2(m: Method) -> f64 {
    match m {
        Method::RK4 | Method::RK23 => 0.5,
        Method::DOPRI5 => 0.2,
        Method::DOP853 => 0.526001519587677318785587544488e-01,
        Method::RADAU => 0.155_051_025_721_682_2,
        Method::BDF => 1.0,
    }
}

pub fn run_check(replay: Option<Value>) -> i32 {
    let mut rep = Report::new("C11", "model_checking");
    let only = replay.as_ref().and_then(|c| c["key"].as_str().map(|s| s.to_string()));
    let thorough = is_thorough();
    let probs = problems();
    // span/7.02, span/12.05: with steps pinned at max_step the piece left for the last step is 2 % / 5 % of it
    let mss = ["span/3", "span/4", "span/pi", "1e-3*span", "inf", "none", "span/7.02", "span/12.05"];
    let fss = ["none", "max_step/2", "max_step", "0.995*span (no finite max_step)", "exactly the span (no finite max_step)"];
    let tols: Vec<f64> = if thorough { vec![1e-3, 1e-4, 1e-5, 1e-6, 1e-7, 1e-8, 1e-9, 1e-10] } else { vec![1e-4, 1e-8] };
    let dims = vec![
        dim("method", &M6.iter().map(|m| mname(*m)).collect::<Vec<_>>()),
        dim("direction", &["forward", "backward(reflected)"]),
        dim("problem", &probs.iter().map(|p| p.0.name.clone()).collect::<Vec<_>>()),
        dim("max_step", &mss),
        dim("first_step", &fss),
        dim("tol", &tols),
        dim("first_step_sign", &["matching", "opposite"]),
    ];
    lattice(&mut rep, "steps", &dims, only.as_deref(), |key, idx| {
        let m = M6[idx[0]];
        let backward = idx[1] == 1;
        let (p0, span) = &probs[idx[2]];
        let p = if backward { reflect(p0) } else { p0.clone() };
        let xend = if backward { -*span } else { *span };
        let dir = xend.signum();
        let ms: Option<f64> = match idx[3] {
            0 => Some(span / 3.0),
            1 => Some(span / 4.0),
            2 => Some(span / std::f64::consts::PI),
            3 => Some(1e-3 * span),
            4 => Some(f64::INFINITY),
            6 => Some(span / 7.02),
            7 => Some(span / 12.05),
            _ => None,
        };
        let ms_eff = ms.filter(|v| v.is_finite()).unwrap_or(*span);
        let fs: Option<f64> = match idx[4] {
            0 => None,
            1 => Some(0.5 * ms_eff.min(span / 5.0)),
            2 => Some(ms_eff.min(span / 5.0)),
            4 => {
                if idx[3] != 4 && idx[3] != 5 {
                    return None;
                }
                Some(*span)
            }
            _ => {
                // a first step just short of the interval (solvers that stretch a step by up to 1 % land on
                // xend with it, the others take exactly this step)
                if idx[3] != 4 && idx[3] != 5 {
                    return None;
                }
                Some(0.995 * span)
            }
        };
        let opposite = idx[6] == 1;
        if opposite && (fs.is_none() || m == Method::RK4) {
            return None; // RK4 documents that the sign must match
        }
        let tol = tols[idx[5]];
        let mut c = Cfg::new(m, 0.0, xend, &p.y0).tol(tol, tol * 1e-2);
        c.user_jac = true;
        c.keep_log = true;
        c.max_step = ms;
        c.first_step = fs.map(|h| h * dir * if opposite { -1.0 } else { 1.0 });
        // (RK4 without first_step derives its fixed step from the span and must still obey max_step:
        // 1e-3*span gives a thousand steps)
        let desc = json!({"key": key, "point": describe(&dims, idx), "cfg": c.json(&p.name)});
        let mut out = CaseOut::default();
        macro_rules! viol {
            ($c:expr, $m:expr) => {
                out.violations.push(Violation::new(key, $c, $m, desc.clone()).with("method", mname(m)).with("backward", backward))
            };
        }
        // (a) through the low-level solver: every accepted step and the first trial step
        let mut cl = c.clone();
        if m == Method::RK4 {
            // solve_ivp derives RK4's fixed step from first_step / max_step; mirror its dispatch
            let mut h = cl.first_step.unwrap_or((xend - 0.0) / 100.0);
            if let Some(hm) = cl.max_step {
                if h.abs() > hm.abs() {
                    h = hm.abs() * h.signum();
                }
            }
            cl.first_step = Some(h);
        }
        let r = run_lowlevel(&p, &cl, &[], &[], None, false);
        out.events = r.recs.len() as u64 + r.st.n_ode;
        if r.ok().map(|ir| ir.status != Status::Success).unwrap_or(true) {
            viol!("outcome", format!("low-level run ended with {}", r.outcome_name()));
            return Some(out);
        }
        let recs = &r.recs;
        if let Some(hm) = ms {
            for j in 1..recs.len() {
                let h = (recs[j].x - recs[j - 1].x).abs();
                // the length is measured as a difference of abscissae: allow their rounding
                let slack = 4.0 * crate::util::ulp(recs[j].x.abs().max(recs[j - 1].x.abs()));
                let lim = if j + 1 == recs.len() { 1.01 * hm + slack } else { hm * (1.0 + 4.0 * f64::EPSILON) + slack };
                if h > lim {
                    viol!("max-step", format!("accepted step {} has length {:e} > max_step {:e}{}", j, h, hm, if c.first_step.is_none() && j == 1 { " (automatic initial step)" } else { "" }));
                    break;
                }
                out.validated += 1;
            }
            if hm.is_finite() {
                out.tag("max-step-checked");
            }
        }
        if let Some(h0) = cl.first_step {
            // first trial step seen at the RHS interface
            let calls: Vec<_> = r.st.log.iter().filter(|cl| !cl.in_jac).collect();
            if calls.len() >= 2 {
                let hobs = (calls[1].t - 0.0) / c2(m);
                let want = h0.abs() * dir;
                // a first step that reaches xend within the 1 % landing stretch may be taken as the
                // (stretched) final step: RK4, DOPRI5 and DOP853 do that, the others take first_step itself
                let stretched_ok = 1.01 * h0.abs() >= *span && (hobs - span * dir).abs() <= 1e-12 * span;
                if (hobs - want).abs() > 1e-12 * want.abs() && !stretched_ok {
                    viol!("first-trial-step", format!("first trial step observed at the RHS interface is {:e}, first_step is {:e}", hobs, want));
                }
                out.tag("first-step-checked");
                // accepted? then the first interval has that length
                let first = recs.get(1).map(|q| q.x - 0.0).unwrap_or(f64::NAN);
                // no attempt of the whole run was rejected => the first trial step was accepted
                let ir = r.ok().unwrap();
                let accepted_first = recs.len() > 1 && ir.steps.rejected == 0 && ir.steps.total == ir.steps.accepted;
                if accepted_first {
                    out.tag("first-step-accepted");
                }
                if accepted_first && (first - want).abs() > 4.0 * f64::EPSILON * want.abs() && !(stretched_ok && (first - span * dir).abs() <= 4.0 * f64::EPSILON * span) {
                    viol!("first-interval", format!("the first step was accepted but the first interval is {:e}, first_step {:e}", first, want));
                }
                out.validated += 1;
            }
        }
        // (a2) the same first trial step when the initial callback answers ModifiedSolution (state untouched)
        if let (Some(h0), true) = (cl.first_step, m != Method::RK4) {
            let r2 = run_lowlevel(&p, &cl, &[(0, Ans::Modified(1.0))], &[], None, false);
            out.events += r2.st.n_ode;
            if let Some(call) = r2.st.log.iter().filter(|q| !q.in_jac).find(|q| q.t != 0.0) {
                let hobs = call.t / c2(m);
                let want = h0.abs() * dir;
                let stretched_ok = 1.01 * h0.abs() >= *span && (hobs - span * dir).abs() <= 1e-12 * span;
                if (hobs - want).abs() > 1e-12 * want.abs() && !stretched_ok {
                    viol!("first-trial-step", format!("after a ModifiedSolution answer at the initial callback the first trial step observed at the RHS interface is {:e}, first_step is {:e}", hobs, want));
                }
                out.tag("first-step-after-modification");
                out.validated += 1;
            }
        }
        // (b) solve_ivp reports the same steps
        let rs = run(&p, &c);
        match &rs.out {
            Outcome::Ok(s) if s.status == Status::Success => {
                if c.first_step.is_none() {
                    if s.t.len() != recs.len() || s.t.iter().zip(recs.iter()).any(|(a, b)| a.to_bits() != b.x.to_bits()) {
                        viol!("solve-ivp-grid", "solve_ivp reports different step endpoints than the low-level solver".to_string());
                    }
                } else if s.t.len() >= 2 {
                    let want = c.first_step.unwrap().abs().min(*span) * dir;
                    if ((s.t[1] - s.t[0]) - want).abs() > 4.0 * f64::EPSILON * want.abs() && (recs[1].x - want).abs() <= 4.0 * f64::EPSILON * want.abs() {
                        viol!("first-interval", format!("first reported interval {:e}, first_step {:e}", s.t[1] - s.t[0], want));
                    }
                }
            }
            _ => viol!("outcome", format!("solve_ivp ended with {}", rs.outcome_name())),
        }
        let mut h = r.st.fp;
        h.u(recs.len() as u64);
        out.fp = Some(h.as_u128());
        out.sample = Some(desc);
        Some(out)
    });

    // budget clause: every budget 1..nstep_full+2
    let mut bprobs: Vec<(Prob, f64, f64)> = vec![(base(Base::Harmonic(1.0)), 4.0, 1e-4), (base(Base::Logistic(1.0)), 4.0, 1e-6)];
    bprobs.push((vdp(5.0), 6.0, 1e-6));
    if thorough {
        bprobs.push((vdp(5.0), 6.0, 1e-9));
        bprobs.push((vdp(50.0), 30.0, 1e-6));
    }
    let mut groups = vec![];
    for (mi, m) in M6.iter().enumerate() {
        for backward in [false, true] {
            for (pi, (p0, span, tol)) in bprobs.iter().enumerate() {
                if p0.name.starts_with("vanderpol") && (backward || (!is_implicit(*m) && *m != Method::DOPRI5)) {
                    continue;
                }
              for long_first in [false, true] {
                // (RK4 has no step control to reject with: its second configuration is the step solve_ivp derives
                // itself, span/100, which must not depend on the budget)
                let p = if backward { reflect(p0) } else { p0.clone() };
                let xend = if backward { -*span } else { *span };
                let mut c = Cfg::new(*m, 0.0, xend, &p.y0).tol(*tol, tol * 1e-2);
                c.user_jac = true;
                if *m == Method::RK4 {
                    c.first_step = Some(xend / 40.0);
                }
                if long_first {
                    // a first step far too long for the tolerance: the run starts with rejections
                    c.first_step = if *m == Method::RK4 { None } else { Some(xend / 2.0) };
                }
                let full = run(&p, &c);
                let fs = match full.sol() {
                    Some(s) if s.status == Status::Success => s.clone(),
                    _ => {
                        rep.machinery_errors.push(format!("unbudgeted run failed: {} {}", mname(*m), p.name));
                        continue;
                    }
                };
                let nb = fs.nstep + 2;
                let gkey = format!("budget:{}.{}.{}{}", mi, backward as u8, pi, if long_first { ".L" } else { "" });
                groups.push(json!({"group": gkey, "method": mname(*m), "problem": p.name, "backward": backward, "rtol": tol, "first_step": if long_first { "span/2 (start-up rejections)" } else { "automatic" }, "nstep_full": fs.nstep, "nrejct_full": fs.nrejct, "budgets": nb}));
                let outs = par_map(nb, |bi| {
                    let b = bi + 1;
                    let key = format!("{}:{}", gkey, b);
                    if let Some(o) = &only {
                        if *o != key {
                            return None;
                        }
                    }
                    let mut cb = c.clone();
                    cb.max_steps = Some(b);
                    let r = run(&p, &cb);
                    let mut out = CaseOut::default();
                    let desc = json!({"key": key, "cfg": cb.json(&p.name), "nstep_full": fs.nstep, "outcome": r.outcome_name()});
                    macro_rules! viol {
                        ($c:expr, $m:expr) => {
                            out.violations.push(Violation::new(&key, $c, $m, desc.clone()).with("method", mname(*m)).with("backward", backward))
                        };
                    }
                    out.events = r.st.n_ode;
                    match &r.out {
                        Outcome::Ok(s) => {
                            if s.nstep > b + 1 {
                                viol!("budget-exceeded", format!("max_steps={} but nstep={}", b, s.nstep));
                            }
                            let is_prefix = s.t.len() <= fs.t.len()
                                && s.t.iter().zip(&fs.t).all(|(a, bb)| a.to_bits() == bb.to_bits())
                                && s.y.iter().zip(&fs.y).all(|(a, bb)| a.iter().zip(bb).all(|(u, v)| u.to_bits() == v.to_bits()));
                            if !is_prefix {
                                viol!("budget-prefix", format!("the budgeted run's samples ({} entries) are not a bit-identical prefix of the unbudgeted run ({} entries)", s.t.len(), fs.t.len()));
                            }
                            let strict = s.t.len() < fs.t.len();
                            match (s.status, strict) {
                                (Status::NeedLargerNMax, true) => out.tag("budget-ran-out"),
                                (Status::Success, false) => out.tag("budget-sufficient"),
                                (Status::NeedLargerNMax, false) => viol!("budget-status", format!("NeedLargerNMax but all {} samples of the unbudgeted run were returned", fs.t.len())),
                                (st, _) => viol!("budget-status", format!("status {:?} with {} of {} samples", st, s.t.len(), fs.t.len())),
                            }
                            out.validated = 3;
                            let mut h = r.st.fp;
                            h.u(b as u64);
                            out.fp = Some(h.as_u128());
                        }
                        _ => viol!("outcome", format!("budgeted run ended with {}", r.outcome_name())),
                    }
                    out.sample = Some(desc);
                    Some(out)
                });
                rep.absorb(outs.into_iter().flatten().collect());
              }
            }
        }
    }
    // a right-hand side that is not a number at isolated times (sin(x - p)/(x - p) at x = p): with steps pinned at
    // max_step = 0.25 from 0, p = 0.8 is the abscissa 0.2 into the fourth step (one of DOP853's dense stages), p = 0.75
    // a step end, p = 0.875 a midpoint.  Whatever a solver does about the rejected attempt, no accepted step exceeds max_step
    for m in M6 {
        for (pi, pp) in [0.8, 0.75, 0.875, 0.5 + 0.25 * 0.1, 0.5 + 0.25 * (7.0 / 9.0)].iter().enumerate() {
            for backward in [false, true] {
                let key = format!("sinc:{}:{}:{}", mname(m), pi, backward as u8);
                if only.as_ref().map(|o| *o != key).unwrap_or(false) {
                    continue;
                }
                let pp = *pp;
                let sg = if backward { -1.0 } else { 1.0 };
                let p = Prob {
                    name: format!("y'=sin(x-p)/(x-p), p={}", pp * sg),
                    n: 1,
                    f: std::sync::Arc::new(move |t, _y, d| d[0] = sg * (sg * t - pp).sin() / (sg * t - pp)),
                    jac: Some(std::sync::Arc::new(|_t, _y| vec![0.0])),
                    flow: None,
                    y0: vec![0.0],
                    linear_homogeneous: false,
                };
                let mut c = Cfg::new(m, 0.0, 2.0 * sg, &p.y0).tol(1e-6, 1e-8);
                c.user_jac = true;
                c.max_step = Some(0.25);
                c.first_step = Some(0.25 * sg);
                let r = run_lowlevel(&p, &c, &[], &[], None, false);
                rep.evaluations += 1;
                rep.transitions += r.st.n_ode;
                *rep.tags.entry("rhs-not-a-number-at-a-point".into()).or_insert(0) += 1;
                let mut worst: (f64, usize) = (0.0, 0);
                for j in 1..r.recs.len() {
                    let h = (r.recs[j].x - r.recs[j - 1].x).abs();
                    if h > worst.0 {
                        worst = (h, j);
                    }
                }
                rep.validated += r.recs.len() as u64;
                if worst.0 > 0.25 * 1.01 + 1e-12 {
                    rep.violations.push(
                        Violation::new(&key, "max-step", format!("{} on {}: accepted step {} has length {:e} > max_step 0.25 (run ended with {})", mname(m), p.name, worst.1, worst.0, r.outcome_name()), json!({"key": key}))
                            .with("method", mname(m))
                            .with("backward", backward),
                    );
                }
            }
        }
    }
    // no budget given means no budget: runs of more than 12 000 steps (max_step = span/12000) go through, and a
    // budget of 13 000 gives the same run
    for m in M6 {
        let key = format!("unbudgeted:{}", mname(m));
        if only.as_ref().map(|o| *o != key).unwrap_or(false) {
            continue;
        }
        let p = base(Base::Harmonic(1.0));
        let mut c = Cfg::new(m, 0.0, 6.0, &p.y0).tol(1e-4, 1e-6);
        c.user_jac = true;
        c.max_step = Some(6.0 / 12000.0);
        c.first_step = Some(6.0 / 12000.0);
        let r = run(&p, &c);
        let mut cb = c.clone();
        cb.max_steps = Some(13_000);
        let rb = run(&p, &cb);
        rep.evaluations += 2;
        rep.transitions += r.st.n_ode + rb.st.n_ode;
        let ok = match (r.sol(), rb.sol()) {
            (Some(a), Some(b)) => a.status == Status::Success && b.status == Status::Success && a.t.len() > 12000 && a.t.len() == b.t.len() && a.t.last().map(|t| t.to_bits()) == Some(6.0f64.to_bits()) && r.st.fp == rb.st.fp,
            _ => false,
        };
        rep.validated += 1;
        *rep.tags.entry("unbudgeted-long-run".into()).or_insert(0) += 1;
        if !ok {
            rep.violations.push(
                Violation::new(&key, "unbudgeted", format!("{} with max_step = span/12000 and no max_steps: {} ({} samples, last {:?}); with max_steps = 13000: {} ({} samples)", mname(m), r.outcome_name(), r.sol().map(|s| s.t.len()).unwrap_or(0), r.sol().and_then(|s| s.t.last().copied()), rb.outcome_name(), rb.sol().map(|s| s.t.len()).unwrap_or(0)), json!({"key": key}))
                    .with("method", mname(m))
                    .with("backward", false),
            );
        }
    }
    // at the time origin 2^50 (spacing of the doubles 0.25) with steps pinned at max_step = 2.85 (RK4: a fixed step of 0.3):
    // the abscissa advances by 2.75 (0.25) per step, behind the nominal step - whatever the end of the interval is
    // recognised by, no accepted step may be longer than max_step (plus the landing rule's 1 % and two ulps)
    for m in M6 {
        for backward in [false, true] {
            let key = format!("far-origin-steps:{}:{}", mname(m), backward as u8);
            if only.as_ref().map(|o| *o != key).unwrap_or(false) {
                continue;
            }
            let dirn = if backward { -1.0 } else { 1.0 };
            let p0 = base(Base::Decay(-0.001));
            let p = if backward { crate::problems::reflect(&p0) } else { p0 };
            let o = 2f64.powi(50);
            let (h, span) = if m == Method::RK4 { (0.3, 30.0) } else { (2.85, 640.0) };
            let mut c = Cfg::new(m, dirn * o, dirn * (o + span), &p.y0).tol(1e-4, 1e-6);
            c.user_jac = true;
            c.first_step = Some(dirn * h);
            if m != Method::RK4 {
                c.max_step = Some(h);
            }
            let low = crate::run::run_lowlevel(&p, &c, &[], &[], None, false);
            rep.evaluations += 1;
            rep.transitions += low.st.n_ode;
            rep.validated += 1;
            *rep.tags.entry("far-origin-steps".into()).or_insert(0) += 1;
            let worst = low.recs.windows(2).map(|w| (w[1].x - w[0].x).abs()).fold(0.0f64, f64::max);
            // (whether the run gets through its closing piece of a few ulps is not this property's business)
            if low.recs.len() < 50 || worst > h * 1.01 + 0.5 {
                rep.violations.push(
                    Violation::new(&key, "max-step", format!("{} from {:e} over {} with steps pinned at {}: {:?}, {} callbacks, longest accepted step {:e}", mname(m), dirn * o, span, h, low.ok().map(|r| r.status), low.recs.len(), worst), json!({"key": key}))
                        .with("method", mname(m))
                        .with("backward", backward),
                );
            }
        }
    }
    if let Value::Array(a) = &mut rep.dims {
        a.push(json!({"group": "budget", "every_budget": "1 ..= nstep_full + 2", "configurations": groups}));
    }
    if only.is_some() {
        for v in &rep.violations {
            println!("replay: VIOLATED [{}]: {}\n{}", v.sig["check"], v.msg, serde_json::to_string_pretty(&v.case).unwrap());
        }
        if rep.violations.is_empty() {
            println!("replay: property holds on this case");
        }
        return if rep.violations.is_empty() { 0 } else { 1 };
    }
    rep.violations.extend(regress::violations_for("C11"));
    for t in ["max-step-checked", "first-step-checked", "first-step-accepted", "first-step-after-modification", "budget-ran-out", "budget-sufficient"] {
        rep.require(t, 50);
    }
    rep.rule = "lattice method x direction x problem (one slow, so that the controller wants more than max_step from the first step on) x max_step x first_step x tolerance x sign of first_step; accepted step lengths from the low-level callbacks, first trial step from the time of the second RHS call, first interval when accepted; budget clause: EVERY budget 1..nstep_full+2 of each configuration, bitwise prefix comparison with the unbudgeted run; distinct = distinct RHS fingerprints (x budget)".into();
    rep.assumptions.push("the final step may be stretched by 1% (landing rule); RK4's fixed step is first_step clamped to max_step as dispatched by solve_ivp".into());
    rep.finish()
}

