//! C05 — t_eval: exactly the requested times, with the interpolated values.
//! Two-pass: the plain run gives the accepted-step grid; all non-decreasing tuples of requested
//! times over a placement alphabet relative to that grid are then run.

use crate::env::{EvKind, EventSpec};
use crate::problems::kappa;
use crate::regress;
use crate::report::{is_thorough, CaseOut, Report, Violation};
use crate::run::{mname, run, Cfg, Outcome, M6};
use crate::twopass::{plain_run, scene_cfg, scenes, Plain, Scene};
use crate::util::par_map;
use ivp::prelude::*;
use serde_json::{json, Value};

#[derive(Clone, Copy, Debug, PartialEq)]
enum Stop {
    None,
    NonTerminal,
    TerminalStep2,
    TerminalLastStep,
    Budget3,
    /// terminal event function that is exactly zero at an accepted step end (no root search needed)
    TerminalOnStepEnd,
}
const STOPS: [Stop; 6] = [Stop::None, Stop::NonTerminal, Stop::TerminalStep2, Stop::TerminalLastStep, Stop::Budget3, Stop::TerminalOnStepEnd];

/// placement alphabet relative to the grid, clipped to the span, sorted in the direction of
/// integration and de-duplicated bitwise
fn alphabet(pl: &Plain, thorough: bool, xend_cfg: f64) -> Vec<(f64, String)> {
    let n = pl.nsteps();
    let dir = (pl.xs[n] - pl.xs[0]).signum();
    let (lo, hi) = (pl.xs[0].min(pl.xs[n]).min(xend_cfg), pl.xs[0].max(pl.xs[n]).max(xend_cfg));
    let mut steps: Vec<usize> = (0..n.min(if thorough { 4 } else { 3 })).collect();
    if !steps.contains(&(n - 1)) {
        steps.push(n - 1);
    }
    // (the configured xend itself, not only the last sample of the plain run: they must be the same point)
    let mut v: Vec<(f64, String)> = vec![(pl.xs[0], "x0".into()), (pl.xs[n], "xend".into()), (xend_cfg, "xend(configured)".into())];
    for &k in &steps {
        let h = pl.h(k);
        for (off, name) in [(0.0, "x_k"), (1e-13, "x_k+1e-13"), (-1e-13, "x_k-1e-13"), (0.9e-12, "x_k+0.9e-12"), (-0.9e-12, "x_k-0.9e-12"), (1.1e-12, "x_k+1.1e-12"), (-1.1e-12, "x_k-1.1e-12"), (1e-9, "x_k+1e-9"), (-1e-9, "x_k-1e-9")] {
            v.push((pl.xs[k + 1] + off, format!("{}[k={}]", name, k + 1)));
        }
        for th in [0.25, 0.5, 0.75] {
            v.push((pl.xs[k] + th * h, format!("x_k+{}h[k={}]", th, k)));
        }
    }
    v.retain(|(t, _)| *t >= lo && *t <= hi);
    v.sort_by(|a, b| (a.0 * dir).partial_cmp(&(b.0 * dir)).unwrap());
    v.dedup_by(|a, b| a.0.to_bits() == b.0.to_bits());
    v
}

/// all non-decreasing tuples (with repetition) of length 1..=maxlen over 0..m
fn tuples(m: usize, maxlen: usize) -> Vec<Vec<usize>> {
    let mut out = vec![];
    fn rec(start: usize, m: usize, cur: &mut Vec<usize>, maxlen: usize, out: &mut Vec<Vec<usize>>) {
        if !cur.is_empty() {
            out.push(cur.clone());
        }
        if cur.len() == maxlen {
            return;
        }
        for i in start..m {
            cur.push(i);
            rec(i, m, cur, maxlen, out);
            cur.pop();
        }
    }
    rec(0, m, &mut vec![], maxlen, &mut out);
    // the empty request: nothing is reported (and the run is still made)
    out.push(vec![]);
    out
}

struct Ctx {
    method: Method,
    backward: bool,
    scene: usize,
    stop: Stop,
    cfg: Cfg,
    plain: Plain,
    alpha: Vec<(f64, String)>,
    prob: crate::problems::Prob,
    kappa: f64,
    ev_time: Option<f64>,
}

fn check_case(cx: &Ctx, key: &str, tup: &[usize]) -> CaseOut {
    let mut out = CaseOut::default();
    let pl = &cx.plain;
    let n = pl.nsteps();
    let dir = (pl.xs[n] - pl.xs[0]).signum();
    let req: Vec<f64> = tup.iter().map(|&i| cx.alpha[i].0).collect();
    let names: Vec<&str> = tup.iter().map(|&i| cx.alpha[i].1.as_str()).collect();
    let mut c = cx.cfg.clone();
    c.t_eval = Some(req.clone());
    match cx.stop {
        Stop::None => {}
        Stop::NonTerminal => c.events = vec![EventSpec::new(EvKind::T(cx.ev_time.unwrap()))],
        Stop::TerminalStep2 | Stop::TerminalLastStep | Stop::TerminalOnStepEnd => c.events = vec![EventSpec::new(EvKind::T(cx.ev_time.unwrap())).term(1)],
        Stop::Budget3 => c.max_steps = Some(3),
    }
    let mut cd = c.clone();
    cd.dense = true;
    let r = run(&cx.prob, &c);
    let rd = run(&cx.prob, &cd);
    let desc = json!({"key": key, "method": mname(cx.method), "problem": cx.prob.name, "backward": cx.backward, "stop": format!("{:?}", cx.stop),
        "requested": req, "placement": names, "grid_head": pl.xs.iter().take(6).collect::<Vec<_>>(), "grid_len": pl.xs.len(),
        "event_time": cx.ev_time, "reported": r.sol().map(|s| s.t.clone()), "status": r.outcome_name()});
    macro_rules! viol {
        ($c:expr, $m:expr) => {
            out.violations.push(Violation::new(key, $c, $m, desc.clone()).with("method", mname(cx.method)).with("stop", format!("{:?}", cx.stop)).with("backward", cx.backward))
        };
    }
    out.events = r.st.n_ode + rd.st.n_ode;
    let (s, sd) = match (&r.out, &rd.out) {
        (Outcome::Ok(a), Outcome::Ok(b)) => (a, b),
        _ => {
            viol!("outcome", format!("run ended with {} / {}", r.outcome_name(), rd.outcome_name()));
            return out;
        }
    };
    // (1) independent of dense_output
    if s.t.len() != sd.t.len()
        || s.t.iter().zip(&sd.t).any(|(a, b)| a.to_bits() != b.to_bits())
        || s.y.iter().zip(&sd.y).any(|(a, b)| a.iter().zip(b).any(|(u, v)| u.to_bits() != v.to_bits()))
        || s.status != sd.status
    {
        viol!("dense-dependence", "reported t/y differ between dense_output on and off".to_string());
    }
    out.validated += 1;
    // (2) the stopping point
    let mut stop_at: Option<f64> = None; // None = no early stop
    let mut terminal_point: Option<(f64, Vec<f64>)> = None;
    match cx.stop {
        Stop::None | Stop::NonTerminal => {
            if s.status != Status::Success {
                viol!("status", format!("status {:?} without a stop cause", s.status));
            }
        }
        Stop::TerminalStep2 | Stop::TerminalLastStep | Stop::TerminalOnStepEnd => {
            if s.status != Status::UserInterrupt || s.t_events[0].len() != 1 {
                viol!("status", format!("terminal event expected, status {:?}, events {:?}", s.status, s.t_events));
                return out;
            }
            let te = s.t_events[0][0];
            // (Brent's absolute 2e-12 and a few units in the last place of the abscissa, which dominate at a far origin)
            if (te - cx.ev_time.unwrap()).abs() > 2e-11 + 8.0 * f64::EPSILON * te.abs() {
                viol!("event-location", format!("terminal event at {:e}, root at {:e}", te, cx.ev_time.unwrap()));
            }
            stop_at = Some(te);
            terminal_point = Some((te, s.y_events[0][0].clone()));
            out.tag("terminal-stop");
        }
        Stop::Budget3 => {
            if s.status == Status::NeedLargerNMax {
                let j = s.naccpt.min(n);
                stop_at = Some(pl.xs[j]);
                out.tag("budget-stop");
            } else if s.status != Status::Success {
                viol!("status", format!("unexpected status {:?} with max_steps=3", s.status));
            }
        }
    }
    // (3) reference semantics: exactly the requested times not beyond the stopping point
    let ambiguous = |t: f64| stop_at.map(|st| (t - st).abs() <= 1.2e-12).unwrap_or(false);
    let mut got = s.t.clone();
    let mut got_y = s.y.clone();
    if let Some((te, ye)) = &terminal_point {
        // the only extra sample permitted: the terminal event point as the final entry
        match (got.last(), got_y.last()) {
            (Some(t), Some(y)) if t.to_bits() == te.to_bits() && y.iter().zip(ye).all(|(a, b)| a.to_bits() == b.to_bits()) => {
                got.pop();
                got_y.pop();
            }
            _ => viol!("terminal-point", "the final entry is not the terminal event point".to_string()),
        }
    }
    let mut gi = 0;
    for (ri, &t) in req.iter().enumerate() {
        let beyond = stop_at.map(|st| (t - st) * dir > 0.0).unwrap_or(false);
        let present = gi < got.len() && got[gi].to_bits() == t.to_bits();
        if ambiguous(t) {
            if present {
                gi += 1;
            }
            continue;
        }
        if beyond {
            if present {
                viol!("beyond-stop", format!("requested time #{} = {:e} lies beyond the stopping point {:e} but was reported", ri, t, stop_at.unwrap()));
                gi += 1;
            }
        } else if present {
            gi += 1;
        } else {
            viol!("missing", format!("requested time #{} = {:e} ({}) not reported (reported: {:?})", ri, t, names[ri], got));
        }
    }
    if gi != got.len() {
        viol!("extra", format!("reported times {:?} contain entries that were not requested (requested {:?})", got, req));
    }
    out.validated += 1;
    // (4) values: the covering step's interpolant = sol(t) of the plain dense run; accuracy bound
    let psol = pl.sol();
    let naccpt = psol.naccpt.max(1) as f64;
    let rk4_end_error = if cx.method == Method::RK4 {
        psol.t.iter().zip(&psol.y).fold(0.0f64, |a, (t, y)| match cx.prob.exact(cx.cfg.x0, &cx.cfg.y0, *t) {
            Some(ex) => y.iter().zip(&ex).fold(a, |b, (u, v)| b.max((u - v).abs())),
            None => a,
        })
    } else {
        0.0
    };
    for (t, y) in got.iter().zip(got_y.iter()) {
        if let Ok(ys) = psol.sol(*t) {
            let scale = 1.0 + y.iter().fold(0.0f64, |m, v| m.max(v.abs()));
            let d = y.iter().zip(&ys).fold(0.0f64, |m, (a, b)| m.max((a - b).abs()));
            // (both are evaluations of a step interpolant at the same abscissa: the same step's, bit for bit, or - for
            // a time within the matching slack of a step end - the neighbouring step's, which agrees to rounding there;
            // the end state of the step is NOT the value at a time 1e-12 away from it)
            // plus the rounding of the abscissa itself: (t - xold) / h carries an error of an ulp of t, i.e. ulp(t) |y'| in the
            // value - negligible near the origin, dominant at a time origin of 1e5 and beyond
            let mut dy = vec![0.0; y.len()];
            (cx.prob.f)(*t, y, &mut dy);
            let slope = dy.iter().fold(0.0f64, |m, v| m.max(v.abs()));
            if d > 256.0 * f64::EPSILON * scale + 4.0 * f64::EPSILON * t.abs() * slope {
                viol!("value", format!("value at t={:e} differs from the plain run's interpolant by {:e}", t, d));
            }
            if y.iter().zip(&ys).all(|(a, b)| a.to_bits() == b.to_bits()) {
                out.tag("value-bitwise-equal-to-sol");
            }
            out.validated += 1;
        }
        if let Some(ex) = cx.prob.exact(cx.cfg.x0, &cx.cfg.y0, *t) {
            let ynorm = ex.iter().fold(0.0f64, |m, v| m.max(v.abs()));
            for i in 0..ex.len() {
                let tol = cx.cfg.atol.at(i) + cx.cfg.rtol.at(i) * ynorm;
                let bound = 50.0 * cx.kappa * naccpt * tol + 1e-13;
                // RK4 has no tolerance: its interpolated values are as good as its own step endpoints
                let bound = if cx.method == Method::RK4 { 10.0 * rk4_end_error + 1e-10 } else { bound };
                if (y[i] - ex[i]).abs() > bound {
                    viol!("accuracy", format!("value at t={:e} component {} off by {:e} (bound {:e})", t, i, (y[i] - ex[i]).abs(), bound));
                }
            }
        }
    }
    // coverage tags
    for &t in &req {
        for k in 1..pl.xs.len() {
            let d = (t - pl.xs[k]).abs();
            if d == 0.0 {
                out.tag("on-step-boundary");
            } else if d <= 1e-12 {
                out.tag("within-1e-12-of-boundary");
            }
        }
    }
    if tup.windows(2).any(|w| w[0] == w[1]) {
        out.tag("duplicate-request");
    }
    let mut h = r.st.fp;
    for t in &got {
        h.f(*t);
    }
    h.s(&format!("{:?}", s.status));
    out.fp = Some(h.as_u128());
    out.sample = Some(desc);
    out
}

pub fn run_check(replay: Option<Value>) -> i32 {
    let mut rep = Report::new("C05", "model_checking");
    let only = replay.as_ref().and_then(|c| c["key"].as_str().map(|s| s.to_string()));
    let thorough = is_thorough();
    let maxlen = if thorough { 3 } else { 2 };
    let mut lattice_desc = vec![];
    let mut contexts: Vec<(String, Ctx)> = vec![];
    for (mi, m) in M6.iter().enumerate() {
        for backward in [false, true] {
            for (si, sc, pinned) in scenes(backward).into_iter().enumerate().flat_map(|(si, sc)| {
                // (and once on [0, ±1] with steps of exactly 1/10: they add up to xend only up to rounding)
                let tenth = if si == 0 {
                    let p0 = crate::problems::base(crate::problems::Base::Decay(-0.05));
                    let p = if backward { crate::problems::reflect(&p0) } else { p0 };
                    Some((5usize, Scene { name: format!("{} (steps of a tenth of [0,1])", p.name), prob: p, x0: 0.0, xend: if backward { -1.0 } else { 1.0 } }, true))
                } else {
                    None
                };
                // every scene; the first one once more with first_step = max_step = span/10.005: the steps run
                // at max_step and the piece left for the last one is half a per cent of it
                // (a slow decay, so that every method really runs at max_step)
                let again = if si == 0 {
                    let p0 = crate::problems::base(crate::problems::Base::Decay(-0.05));
                    let p = if backward { crate::problems::reflect(&p0) } else { p0 };
                    Some((4usize, Scene { name: format!("{} (steps pinned at max_step)", p.name), prob: p, x0: sc.x0, xend: sc.xend }, true))
                } else {
                    None
                };
                // (and at time origins where an ulp exceeds the handler's absolute matching slack: steps of a tenth / a
                // fifth of an interval of length one that add up to xend only up to rounding)
                let far: Vec<(usize, Scene, bool)> = if si == 0 {
                    [(6usize, 3e5), (7, 1e6), (8, 1e5)]
                        .iter()
                        .map(|&(code, o)| {
                            let p0 = crate::problems::base(crate::problems::Base::Decay(-0.05));
                            let p = if backward { crate::problems::reflect(&p0) } else { p0 };
                            let o = if backward { -o } else { o };
                            (code, Scene { name: format!("{} (pinned steps on an interval of length 1 at {:e})", p.name, o), prob: p, x0: o, xend: if backward { o - 1.0 } else { o + 1.0 } }, true)
                        })
                        .collect()
                } else {
                    vec![]
                };
                // (and towards the time origin: from ∓1 to ∓0.001 in steps of 0.999/3.3 the closing step x + (xend - x) is longer
                // than |xend| and misses xend by 8.7e-19 - the last abscissa is then not bitwise xend)
                let mut far = far;
                if si == 0 {
                    let p0 = crate::problems::base(crate::problems::Base::Decay(-0.05));
                    let p = if backward { crate::problems::reflect(&p0) } else { p0 };
                    let (a, b) = if backward { (1.0, 0.001) } else { (-1.0, -0.001) };
                    far.push((9usize, Scene { name: format!("{} (towards the origin: [{}, {}])", p.name, a, b), prob: p, x0: a, xend: b }, true));
                }
                // (and the first scene with first_step = 1.5 span: the first attempt is already the step clipped to xend
                // and is rejected with the last-step flag set and nothing accepted yet; not RK4, which rejects nothing)
                if si == 0 && *m != Method::RK4 {
                    far.push((10usize, Scene { name: format!("{} (first_step = 1.5 span)", sc.name), prob: sc.prob.clone(), x0: sc.x0, xend: sc.xend }, false));
                }
                std::iter::once((si, sc, false)).chain(again).chain(tenth).chain(far)
            }) {
                let mut cfg = scene_cfg(*m, &sc, 1e-5);
                if *m == Method::RK4 {
                    // a fixed step that does not divide the interval: the last step is shortened
                    cfg.first_step = Some((sc.xend - sc.x0) / 73.3);
                }
                if pinned {
                    let parts = match si {
                        5 | 6 | 7 => 10.0,
                        8 => 5.0,
                        9 => 3.3,
                        _ => 10.005,
                    };
                    cfg.first_step = Some((sc.xend - sc.x0) / parts);
                    cfg.max_step = Some((sc.xend - sc.x0).abs() / parts);
                }
                if si == 10 {
                    cfg.first_step = Some((sc.xend - sc.x0) * 1.5);
                }
                // the accepted grid as the low-level solver's callbacks see it (solve_ivp withholds the
                // samples before x0 + first_step, so its own t is not the grid when first_step is set)
                let with_grid = |p: Plain| -> Option<Plain> {
                    let low = crate::run::run_lowlevel(&sc.prob, &cfg, &[], &[], None, false);
                    if low.ok().is_none() || low.recs.len() < 2 {
                        return None;
                    }
                    Some(Plain { xs: low.recs.iter().map(|q| q.x).collect(), ys: low.recs.iter().map(|q| q.y.clone()).collect(), run: p.run })
                };
                let plain = match plain_run(&sc.prob, &cfg).and_then(&with_grid) {
                    Some(p) => p,
                    None => {
                        // no grid to place requests on; when the run with five requested times nevertheless reports Success,
                        // the reference model needs no grid: exactly those times, bit for bit
                        let mut c5 = cfg.clone();
                        let req: Vec<f64> = (0..5).map(|i| if i == 4 { sc.xend } else { sc.x0 + (sc.xend - sc.x0) * i as f64 / 4.0 }).collect();
                        c5.t_eval = Some(req.clone());
                        let r5 = run(&sc.prob, &c5);
                        match r5.sol() {
                            Some(s5) if s5.status == Status::Success && !(s5.t.len() == req.len() && s5.t.iter().zip(&req).all(|(a, b)| a.to_bits() == b.to_bits())) => {
                                let key = format!("c05:{}.{}.{}.nogrid", mi, backward as u8, si);
                                if only.as_ref().map_or(true, |o| *o == key) {
                                    rep.violations.push(
                                        Violation::new(&key, "requested-times", format!("{} on {}: Success, requested {:?}, reported {:?}", mname(*m), sc.name, req, s5.t), json!({"key": key, "cfg": c5.json(&sc.prob.name)}))
                                            .with("method", mname(*m))
                                            .with("backward", backward),
                                    );
                                }
                            }
                            _ => rep.machinery_errors.push(format!("plain run failed for {} {}", mname(*m), sc.name)),
                        }
                        continue;
                    }
                };
                let kap = kappa(&sc.prob, sc.x0, &sc.prob.y0, sc.xend);
                for (sti, st) in STOPS.iter().enumerate() {
                    let n = plain.nsteps();
                    let ev_time = match st {
                        Stop::NonTerminal | Stop::TerminalStep2 => Some(plain.xs[2.min(n - 1)] + 0.4 * plain.h(2.min(n - 1))),
                        Stop::TerminalLastStep => Some(plain.xs[n - 1] + 0.6 * plain.h(n - 1)),
                        Stop::TerminalOnStepEnd => Some(plain.xs[3.min(n - 1)]),
                        _ => None,
                    };
                    let pl2 = plain_run(&sc.prob, &cfg).and_then(&with_grid).unwrap();
                    let alpha = alphabet(&pl2, thorough, sc.xend);
                    contexts.push((
                        format!("c05:{}.{}.{}.{}", mi, backward as u8, si, sti),
                        Ctx { method: *m, backward, scene: si, stop: *st, cfg: cfg.clone(), plain: pl2, alpha, prob: sc.prob.clone(), kappa: kap, ev_time },
                    ));
                }
                let _ = plain;
            }
        }
    }
    let mut total = 0usize;
    for (gkey, cx) in &contexts {
        let tups = tuples(cx.alpha.len(), maxlen);
        total += tups.len();
        lattice_desc.push(json!({"group": gkey, "method": mname(cx.method), "backward": cx.backward, "scene": cx.scene, "stop": format!("{:?}", cx.stop),
            "alphabet_size": cx.alpha.len(), "tuples": tups.len(), "grid_steps": cx.plain.nsteps()}));
        let outs = par_map(tups.len(), |i| {
            let key = format!("{}:{}", gkey, tups[i].iter().map(|v| v.to_string()).collect::<Vec<_>>().join("."));
            if let Some(o) = &only {
                if *o != key {
                    return None;
                }
            }
            Some(check_case(cx, &key, &tups[i]))
        });
        rep.absorb(outs.into_iter().flatten().collect());
    }
    let _ = total;
    if let Some(_) = only {
        for v in &rep.violations {
            println!("replay: VIOLATED [{}]: {}\n{}", v.sig["check"], v.msg, serde_json::to_string_pretty(&v.case).unwrap());
        }
        if rep.violations.is_empty() {
            println!("replay: property holds on this case");
        }
        return if rep.violations.is_empty() { 0 } else { 1 };
    }
    rep.violations.extend(regress::violations_for("C05"));
    rep.dims = json!({"placement_alphabet": "x0, xend, and for the first 3 (quick) / 4 (thorough) steps and the last one: x_k, x_k±1e-13, x_k±0.9e-12, x_k±1.1e-12, x_k±1e-9, x_k+θh_k (θ=1/4,1/2,3/4), clipped to the span",
        "tuple_length": format!("all non-decreasing tuples (with repetition) of length 1..={}", maxlen), "groups": lattice_desc});
    for t in ["on-step-boundary", "within-1e-12-of-boundary", "duplicate-request", "terminal-stop", "budget-stop", "value-bitwise-equal-to-sol"] {
        rep.require(t, 100);
    }
    rep.rule = "two-pass: plain run -> accepted grid; every tuple of requested times over the placement alphabet is run with dense_output off and on for every method x direction x problem x stop cause; reference model: reported times = requested times not beyond the stopping point, bit-for-bit and in order, plus at most the terminal event point; values = plain run's interpolant, within the accuracy bound; non-trivial = every run; distinct = distinct (RHS-call fingerprint, reported times, status); traces_validated = reference-model comparisons".into();
    rep.assumptions.push("requested times within 1.2e-12 of the stopping point are not judged (either answer accepted); the accepted grid of the plain run is the grid of the re-run (C12)".into());
    rep.finish()
}
