//! Minimal stand-alone replays of the defects found so far (DESIGN §4).  Each is a plain
//! function on the real API without any explorer; the owning check runs them on every
//! invocation, so a defect that was repaired is reported again the moment it returns.

use crate::env::{EvKind, EventSpec};
use crate::problems::{base, copies, Base};
use crate::report::Violation;
use crate::run::{mname, run, run_with, Cfg, Outcome, Tol};
use ivp::matrix::{Matrix, MatrixStorage};
use ivp::prelude::*;
use serde_json::json;

pub struct Regression {
    pub name: &'static str,
    pub property: &'static str,
    pub what: &'static str,
    pub f: fn() -> Result<(), String>,
}

pub fn all() -> Vec<Regression> {
    vec![
        Regression { name: "D1-radau-scalar-tol", property: "C13", what: "Radau: scalar tolerance vs constant vector tolerance must give bit-identical trajectories (n=4)", f: d1 },
        Regression { name: "D1-radau-scalar-tol-accuracy", property: "C01", what: "Radau: scalar rtol=1e-8 on 16 copies of y'=-y must stay within the accuracy bound", f: d1_acc },
        Regression { name: "D2-radau-nan-success", property: "C04", what: "Radau: RHS returning NaN for t>0.5 must not end in Success with non-finite states", f: d2 },
        Regression { name: "D3-rk23-blowup-hang", property: "C04", what: "RK23 on y'=y^2 (blow-up at t=1) must return within 10^6 RHS calls", f: d3 },
        Regression { name: "D3-rk23-nan-hang", property: "C04", what: "RK23 with a NaN right-hand side must return within 10^6 RHS calls", f: d3_nan },
        Regression { name: "D22-bdf-min-step-hang", property: "C04", what: "BDF with min_step and a NaN right-hand side must return within 10^6 RHS calls", f: d22 },
        Regression { name: "D4-rk4-overshoot", property: "C03", what: "RK4 with first_step=0.3 on [0,1] must end at xend and never evaluate beyond it", f: d4 },
        Regression { name: "D5-first-step-gt-span", property: "C03", what: "first_step larger than the span must still report the end point under Success", f: d5 },
        Regression { name: "D5-first-step-wrong-sign", property: "C03", what: "wrong-sign first_step must not produce samples outside the interval / non-monotone t", f: d5_sign },
        Regression { name: "D6-radau-first-step-eq-span", property: "C03", what: "Radau with first_step = span must report Success after reaching xend", f: d6 },
        Regression { name: "D7-terminal-drops-t-eval", property: "C05", what: "requested times before a terminal event inside the last step must be reported", f: d7 },
        Regression { name: "D8-mass-default", property: "C15", what: "no mass override + Full mass storage must integrate y'=f", f: d8 },
        Regression { name: "D10-rk4-stats", property: "C18", what: "RK4: nfev counts every RHS call and naccpt every step", f: d10 },
        Regression { name: "D11-bdf-hinit-count", property: "C18", what: "BDF: nfev counts the evaluation made by the automatic initial step", f: d11 },
        Regression { name: "D14-rk4-max-step", property: "C11", what: "RK4 must not take steps longer than max_step", f: d14 },
        Regression { name: "D15-sub-1e-12-steps-dropped", property: "C18", what: "accepted steps shorter than 1e-12 must still be reported (naccpt = reported intervals; span 1e-12 returns more than [x0])", f: d15 },
        Regression { name: "D18-hinit-probe-beyond-xend", property: "C03", what: "automatic initial step with max_step > span must not evaluate the RHS beyond xend", f: d18 },
        Regression { name: "D19-terminal-event-duplicates-sample", property: "C03", what: "terminal event on a step boundary (RK4 grid) must not repeat the previous sample time", f: d19 },
        Regression { name: "D20-landing-within-rounding", property: "C03", what: "Radau/BDF with max_step dividing the interval must end with Success, not StepSizeTooSmall", f: d20 },
        Regression { name: "D23-bdf-lands-on-xend", property: "C03", what: "BDF backward from 1 to 0 with first_step=span, max_step=span/3.7 must report monotone times ending at xend", f: d23 },
        Regression { name: "D24-event-located-by-function-value", property: "C08", what: "g = 1e-6*(t-c) with c 1e-9 past a step end must be located at c (not at the step end)", f: d24 },
        Regression { name: "D24-event-located-by-function-value-count", property: "C09", what: "g = 1e-6*(t-c): exactly one event within 2e-11 of c", f: d24 },
        Regression { name: "D25-brent-leaves-bracket", property: "C08", what: "backward DOP853 with a long first step: every event of cos(3t) must lie inside the span", f: d25 },
        Regression { name: "D27-radau-slow-newton-fallthrough", property: "C14", what: "Radau on Van der Pol mu=100, [0,200], rtol=0.1: final error must stay at tolerance scale (was 3.4)", f: d27 },
        Regression { name: "D12-hinit-depends-on-dimension", property: "C13", what: "16 identical copies of a system with the automatic initial step take the same first step as the system itself", f: d12 },
        Regression { name: "D28-first-output-absolute-slack", property: "C03", what: "x0=1, span 1e-9, first_step=span/7, DOP853 rtol 1e-8 on a problem starting at rest: t must be strictly monotone", f: d28 },
        Regression { name: "D29-brent-sign-product-underflow", property: "C08", what: "g = 1e-170*(t-c) must be located at c", f: d29 },
        Regression { name: "D30-bdf-initial-step-exponent", property: "C01", what: "BDF on y''=-y from x0 = 50.2 with rtol=1e-9, atol=1e-12 and the automatic initial step must reach xend", f: d30 },
        Regression { name: "D31-dop853-nonfinite-after-error-test", property: "C04", what: "DOP853, first_step = 2*span: a single NaN answer at the new-point derivative or a dense-output stage of the last step must not give Success with NaN samples", f: d31 },
        Regression { name: "D32-dense-without-accepted-step", property: "C06", what: "Radau/BDF, first_step = span/2, max_steps = 5, dense output: the run ends before its first accepted step and sol(x0) must still return y0", f: d32 },
        Regression { name: "D33-dopri5-naccpt-at-probably-stiff", property: "C18", what: "DOPRI5 on y'=-2000(y-cos t) ends with ProbablyStiff: naccpt must equal the number of reported intervals", f: d33 },
        Regression { name: "D34-rk23-xout-interpolant", property: "C07", what: "RK23 built with dense_output(false): the interpolant obtained through XOut must reproduce the step's end state (was all zeros)", f: d34 },
        Regression { name: "D35-sol-range-rounding", property: "C06", what: "sol(t) and sol_many must succeed at every reported time (RK23, lin3 on [0, 0.38688] and [0, 0.4461], rtol 1e-2: last time one ulp beyond the last segment)", f: d35 },
        Regression { name: "D36-radau-min-step-longer-than-interval", property: "C04", what: "Radau with min_step = 1e-3 on [0, 5e-4] (both directions) must return, not panic", f: d36 },
        Regression { name: "D42-regular-step-ending-on-xend", property: "C04", what: "DOPRI5, DOP853 and RK4 on [-(2^30 - 5e-6), -(2^30 + 5e-6)] and its mirror image: Success, and as many accepted steps as intervals between the samples", f: d42 },
        Regression { name: "D41-initial-step-below-an-ulp-of-x0", property: "C01", what: "the decay and the oscillator in a time unit 2^40 times smaller, integrated from x0 = 2.2e12 / 3.3e12 down to 0.2 without first_step, must reach xend with RK23, DOPRI5 and RADAU at rtol 1e-3", f: d41 },
        Regression { name: "D40-landing-within-rounding-of-xend", property: "C05", what: "Radau and BDF with first_step = max_step = 0.1 on [3e5, 3e5 + 1] (either direction) must deliver all three requested times x0, x0 + 0.5, xend and end at xend itself", f: d40 },
        Regression { name: "D39-stiffness-test-extreme-scale", property: "C13", what: "DOPRI5 / DOP853 on a mildly stiff linear system scaled by 2^-600 and 2^600 must stop with the same status after the same number of steps as the unscaled run", f: d39 },
        Regression { name: "D37-rk4-step-below-one-ulp", property: "C04", what: "RK4 with first_step = 1e-8 from x0 = +-1e9 must return (with a non-success status), not spin at x0", f: d37 },
        Regression { name: "D16-rk4-dense-order", property: "C07", what: "RK4 cubic Hermite dense output must be O(h^4) inside a step", f: d16 },
    ]
}

pub fn violations_for(property: &str) -> Vec<Violation> {
    let mut out = vec![];
    for r in all() {
        if r.property != property {
            continue;
        }
        let res = crate::util::guarded(|| (r.f)());
        let msg = match res {
            Ok(Ok(())) => continue,
            Ok(Err(m)) => m,
            Err(p) => format!("panicked: {}", p),
        };
        out.push(Violation::new(
            format!("regress:{}", r.name),
            &format!("regress:{}", r.name),
            format!("{} — {}", r.what, msg),
            json!({"regression": r.name, "what": r.what}),
        ));
    }
    out
}

pub fn replay(name: &str) -> Option<i32> {
    for r in all() {
        if format!("regress:{}", r.name) == name || r.name == name {
            return Some(match crate::util::guarded(|| (r.f)()) {
                Ok(Ok(())) => {
                    println!("replay {}: property holds", r.name);
                    0
                }
                Ok(Err(m)) => {
                    println!("replay {}: VIOLATED: {}", r.name, m);
                    1
                }
                Err(p) => {
                    println!("replay {}: VIOLATED (panic): {}", r.name, p);
                    1
                }
            });
        }
    }
    None
}

fn sol_of(r: &crate::run::Run) -> Result<&Solution, String> {
    r.sol().ok_or_else(|| format!("no solution: {}", r.outcome_name()))
}

fn d1() -> Result<(), String> {
    let p = copies(&base(Base::Decay(-1.0)), 4);
    let mut a = Cfg::new(Method::RADAU, 0.0, 2.0, &p.y0).tol(1e-8, 1e-10);
    a.user_jac = true;
    let mut b = a.clone();
    b.rtol = Tol::V(vec![1e-8; 4]);
    b.atol = Tol::V(vec![1e-10; 4]);
    let (ra, rb) = (run(&p, &a), run(&p, &b));
    let (sa, sb) = (sol_of(&ra)?, sol_of(&rb)?);
    if sa.t.len() != sb.t.len() || sa.t.iter().zip(&sb.t).any(|(x, y)| x.to_bits() != y.to_bits()) {
        return Err(format!("scalar tolerance: {} steps, vector tolerance: {} steps", sa.t.len() - 1, sb.t.len() - 1));
    }
    Ok(())
}

fn d1_acc() -> Result<(), String> {
    let p = copies(&base(Base::Decay(-1.0)), 16);
    let mut a = Cfg::new(Method::RADAU, 0.0, 2.0, &p.y0).tol(1e-8, 1e-10);
    a.user_jac = true;
    let r = run(&p, &a);
    let s = sol_of(&r)?;
    let err = (s.y.last().unwrap()[0] - (-2.0f64).exp()).abs();
    let bound = 50.0 * s.naccpt.max(1) as f64 * (1e-10 + 1e-8 * 1.0);
    if err > bound {
        return Err(format!("error {:e} exceeds K*naccpt*tol = {:e} (naccpt={})", err, bound, s.naccpt));
    }
    Ok(())
}

fn d2() -> Result<(), String> {
    let p = base(Base::Decay(-1.0));
    let c = Cfg::new(Method::RADAU, 0.0, 2.0, &p.y0).tol(1e-6, 1e-8);
    let ans = |_i: u64, t: f64, _y: &[f64], d: &mut [f64]| {
        if t > 0.5 {
            d[0] = f64::NAN;
        }
    };
    let r = run_with(&p, &c, Some(&ans), None);
    match &r.out {
        Outcome::Ok(s) => {
            if s.status == Status::Success && s.y.iter().any(|v| v.iter().any(|x| !x.is_finite())) {
                return Err("Success with non-finite states".into());
            }
            Ok(())
        }
        Outcome::Err(_) => Ok(()),
        Outcome::Panic(m) => Err(format!("panic {}", m)),
        Outcome::Budget => Err("did not return within the call budget".into()),
    }
}

fn d3() -> Result<(), String> {
    let p = crate::problems::Prob {
        name: "y^2".into(),
        n: 1,
        f: std::sync::Arc::new(|_t, y, d| d[0] = y[0] * y[0]),
        jac: None,
        flow: None,
        y0: vec![1.0],
        linear_homogeneous: false,
    };
    let mut c = Cfg::new(Method::RK23, 0.0, 2.0, &p.y0).tol(1e-6, 1e-8);
    c.budget = 1_000_000;
    let r = run(&p, &c);
    match &r.out {
        Outcome::Budget => Err("more than 10^6 RHS calls (no step-size underflow guard)".into()),
        Outcome::Panic(m) => Err(format!("panic {}", m)),
        Outcome::Ok(s) if s.status == Status::Success => {
            if s.y.iter().any(|v| !v[0].is_finite()) {
                Err("Success with non-finite state".into())
            } else {
                Ok(())
            }
        }
        _ => Ok(()),
    }
}

fn d3_nan() -> Result<(), String> {
    let p = base(Base::Decay(-1.0));
    let mut c = Cfg::new(Method::RK23, 0.0, 2.0, &p.y0).tol(1e-6, 1e-8);
    c.budget = 1_000_000;
    let ans = |_i: u64, t: f64, _y: &[f64], d: &mut [f64]| {
        if t > 0.5 {
            d[0] = f64::NAN;
        }
    };
    let r = run_with(&p, &c, Some(&ans), None);
    match &r.out {
        Outcome::Budget => Err("more than 10^6 RHS calls".into()),
        Outcome::Panic(m) => Err(format!("panic {}", m)),
        Outcome::Ok(s) if s.status == Status::Success && s.y.iter().any(|v| !v[0].is_finite()) => Err("Success with non-finite state".into()),
        _ => Ok(()),
    }
}

fn d4() -> Result<(), String> {
    let p = base(Base::Decay(-1.0));
    let mut c = Cfg::new(Method::RK4, 0.0, 1.0, &p.y0);
    c.first_step = Some(0.3);
    let r = run(&p, &c);
    let s = sol_of(&r)?;
    let last = *s.t.last().unwrap();
    if (last - 1.0).abs() > 1e-12 {
        return Err(format!("last sample at t={} instead of xend=1", last));
    }
    if r.st.tmax > 1.0 + 1e-12 {
        return Err(format!("RHS evaluated at t={} beyond xend", r.st.tmax));
    }
    Ok(())
}

fn d5() -> Result<(), String> {
    let p = base(Base::Decay(-1.0));
    for m in crate::run::M6 {
        let mut c = Cfg::new(m, 0.0, 1.0, &p.y0);
        c.first_step = Some(2.0);
        let r = run(&p, &c);
        let s = sol_of(&r)?;
        if s.status == Status::Success && (s.t.last().unwrap() - 1.0).abs() > 1e-12 {
            return Err(format!("{}: Success but last sample at t={} (t={:?})", mname(m), s.t.last().unwrap(), s.t));
        }
        if r.st.tmax > 1.0 + 1e-12 {
            return Err(format!("{}: RHS evaluated at t={} beyond xend", mname(m), r.st.tmax));
        }
    }
    Ok(())
}

fn d5_sign() -> Result<(), String> {
    let p = base(Base::Decay(-1.0));
    for m in crate::run::M5 {
        let mut c = Cfg::new(m, 0.0, 1.0, &p.y0);
        c.first_step = Some(-0.1);
        let r = run(&p, &c);
        let s = sol_of(&r)?;
        for w in s.t.windows(2) {
            if !(w[1] > w[0]) {
                return Err(format!("{}: t not increasing: {:?}", mname(m), &s.t[..s.t.len().min(5)]));
            }
        }
        if s.t.iter().any(|&t| t < -1e-12 || t > 1.0 + 1e-12) {
            return Err(format!("{}: sample outside [0,1]: {:?}", mname(m), &s.t[..s.t.len().min(5)]));
        }
    }
    // backward integration with RK4: the (mandatory) negative first_step must not put a sample beyond x0
    let mut c = Cfg::new(Method::RK4, 1.0, 0.0, &p.y0);
    c.first_step = Some(-0.25);
    let r = run(&p, &c);
    let s = sol_of(&r)?;
    for w in s.t.windows(2) {
        if !(w[1] < w[0]) {
            return Err(format!("RK4 backward: t not decreasing: {:?}", s.t));
        }
    }
    if s.t.iter().any(|&t| t > 1.0 + 1e-12 || t < -1e-12) {
        return Err(format!("RK4 backward: sample outside [0,1]: {:?}", s.t));
    }
    Ok(())
}

fn d6() -> Result<(), String> {
    let p = base(Base::Decay(-1.0));
    let mut c = Cfg::new(Method::RADAU, 0.0, 1.0, &p.y0).tol(1e-3, 1e-6);
    c.first_step = Some(1.0);
    let r = run(&p, &c);
    let s = sol_of(&r)?;
    let reached = (s.t.last().unwrap() - 1.0).abs() < 1e-12;
    if reached && s.status != Status::Success {
        return Err(format!("reached xend but status {:?}", s.status));
    }
    if r.st.tmax > 1.0 + 1e-12 {
        return Err(format!("RHS evaluated at t={} beyond xend", r.st.tmax));
    }
    // tiny span with the default initial step 1e-6
    let c2 = Cfg::new(Method::RADAU, 0.0, 1e-7, &p.y0).tol(1e-3, 1e-6);
    let r2 = run(&p, &c2);
    let s2 = sol_of(&r2)?;
    if (s2.t.last().unwrap() - 1e-7).abs() < 1e-20 && s2.status != Status::Success {
        return Err(format!("span 1e-7: reached xend but status {:?}", s2.status));
    }
    Ok(())
}

fn d7() -> Result<(), String> {
    let p = base(Base::Decay(-1.0));
    for m in [Method::DOP853, Method::RADAU, Method::BDF, Method::DOPRI5] {
        let mut c = Cfg::new(m, 0.0, 1.0, &p.y0).tol(1e-3, 1e-6);
        c.t_eval = Some((0..=10).map(|i| i as f64 * 0.1).collect());
        c.events = vec![EventSpec::new(EvKind::T(0.55)).term(1)];
        let r = run(&p, &c);
        let s = sol_of(&r)?;
        let want: Vec<f64> = (0..=5).map(|i| i as f64 * 0.1).collect();
        let got: Vec<f64> = s.t.iter().copied().filter(|&t| t < 0.55 - 1e-9).collect();
        if got != want {
            return Err(format!("{}: requested times before the event reported as {:?}, expected {:?}", mname(m), got, want));
        }
    }
    Ok(())
}

fn d8() -> Result<(), String> {
    let p = base(Base::Decay(-1.0));
    let mut c = Cfg::new(Method::RADAU, 0.0, 1.0, &p.y0).tol(1e-6, 1e-8);
    c.mass_storage = MatrixStorage::Full;
    let r = run(&p, &c);
    let s = sol_of(&r)?;
    let err = (s.y.last().unwrap()[0] - (-1.0f64).exp()).abs();
    if s.status != Status::Success || err > 1e-4 {
        return Err(format!("status {:?}, y(1)={} (exact {})", s.status, s.y.last().unwrap()[0], (-1.0f64).exp()));
    }
    // the trait default must itself produce the identity
    struct Plain;
    impl IVP for Plain {
        fn ode(&self, _x: f64, _y: &[f64], _d: &mut [f64]) {}
    }
    let mut m = Matrix::zeros(3, 3);
    Plain.mass(&mut m);
    if !m.is_identity() {
        return Err("IVP::mass default does not write the identity into a Full matrix".into());
    }
    Ok(())
}

fn d10() -> Result<(), String> {
    let p = base(Base::Decay(-1.0));
    let mut c = Cfg::new(Method::RK4, 0.0, 1.0, &p.y0);
    c.first_step = Some(0.125);
    let r = run(&p, &c);
    let s = sol_of(&r)?;
    if s.nfev as u64 != r.st.n_ode {
        return Err(format!("nfev={} but {} RHS calls were made", s.nfev, r.st.n_ode));
    }
    if s.naccpt != s.t.len() - 1 {
        return Err(format!("naccpt={} but {} intervals were reported", s.naccpt, s.t.len() - 1));
    }
    Ok(())
}

fn d11() -> Result<(), String> {
    let p = base(Base::Decay(-1.0));
    let mut c = Cfg::new(Method::BDF, 0.0, 1.0, &p.y0).tol(1e-4, 1e-6);
    c.user_jac = true;
    let r = run(&p, &c);
    let s = sol_of(&r)?;
    if s.nfev as u64 != r.st.n_ode {
        return Err(format!("nfev={} but {} RHS calls were made", s.nfev, r.st.n_ode));
    }
    Ok(())
}

fn d14() -> Result<(), String> {
    let p = base(Base::Decay(-1.0));
    let mut c = Cfg::new(Method::RK4, 0.0, 1.0, &p.y0);
    c.max_step = Some(1e-3);
    let r = run(&p, &c);
    let s = sol_of(&r)?;
    let mx = s.t.windows(2).map(|w| (w[1] - w[0]).abs()).fold(0.0, f64::max);
    if mx > 1e-3 * 1.01 {
        return Err(format!("longest step {} with max_step=1e-3", mx));
    }
    Ok(())
}

fn d16() -> Result<(), String> {
    // one step of size h from exact data on y'=y; interior error at theta=0.5 for h and h/2
    let p = base(Base::Decay(1.0));
    let mut errs = vec![];
    for h in [0.2, 0.1, 0.05] {
        let mut c = Cfg::new(Method::RK4, 0.0, h, &p.y0);
        c.first_step = Some(h);
        c.dense = true;
        let r = run(&p, &c);
        let s = sol_of(&r)?;
        let mut e: f64 = 0.0;
        for th in [0.25, 0.5, 0.75] {
            let t = th * h;
            let v = s.sol(t).map_err(|e| format!("{:?}", e))?;
            e = e.max((v[0] - t.exp()).abs());
        }
        errs.push(e);
    }
    let o1 = (errs[0] / errs[1]).log2();
    let o2 = (errs[1] / errs[2]).log2();
    if o1.min(o2) < 3.5 {
        return Err(format!("observed interior order {:.2}/{:.2} (errors {:e} {:e} {:e}), expected about 4", o1, o2, errs[0], errs[1], errs[2]));
    }
    Ok(())
}

fn d15() -> Result<(), String> {
    let p = base(Base::Harmonic(2.0));
    let mut c = Cfg::new(Method::BDF, 0.0, 2.0, &p.y0).tol(1e-9, 1e-11);
    c.user_jac = true;
    let r = run(&p, &c);
    let s = sol_of(&r)?;
    if s.naccpt != s.t.len() - 1 {
        return Err(format!("naccpt={} but {} reported intervals", s.naccpt, s.t.len() - 1));
    }
    let p = base(Base::Decay(-1.0));
    let c = Cfg::new(Method::DOPRI5, 0.0, 1e-12, &p.y0);
    let r = run(&p, &c);
    let s = sol_of(&r)?;
    if s.status == Status::Success && s.t.len() < 2 {
        return Err(format!("span 1e-12: Success with t={:?}", s.t));
    }
    Ok(())
}

fn d18() -> Result<(), String> {
    let p = base(Base::Decay(-1.0));
    for m in [Method::RK23, Method::DOPRI5, Method::DOP853, Method::BDF] {
        let mut c = Cfg::new(m, 0.0, 1e-3, &p.y0);
        c.max_step = Some(f64::INFINITY);
        let r = run(&p, &c);
        sol_of(&r)?;
        if r.st.tmax > 1e-3 * (1.0 + 1e-12) {
            return Err(format!("{}: RHS evaluated at t={:e}, xend=1e-3", mname(m), r.st.tmax));
        }
    }
    Ok(())
}

fn d19() -> Result<(), String> {
    let p = base(Base::Decay(-1.0));
    let mut c = Cfg::new(Method::RK4, 0.0, 1.0, &p.y0);
    c.events = vec![EventSpec::new(EvKind::T(0.61)).term(1)];
    let r = run(&p, &c);
    let s = sol_of(&r)?;
    for w in s.t.windows(2) {
        if !(w[1] > w[0]) {
            return Err(format!("t not strictly increasing near the event: {:?}", &s.t[s.t.len().saturating_sub(3)..]));
        }
    }
    Ok(())
}

fn d20() -> Result<(), String> {
    let p = base(Base::Decay(-1.0));
    for m in [Method::RADAU, Method::BDF] {
        let mut c = Cfg::new(m, 1.0, 0.999, &p.y0).tol(1e-3, 1e-6);
        c.first_step = Some(-1e-3);
        c.max_step = Some(2.5e-4);
        let r = run(&p, &c);
        let s = sol_of(&r)?;
        if s.status != Status::Success {
            return Err(format!("{}: status {:?} with t={:?}", mname(m), s.status, s.t));
        }
    }
    Ok(())
}

fn d22() -> Result<(), String> {
    let p = base(Base::Harmonic(2.0));
    let mut c = Cfg::new(Method::BDF, 0.0, 3.0, &p.y0).tol(1e-4, 1e-6);
    c.min_step = Some(1e-3);
    c.budget = 1_000_000;
    let ans = |i: u64, _t: f64, _y: &[f64], d: &mut [f64]| {
        if i >= 34 {
            d[0] = f64::NAN;
            d[1] = f64::NAN;
        }
    };
    let r = run_with(&p, &c, Some(&ans), None);
    match &r.out {
        Outcome::Budget => Err("more than 10^6 RHS calls".into()),
        Outcome::Panic(m) => Err(format!("panic {}", m)),
        Outcome::Ok(s) if s.status == Status::Success => Err("Success despite a NaN right-hand side".into()),
        _ => Ok(()),
    }
}

fn d23() -> Result<(), String> {
    let p = crate::problems::Prob {
        name: "rest".into(),
        n: 1,
        f: std::sync::Arc::new(|t, y, d| d[0] = -2.0 * (-2.0 * (t - 1.0) - y[0])),
        jac: None,
        flow: None,
        y0: vec![0.0],
        linear_homogeneous: false,
    };
    let mut c = Cfg::new(Method::BDF, 1.0, 0.0, &p.y0).tol(1e-3, 1e-6);
    c.first_step = Some(-1.0);
    c.max_step = Some(1.0 / 3.7);
    let r = run(&p, &c);
    let s = sol_of(&r)?;
    for w in s.t.windows(2) {
        if !(w[1] < w[0]) {
            return Err(format!("t not strictly decreasing: {:?}", s.t));
        }
    }
    if *s.t.last().unwrap() != 0.0 {
        return Err(format!("last sample {:e} is not xend", s.t.last().unwrap()));
    }
    Ok(())
}

fn d24() -> Result<(), String> {
    // RK4 on [0,1] with the default 100 steps: step ends at multiples of 0.01
    let p = base(Base::Decay(-1.0));
    let c0 = 0.05 + 1e-9;
    let mut c = Cfg::new(Method::RK4, 0.0, 1.0, &p.y0);
    c.events = vec![EventSpec::new(EvKind::T(c0)).scale(1e-6)];
    let r = run(&p, &c);
    let s = sol_of(&r)?;
    if s.t_events[0].len() != 1 || (s.t_events[0][0] - c0).abs() > 2e-11 {
        return Err(format!("events reported at {:?}, root at {:e}", s.t_events[0], c0));
    }
    Ok(())
}

fn d25() -> Result<(), String> {
    let p = crate::problems::reflect(&base(Base::Harmonic(1.5)));
    let mut c = Cfg::new(Method::DOP853, 0.0, -2.5, &p.y0).tol(1e-4, 1e-6);
    c.first_step = Some(-0.75);
    c.events = vec![EventSpec::new(EvKind::Cos(3.0))];
    let r = run(&p, &c);
    let s = sol_of(&r)?;
    for t in &s.t_events[0] {
        if *t > 0.0 || *t < -2.5 {
            return Err(format!("event reported at t={:e}, outside [0,-2.5]: {:?}", t, s.t_events[0]));
        }
    }
    Ok(())
}

fn d27() -> Result<(), String> {
    let p = crate::problems::Prob {
        name: "vdp100".into(),
        n: 2,
        f: std::sync::Arc::new(|_t, y, d| {
            d[0] = y[1];
            d[1] = 100.0 * (1.0 - y[0] * y[0]) * y[1] - y[0];
        }),
        jac: Some(std::sync::Arc::new(|_t, y| vec![0.0, 1.0, -200.0 * y[0] * y[1] - 1.0, 100.0 * (1.0 - y[0] * y[0])])),
        flow: None,
        y0: vec![2.0, 0.0],
        linear_homogeneous: false,
    };
    let mut cr = Cfg::new(Method::RADAU, 0.0, 200.0, &p.y0).tol(1e-11, 1e-14);
    cr.user_jac = true;
    let rr = run(&p, &cr);
    let yref = sol_of(&rr)?.y.last().unwrap().clone();
    let mut c = Cfg::new(Method::RADAU, 0.0, 200.0, &p.y0).tol(0.1, 1e-4);
    c.user_jac = true;
    let r = run(&p, &c);
    let s = sol_of(&r)?;
    let e = (s.y.last().unwrap()[0] - yref[0]).abs();
    if s.naccpt + s.nrejct > s.nstep + 1 {
        return Err(format!("naccpt={} + nrejct={} exceeds nstep={}: attempts counted twice", s.naccpt, s.nrejct, s.nstep));
    }
    if e > 0.05 {
        return Err(format!("final error {:e} with rtol=0.1 (solution amplitude 2)", e));
    }
    Ok(())
}

fn d12() -> Result<(), String> {
    let p = base(Base::Harmonic(1.5));
    let pm = copies(&p, 16);
    for m in [Method::RK23, Method::DOPRI5, Method::DOP853, Method::BDF] {
        let c1 = Cfg::new(m, 0.0, 3.0, &p.y0).tol(1e-6, 1e-8);
        let cm = Cfg::new(m, 0.0, 3.0, &pm.y0).tol(1e-6, 1e-8);
        let (r1, rm) = (run(&p, &c1), run(&pm, &cm));
        let (s1, sm) = (sol_of(&r1)?, sol_of(&rm)?);
        if (s1.t[1] - sm.t[1]).abs() > 1e-9 * s1.t[1].abs() {
            return Err(format!("{}: first step {:e} for the system, {:e} for 16 copies", mname(m), s1.t[1], sm.t[1]));
        }
    }
    Ok(())
}

fn d28() -> Result<(), String> {
    let c0 = 2.0 / 1e-9;
    let p = crate::problems::Prob {
        name: "rest".into(),
        n: 1,
        f: std::sync::Arc::new(move |t, y, d| d[0] = c0 * (c0 * (t - 1.0) - y[0])),
        jac: None,
        flow: None,
        y0: vec![0.0],
        linear_homogeneous: false,
    };
    let mut c = Cfg::new(Method::DOP853, 1.0, 1.0 + 1e-9, &p.y0).tol(1e-8, 1e-11);
    c.first_step = Some(1e-9 / 7.0);
    let r = run(&p, &c);
    let s = sol_of(&r)?;
    for w in s.t.windows(2) {
        if !(w[1] > w[0]) {
            return Err(format!("t not strictly increasing: {:e} then {:e}", w[0], w[1]));
        }
    }
    Ok(())
}

fn d42() -> Result<(), String> {
    let p0 = base(Base::Decay(-1.0));
    let o = 1073741824.0 - 5e-6;
    for m in [Method::DOPRI5, Method::DOP853, Method::RK4] {
        for dirn in [1.0, -1.0] {
            let p = if dirn < 0.0 { crate::problems::reflect(&p0) } else { p0.clone() };
            let (x0, xend) = (dirn * o, dirn * o + dirn * 1e-5);
            let mut c = Cfg::new(m, x0, xend, &p.y0).tol(1e-4, 1e-6);
            if m == Method::RK4 {
                c.first_step = Some(dirn * 1e-5);
            }
            let r = run(&p, &c);
            let s = sol_of(&r)?;
            if s.status != Status::Success || s.naccpt + 1 != s.t.len() {
                return Err(format!("{} on [{:?}, {:?}]: {:?}, {} accepted steps, samples {:?}", mname(m), x0, xend, s.status, s.naccpt, s.t));
            }
        }
    }
    Ok(())
}

fn d41() -> Result<(), String> {
    let c40 = 2f64.powi(-40);
    for (b, span) in [(Base::Decay(-1.0), 2.0), (Base::Harmonic(1.0), 3.0)] {
        let p = crate::problems::timescale(&base(b), c40);
        let (lo, hi) = (0.2, 0.2 + span / c40);
        let yhi = p.exact(lo, &p.y0, hi).ok_or("no exact solution")?;
        for m in [Method::RK23, Method::DOPRI5, Method::RADAU] {
            let mut c = Cfg::new(m, hi, lo, &yhi).tol(1e-3, 1e-5);
            c.user_jac = true;
            let r = run(&p, &c);
            let s = sol_of(&r)?;
            // (the last step x + (xend - x) is taken from 1e11 or so: it ends within an ulp of that, not on 0.2 itself)
            if s.status != Status::Success || !s.t.last().map(|t| (t - lo).abs() <= 4.0 * f64::EPSILON * hi).unwrap_or(false) {
                return Err(format!("{} on {} from {:e} down to {}: {:?} with {} samples", mname(m), p.name, hi, lo, s.status, s.t.len()));
            }
        }
    }
    Ok(())
}

fn d40() -> Result<(), String> {
    let p0 = base(Base::Decay(-0.5));
    for m in [Method::RADAU, Method::BDF] {
        for dirn in [1.0, -1.0] {
            for (o, h) in [(3e5, 0.1), (1e5, 0.2), (1e6, 0.1), (1e9, 0.3)] {
                let p = if dirn < 0.0 { crate::problems::reflect(&p0) } else { p0.clone() };
                let (x0, xend) = (dirn * o, dirn * (o + 1.0));
                let mut c = Cfg::new(m, x0, xend, &p.y0).tol(1e-6, 1e-9);
                c.first_step = Some(dirn * h);
                c.max_step = Some(h);
                let r = run(&p, &c);
                let s = sol_of(&r)?;
                if s.status != Status::Success || s.t.last().map(|t| t.to_bits()) != Some(xend.to_bits()) {
                    return Err(format!("{} on [{:e}, {:e}] with steps of {}: {:?}, last sample {:?}", mname(m), x0, xend, h, s.status, s.t.last()));
                }
                c.t_eval = Some(vec![x0, x0 + dirn * 0.5, xend]);
                let r = run(&p, &c);
                let s = sol_of(&r)?;
                if s.status != Status::Success || s.t.len() != 3 {
                    return Err(format!("{} on [{:e}, {:e}] with steps of {}: {:?} with {} of 3 requested times: {:?}", mname(m), x0, xend, h, s.status, s.t.len(), s.t));
                }
            }
        }
    }
    Ok(())
}

fn d39() -> Result<(), String> {
    let l = 200.0;
    let p = crate::problems::Prob {
        name: "oscillator with a relaxing follower".into(),
        n: 3,
        f: std::sync::Arc::new(move |_t, y, d| {
            d[0] = y[1];
            d[1] = -y[0];
            d[2] = -l * (y[2] - y[0]);
        }),
        jac: None,
        flow: None,
        y0: vec![1.0, 0.0, 1.0],
        linear_homogeneous: true,
    };
    for m in [Method::DOPRI5, Method::DOP853] {
        let c = Cfg::new(m, 0.0, 60.0, &p.y0).tol(1e-3, 1e-6);
        let b = run(&p, &c);
        let sb = sol_of(&b)?;
        for k in [-600i32, 600] {
            let f = 2f64.powi(k);
            let mut cs = c.clone();
            cs.y0 = c.y0.iter().map(|v| v * f).collect();
            cs.atol = Tol::S(1e-6 * f);
            let r = run(&p, &cs);
            let s = sol_of(&r)?;
            if s.status != sb.status || s.naccpt != sb.naccpt {
                return Err(format!("{} scaled by 2^{}: status {:?} after {} accepted steps, unscaled {:?} after {}", mname(m), k, s.status, s.naccpt, sb.status, sb.naccpt));
            }
        }
    }
    Ok(())
}

fn d37() -> Result<(), String> {
    let p0 = base(Base::Decay(-1.0));
    for dirn in [1.0, -1.0] {
        let p = if dirn < 0.0 { crate::problems::reflect(&p0) } else { p0.clone() };
        let mut c = Cfg::new(Method::RK4, dirn * 1e9, dirn * (1e9 + 1.0), &p.y0);
        c.first_step = Some(dirn * 1e-8);
        c.budget = 200_000;
        let r = run(&p, &c);
        match &r.out {
            Outcome::Budget => return Err(format!("RK4 from x0 = {:e} with first_step 1e-8 (below one ulp of x0): no return within 2e5 right-hand side calls", dirn * 1e9)),
            Outcome::Panic(msg) => return Err(format!("RK4 from x0 = {:e}: panicked: {}", dirn * 1e9, msg)),
            Outcome::Ok(s) if s.status == Status::Success => return Err(format!("RK4 from x0 = {:e} with a step that cannot advance x reports Success", dirn * 1e9)),
            _ => {}
        }
    }
    Ok(())
}

fn d36() -> Result<(), String> {
    let p0 = base(Base::Decay(-1.0));
    for dirn in [1.0, -1.0] {
        let p = if dirn < 0.0 { crate::problems::reflect(&p0) } else { p0.clone() };
        for m in [Method::RADAU, Method::BDF] {
            let mut c = Cfg::new(m, 0.0, dirn * 5e-4, &p.y0);
            c.min_step = Some(1e-3);
            let r = run(&p, &c);
            match &r.out {
                Outcome::Panic(msg) => return Err(format!("{} on [0,{:e}] with min_step 1e-3 panicked: {}", mname(m), dirn * 5e-4, msg)),
                Outcome::Budget => return Err(format!("{}: no return", mname(m))),
                _ => {}
            }
        }
    }
    Ok(())
}

fn d35() -> Result<(), String> {
    let p0 = base(Base::Lin3);
    for span in [3.0 * (0.05 + 0.00987 * 8.0), 3.0 * (0.05 + 0.00987 * 10.0)] {
        for dirn in [1.0, -1.0] {
            let p = if dirn < 0.0 { crate::problems::reflect(&p0) } else { p0.clone() };
            let mut c = Cfg::new(Method::RK23, 0.0, dirn * span, &p.y0).tol(1e-2, 1e-4);
            c.dense = true;
            c.user_jac = true;
            let r = run(&p, &c);
            let s = sol_of(&r)?;
            for t in &s.t {
                if let Err(e) = s.sol(*t) {
                    return Err(format!("span {:e}: sol({:e}) at a reported time fails: {:?} (sol_span {:?})", dirn * span, t, e, s.sol_span()));
                }
            }
            if let Err(e) = s.sol_many(&s.t) {
                return Err(format!("span {:e}: sol_many over the reported times fails: {:?}", dirn * span, e));
            }
        }
    }
    Ok(())
}

fn d34() -> Result<(), String> {
    let p = base(Base::Harmonic(1.3));
    let mut c = Cfg::new(Method::RK23, 0.0, 1.0, &p.y0).tol(1e-6, 1e-8);
    c.low_dense = Some(false);
    let script: Vec<(usize, crate::env::Ans)> = (0..400).map(|k| (k, crate::env::Ans::XOut(-1.0))).collect();
    let r = crate::run::run_lowlevel(&p, &c, &script, &[], None, false);
    if r.ok().is_none() || r.recs.len() < 3 {
        return Err(format!("run ended with {}", r.outcome_name()));
    }
    for (j, q) in r.recs.iter().enumerate().skip(1) {
        if !q.has_interp {
            return Err(format!("step {}: no interpolant although XOut was returned", j));
        }
        let d = q.at_x.iter().zip(&q.y).fold(0.0f64, |a, (u, v)| a.max((u - v).abs()));
        if d > 1e-12 {
            return Err(format!("step {}: interpolant(x) = {:?} but the state is {:?}", j, q.at_x, q.y));
        }
    }
    Ok(())
}

fn d33() -> Result<(), String> {
    let p = crate::problems::Prob {
        name: "tracking".into(),
        n: 1,
        f: std::sync::Arc::new(|t, y, d| d[0] = -2000.0 * (y[0] - t.cos())),
        jac: None,
        flow: None,
        y0: vec![1.0],
        linear_homogeneous: false,
    };
    for m in [Method::DOPRI5, Method::DOP853] {
        let c = Cfg::new(m, 0.0, 4.0, &p.y0).tol(1e-6, 1e-8);
        let r = run(&p, &c);
        let s = sol_of(&r)?;
        if s.naccpt != s.t.len() - 1 {
            return Err(format!("{}: status {:?}, naccpt = {} but {} reported intervals", mname(m), s.status, s.naccpt, s.t.len() - 1));
        }
    }
    Ok(())
}

fn d32() -> Result<(), String> {
    let p = crate::problems::warp(&base(Base::Logistic(3.0)), crate::problems::Warp::Sin);
    for m in [Method::RADAU, Method::BDF] {
        let mut c = Cfg::new(m, 0.0, 3.0, &p.y0).tol(1e-6, 1e-8);
        c.first_step = Some(1.5);
        c.max_steps = Some(5);
        c.dense = true;
        c.user_jac = true;
        let r = run(&p, &c);
        let s = sol_of(&r)?;
        if s.t.len() == 1 {
            match s.sol(0.0) {
                Ok(v) if v[0] == p.y0[0] => {}
                other => return Err(format!("{}: status {:?}, t = {:?}, sol_span {:?}, sol(x0) = {:?}", mname(m), s.status, s.t, s.sol_span(), other)),
            }
        }
    }
    Ok(())
}

fn d31() -> Result<(), String> {
    let p = base(Base::Decay(-1.0));
    for (fs, teval) in [(Some(4.0), false), (Some(1.3), false), (None, true)] {
        let mut c = Cfg::new(Method::DOP853, 0.0, 2.0, &p.y0).tol(1e-4, 1e-6);
        c.first_step = fs;
        if teval {
            c.t_eval = Some((0..=6).map(|i| 2.0 * i as f64 / 6.0).collect());
        }
        c.budget = 1_000_000;
        let n0 = run(&p, &c).st.n_ode;
        // every single transient NaN answer of the run
        for at in 0..n0 {
            let ans = move |i: u64, _t: f64, _y: &[f64], d: &mut [f64]| {
                if i == at {
                    d[0] = f64::NAN;
                }
            };
            let r = run_with(&p, &c, Some(&ans), None);
            match &r.out {
                Outcome::Budget => return Err(format!("NaN at call {}: more than 10^6 RHS calls", at)),
                Outcome::Panic(m) => return Err(format!("NaN at call {}: panic {}", at, m)),
                Outcome::Ok(s) if s.status == Status::Success && s.y.iter().any(|v| !v[0].is_finite()) => {
                    return Err(format!("first_step {:?}, t_eval {}: NaN at call {} of {}: Success with y = {:?} at t = {:?}", fs, teval, at, n0, s.y.last(), s.t.last()))
                }
                _ => {}
            }
        }
    }
    Ok(())
}

fn d30() -> Result<(), String> {
    let p = base(Base::Harmonic(1.0));
    for (x0, dir) in [(50.2, 1.0), (50.2, -1.0), (-1000.0, 1.0)] {
        let mut c = Cfg::new(Method::BDF, x0, x0 + dir * 2.0, &p.y0);
        c.rtol = Tol::S(1e-9);
        c.atol = Tol::S(1e-12);
        let r = run(&p, &c);
        let s = sol_of(&r)?;
        if s.status != Status::Success || s.t.last().copied() != Some(x0 + dir * 2.0) {
            return Err(format!("x0={} dir={}: status {:?}, {} samples, last t {:?}", x0, dir, s.status, s.t.len(), s.t.last()));
        }
    }
    Ok(())
}

fn d29() -> Result<(), String> {
    let p = base(Base::Decay(-1.0));
    let mut c = Cfg::new(Method::RK4, 0.0, 1.0, &p.y0);
    c.first_step = Some(0.1);
    c.events = vec![EventSpec::new(EvKind::T(0.7300001)).scale(1e-170)];
    let r = run(&p, &c);
    let s = sol_of(&r)?;
    if s.t_events[0].len() != 1 || (s.t_events[0][0] - 0.7300001).abs() > 2e-11 {
        return Err(format!("events reported at {:?}, root at 0.7300001", s.t_events[0]));
    }
    Ok(())
}
