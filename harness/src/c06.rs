//! C06 — dense output is continuous, matches the samples and covers exactly the span.

use crate::env::{EvKind, EventSpec};
use crate::explore::{describe, dim, lattice};
use crate::problems::{base, reflect, warp, Base, Prob, Warp};
use crate::regress;
use crate::report::{is_thorough, CaseOut, Report, Violation};
use crate::run::{mname, run, run_lowlevel, Cfg, Outcome, M6};
use ivp::prelude::*;
use serde_json::{json, Value};

fn problems() -> Vec<(Prob, f64, f64)> {
    // (problem, span, Lipschitz bound of the solution in t)
    vec![(base(Base::Harmonic(2.0)), 4.0, 2.5), (warp(&base(Base::Logistic(3.0)), Warp::Sin), 3.0, 1.2), (base(Base::Lin3), 3.0, 3.0)]
}

const N_SPAN_FACTORS: usize = 97;
fn span_factors() -> Vec<f64> {
    // 1 (the nominal span) and 96 further lengths with unrelated roundings
    (0..N_SPAN_FACTORS).map(|i| if i == 0 { 1.0 } else { 0.05 + 0.00987 * i as f64 }).collect()
}

pub fn run_check(replay: Option<Value>) -> i32 {
    let mut rep = Report::new("C06", "model_checking");
    let only = replay.as_ref().and_then(|c| c["key"].as_str().map(|s| s.to_string()));
    let thorough = is_thorough();
    let probs = problems();
    let tols: Vec<f64> = if thorough { vec![1e-2, 1e-3, 1e-4, 1e-5, 1e-6, 1e-7, 1e-8, 1e-9, 1e-10] } else { vec![1e-3, 1e-6, 1e-9, 1e-2] };
    // (the last mode: the first attempt is already the step clipped to xend; at the tighter tolerances it is
    // rejected with the last-step flag set and nothing accepted yet)
    let fss = ["none", "small(span/200)", "large(span/2)", "covering(1.5 span)"];
    let mss = ["none", "small(span/23)"];
    let dims = vec![
        dim("method", &M6.iter().map(|m| mname(*m)).collect::<Vec<_>>()),
        dim("direction", &["forward", "backward(reflected)"]),
        dim("problem", &probs.iter().map(|p| p.0.name.clone()).collect::<Vec<_>>()),
        dim("tol", &tols),
        dim("first_step", &fss),
        dim("max_step", &mss),
        dim("api", &["low-level SolOut", "solve_ivp dense", "solve_ivp dense + terminal event", "solve_ivp without dense", "solve_ivp dense + max_steps=5 (run ends early)", "solve_ivp dense + first_step=2e-13", "solve_ivp dense + two requested times (most steps hold none)"]),
        // the end point in many different roundings (api "solve_ivp dense" only): the last reported time and
        // the end of the last segment must be the same number, however xold + h rounds
        dim("span_factor", &span_factors()),
    ];
    lattice(&mut rep, "c06", &dims, only.as_deref(), |key, idx| {
        let m = M6[idx[0]];
        let backward = idx[1] == 1;
        let (p0, span0, lip) = &probs[idx[2]];
        if idx[7] != 0 && (idx[6] != 1 || idx[4] != 0 || idx[5] != 0) {
            return None;
        }
        if idx[4] == 3 && m == Method::RK4 {
            return None; // no error test, nothing is rejected; one step over the whole span is not a meaningful run
        }
        let span = &(span0 * span_factors()[idx[7]]);
        let tol = tols[idx[3]];
        let p = if backward { reflect(p0) } else { p0.clone() };
        let xend = if backward { -*span } else { *span };
        let mut c = Cfg::new(m, 0.0, xend, &p.y0).tol(tol, tol * 1e-2);
        c.user_jac = true;
        c.first_step = match idx[4] {
            0 => None,
            1 => Some(xend / 200.0),
            2 => Some(xend / 2.0),
            _ => Some(xend * 1.5),
        };
        c.max_step = if idx[5] == 1 { Some(span / 23.0) } else { None };
        if m == Method::RK4 && c.first_step.is_none() {
            c.first_step = Some(xend / 64.0);
        }
        let api = idx[6];
        let desc = json!({"key": key, "point": describe(&dims, idx), "cfg": c.json(&p.name)});
        let mut out = CaseOut::default();
        macro_rules! viol {
            ($c:expr, $m:expr) => {
                out.violations.push(Violation::new(key, $c, $m, desc.clone()).with("method", mname(m)).with("api", api).with("backward", backward))
            };
        }
        let dir = xend.signum();
        if api == 0 {
          // all-Continue, and a history in which the callback rescales the state twice (ModifiedSolution): the next
          // step's interpolant starts from the state the callback left behind
          let scripts: [Vec<(usize, crate::env::Ans)>; 2] = [vec![], vec![(2, crate::env::Ans::Modified(1.5)), (4, crate::env::Ans::Modified(0.5))]];
          for (si, script) in scripts.iter().enumerate() {
            let r = run_lowlevel(&p, &c, script, &[0.5], None, false);
            out.events += r.recs.len() as u64;
            if r.ok().map(|ir| ir.status != Status::Success).unwrap_or(true) {
                if si == 1 {
                    continue; // a rescaled state may legitimately end differently; the all-Continue run is the judged one
                }
                viol!("outcome", format!("low-level run ended with {}", r.outcome_name()));
                return Some(out);
            }
            let recs_raw = &r.recs;
            // the state each callback left behind
            let recs: Vec<crate::env::StepRec> = recs_raw.iter().enumerate().map(|(j, q)| {
                let mut q2 = q.clone();
                if let Some((_, crate::env::Ans::Modified(f))) = script.iter().find(|(k, _)| *k == j) {
                    q2.y = q.y.iter().map(|v| v * f).collect();
                }
                q2
            }).collect();
            if si == 1 {
                out.tag("dense-after-modification");
            }
            for j in 1..recs.len() {
                let (q, pq) = (&recs_raw[j], &recs[j - 1]);
                if !q.has_interp {
                    viol!("no-interpolant", format!("step {} has no interpolant", j));
                    continue;
                }
                let sc = 1.0 + q.y.iter().chain(pq.y.iter()).fold(0.0f64, |a, b| a.max(b.abs()));
                let tl = 64.0 * f64::EPSILON * sc;
                let dl = q.at_xold.iter().zip(&pq.y).fold(0.0f64, |a, (u, v)| a.max((u - v).abs()));
                let dr = q.at_x.iter().zip(&q.y).fold(0.0f64, |a, (u, v)| a.max((u - v).abs()));
                if !(dl <= tl) || !(dr <= tl) {
                    viol!("endpoint-identity", format!("step {} [{:e},{:e}]: interpolant(xold) off by {:e}, interpolant(x) off by {:e} (tolerance {:e})", j, q.xold, q.x, dl, dr, tl));
                }
                if q.xold.to_bits() != pq.x.to_bits() {
                    viol!("contiguity", format!("step {}: xold={:e} but previous x={:e}", j, q.xold, pq.x));
                }
                let (lo, hi) = (q.xold.min(q.x), q.xold.max(q.x));
                if (q.bounds.0 - lo).abs() > 4.0 * f64::EPSILON * lo.abs().max(1.0) || (q.bounds.1 - hi).abs() > 4.0 * f64::EPSILON * hi.abs().max(1.0) {
                    viol!("bounds", format!("step {}: bounds {:?} vs [{:e},{:e}]", j, q.bounds, lo, hi));
                }
                // the midpoint value lies between plausible limits: |interp(mid) - y_prev| <= L |h| (no wild interior)
                let h = (q.x - q.xold).abs();
                let dm = q.at_mid.iter().zip(&pq.y).fold(0.0f64, |a, (u, v)| a.max((u - v).abs()));
                if !(dm <= 4.0 * lip * h * sc + 1e-9) {
                    viol!("interior", format!("step {}: interpolant(midpoint) is {:e} away from the left state (h={:e})", j, dm, h));
                }
                if m == Method::BDF && j >= 2 && recs[j].cont6 != recs[j - 1].cont6 {
                    out.tag(if recs[j].cont6 > recs[j - 1].cont6 { "bdf-order-raise" } else { "bdf-order-drop" });
                }
                out.validated += 3;
            }
            if r.st.n_ode as usize > 3 * recs.len() + 20 && !crate::run::is_implicit(m) {
                out.tag("with-rejections");
            }
            if si == 0 {
                let mut h = r.st.fp;
                h.u(recs.len() as u64);
                out.fp = Some(h.as_u128());
            }
          }
        } else {
            c.dense = api != 3;
            if api == 4 {
                c.max_steps = Some(5);
            }
            if api == 5 {
                // accepted steps shorter than every absolute time-matching constant are steps too
                if m == Method::RK4 || idx[4] != 0 {
                    return None;
                }
                c.first_step = Some(dir * 2e-13);
            }
            if api == 2 {
                c.events = vec![EventSpec::new(EvKind::T(0.613 * xend)).term(1), EventSpec::new(EvKind::Cos(2.0))];
            }
            if api == 6 {
                c.t_eval = Some(vec![0.35 * xend, 0.7 * xend]);
            }
            let r = run(&p, &c);
            out.events = r.st.n_ode;
            let s = match &r.out {
                Outcome::Ok(s) => s,
                _ => {
                    viol!("outcome", format!("run ended with {}", r.outcome_name()));
                    return Some(out);
                }
            };
            if api == 3 {
                let e1 = format!("{:?}", s.sol(0.5 * xend));
                let e2 = format!("{:?}", s.sol_many(&[0.0, xend]));
                if !e1.contains("NotEnabled") || !e2.contains("NotEnabled") || s.sol_span().is_some() {
                    viol!("not-enabled", format!("dense_output disabled but sol -> {}, sol_many -> {}, sol_span -> {:?}", e1, e2, s.sol_span()));
                }
                out.tag("dense-disabled");
                out.validated += 1;
                out.fp = Some(r.st.fp.as_u128() ^ 3);
                return Some(out);
            }
            if api == 2 {
                if s.status != Status::UserInterrupt {
                    viol!("outcome", format!("terminal event expected, status {:?}", s.status));
                    return Some(out);
                }
                out.tag("terminal-stop");
            } else if api == 4 && s.status == Status::NeedLargerNMax {
                out.tag("dense-after-early-end");
            } else if s.status != Status::Success {
                viol!("outcome", format!("status {:?}", s.status));
                return Some(out);
            }
            if api == 5 && s.t.len() >= 2 && (s.t[1] - s.t[0]).abs() <= 1e-12 {
                out.tag("dense-with-tiny-step");
            }
            let (a, b) = match s.sol_span() {
                Some(x) => x,
                None => {
                    viol!("span", "dense_output requested but sol_span() is None".to_string());
                    return Some(out);
                }
            };
            let last = *s.t.last().unwrap();
            if a.to_bits() != c.x0.to_bits() {
                viol!("span", format!("sol_span starts at {:e}, x0={:e}", a, c.x0));
            }
            if (b - last) * dir < -1e-12 {
                viol!("span", format!("sol_span ends at {:e} but the last reported time is {:e}", b, last));
            }
            // every stored sample is reproduced
            for (t, y) in s.t.iter().zip(s.y.iter()) {
                match s.sol(*t) {
                    Ok(v) => {
                        let sc = 1.0 + y.iter().fold(0.0f64, |a, b| a.max(b.abs()));
                        let d = v.iter().zip(y).fold(0.0f64, |a, (u, w)| a.max((u - w).abs()));
                        if !(d <= 64.0 * f64::EPSILON * sc + 1e-12 * lip) {
                            viol!("sample-mismatch", format!("sol({:e}) differs from the stored sample by {:e}", t, d));
                        }
                        out.validated += 1;
                    }
                    Err(e) => viol!("sample-not-covered", format!("sol({:e}) at a stored sample fails: {:?}", t, e)),
                }
            }
            // succeeds on a grid across the span and on both ends; sol_many == map(sol)
            let grid: Vec<f64> = (0..=32).map(|i| a + (b - a) * i as f64 / 32.0).collect();
            let singles: Vec<Result<Vec<f64>, String>> = grid.iter().map(|t| s.sol(*t).map_err(|e| format!("{:?}", e))).collect();
            for (t, r1) in grid.iter().zip(&singles) {
                if let Err(e) = r1 {
                    viol!("gap", format!("sol({:e}) inside the span [{:e},{:e}] fails: {}", t, a, b, e));
                }
            }
            match s.sol_many(&grid) {
                Ok(many) => {
                    for (i, v) in many.iter().enumerate() {
                        if let Ok(w) = &singles[i] {
                            if v.iter().zip(w).any(|(x, y)| x.to_bits() != y.to_bits()) {
                                viol!("sol-many", format!("sol_many differs from sol at t={:e}", grid[i]));
                            }
                        }
                    }
                }
                Err(e) => viol!("sol-many", format!("sol_many over a grid inside the span fails: {:?}", e)),
            }
            // a batch is a set of independent queries: reversed and interleaved orders give the same values
            let n_g = grid.len();
            let orders: [Vec<usize>; 2] = [(0..n_g).rev().collect(), (0..n_g).map(|i| (i * 13) % n_g).collect()];
            for ord in &orders {
                let ts: Vec<f64> = ord.iter().map(|&i| grid[i]).collect();
                match s.sol_many(&ts) {
                    Ok(many) => {
                        for (j, v) in many.iter().enumerate() {
                            if let Ok(w) = &singles[ord[j]] {
                                if v.iter().zip(w).any(|(x, y)| x.to_bits() != y.to_bits()) {
                                    viol!("sol-many-order", format!("sol_many over an unsorted batch differs from sol at t={:e} (position {} of the batch)", ts[j], j));
                                    break;
                                }
                            }
                        }
                        out.validated += 1;
                    }
                    Err(e) => viol!("sol-many-order", format!("sol_many over an unsorted batch inside the span fails: {:?}", e)),
                }
            }
            // continuity across interior boundaries
            for k in 1..s.t.len().saturating_sub(1) {
                let t = s.t[k];
                if (t - a).abs() < 1e-9 || (t - b).abs() < 1e-9 {
                    continue;
                }
                if let (Ok(l), Ok(rr)) = (s.sol(t - 2e-12), s.sol(t + 2e-12)) {
                    let sc = 1.0 + l.iter().fold(0.0f64, |a, b| a.max(b.abs()));
                    let d = l.iter().zip(&rr).fold(0.0f64, |a, (u, v)| a.max((u - v).abs()));
                    if !(d <= lip * sc * 8e-12 + 64.0 * f64::EPSILON * sc) {
                        viol!("discontinuity", format!("sol jumps by {:e} across the step boundary at t={:e}", d, t));
                    }
                    out.validated += 1;
                }
            }
            // clearly outside: out-of-range error
            let w = (b - a).abs();
            let (lo, hi) = (a.min(b), a.max(b));
            for t in [lo - 1e-9 * w.max(1.0) - 1e-6, hi + 1e-9 * w.max(1.0) + 1e-6, lo - w.max(1e-6), hi + w.max(1e-6)] {
                let e = format!("{:?}", s.sol(t));
                if !e.contains("OutOfRange") {
                    viol!("out-of-range", format!("sol({:e}) outside the span [{:e},{:e}] returned {}", t, a, b, &e[..e.len().min(60)]));
                }
                let e = format!("{:?}", s.sol_many(&[a, t]));
                if !e.contains("OutOfRange") {
                    viol!("out-of-range", format!("sol_many with {:e} outside the span returned {}", t, &e[..e.len().min(60)]));
                }
            }
            out.tag("dense-run");
            let mut h = r.st.fp;
            h.u(api as u64);
            out.fp = Some(h.as_u128());
        }
        out.sample = Some(desc);
        Some(out)
    });
    // degenerate zero-length run
    let zd = vec![dim("method", &M6.iter().map(|m| mname(*m)).collect::<Vec<_>>()), dim("x0", &[0.0, 2.5, -1e3]), dim("dense_output", &[true, false]), dim("problem", &["oscillator (n=2)", "lin3 (n=3)", "decay (n=1)"])];
    lattice(&mut rep, "zero", &zd, only.as_deref(), |key, idx| {
        let p = [base(Base::Harmonic(1.0)), base(Base::Lin3), base(Base::Decay(-1.0))][idx[3]].clone();
        let x0 = [0.0, 2.5, -1e3][idx[1]];
        let mut c = Cfg::new(M6[idx[0]], x0, x0, &p.y0);
        c.dense = idx[2] == 0;
        let r = run(&p, &c);
        let mut out = CaseOut::default();
        let desc = json!({"key": key, "cfg": c.json(&p.name)});
        if !c.dense {
            // the degenerate run with dense output disabled: NotEnabled like any other run
            match &r.out {
                Outcome::Ok(s) => {
                    let (e1, e2) = (format!("{:?}", s.sol(x0)), format!("{:?}", s.sol_many(&[x0])));
                    if !e1.contains("NotEnabled") || !e2.contains("NotEnabled") || s.sol_span().is_some() {
                        out.violations.push(Violation::new(key, "zero-length-not-enabled", format!("zero-length run with dense_output disabled: sol -> {}, sol_many -> {}, sol_span -> {:?}", &e1[..e1.len().min(60)], &e2[..e2.len().min(60)], s.sol_span()), desc));
                    } else {
                        out.tag("zero-length-disabled");
                        out.validated = 1;
                    }
                }
                _ => out.violations.push(Violation::new(key, "zero-length", format!("zero-length run ended with {}", r.outcome_name()), desc)),
            }
            out.events = 1;
            return Some(out);
        }
        match &r.out {
            Outcome::Ok(s) => match s.sol(x0) {
                Ok(v) if v.iter().zip(&p.y0).all(|(a, b)| (a - b).abs() <= 1e-14) => {
                    out.tag("zero-length");
                    out.validated = 1;
                }
                other => out.violations.push(Violation::new(key, "zero-length", format!("sol(x0) of the zero-length run gives {:?}", other), desc)),
            },
            _ => out.violations.push(Violation::new(key, "zero-length", format!("zero-length run ended with {}", r.outcome_name()), desc)),
        }
        out.events = 1;
        Some(out)
    });
    // far from the time origin with small steps (x0 = ±1e9, 500 steps of 2e-4): a time still identifies its
    // own step; nothing in the segment lookup may scale with |t|
    let fd = vec![dim("method", &M6.iter().map(|m| mname(*m)).collect::<Vec<_>>()), dim("direction", &["forward", "backward(reflected)"]), dim("frequency", &[2.0, 2000.0])];
    lattice(&mut rep, "far", &fd, only.as_deref(), |key, idx| {
        let m = M6[idx[0]];
        let backward = idx[1] == 1;
        let origin = 1e9;
        // the fast oscillator turns by 0.2 rad per step: a value taken from a neighbouring step is visibly wrong
        // (its steps are all given: the automatic first step trips the step-size guards at this distance)
        let fast = idx[2] == 1;
        let w = if fast { 2000.0 } else { 2.0 };
        // (a pure rotation for the fast one: |y| = 1.12, |y'| = 1.12 w in both components)
        let p0 = crate::problems::shift(&if fast { base(Base::Spiral(0.0, w)) } else { base(Base::Harmonic(w)) }, origin);
        let p = if backward { reflect(&p0) } else { p0 };
        let (x0, xend) = if backward { (-origin, -origin - 0.1) } else { (origin, origin + 0.1) };
        let mut c = Cfg::new(m, x0, xend, &p.y0).tol(1e-6, 1e-8);
        c.user_jac = true;
        c.dense = true;
        c.max_step = Some(if fast { 1e-4 } else { 2e-4 });
        // (RK4's fixed step; Radau's absolute default first step of 1e-6 is below its own step-size guard
        // 0.1|h| > |x| eps at |x| = 1e9, so it is given a first step as well)
        // (RK4's fixed step; Radau's absolute default first step of 1e-6 is below its own step-size guard
        // 0.1|h| > |x| eps at |x| = 1e9, so it is given a first step as well)
        if m == Method::RK4 || m == Method::RADAU {
            c.first_step = Some(if backward { -2e-4 } else { 2e-4 });
        }
        if fast {
            c.first_step = Some(if backward { -1e-4 } else { 1e-4 });
            c = c.tol(1e-4, 1e-6);
            c.dense = true;
            c.user_jac = true;
            c.max_step = Some(1e-4);
        }
        let r = run(&p, &c);
        let mut out = CaseOut::default();
        out.events = r.st.n_ode;
        let desc = json!({"key": key, "cfg": c.json(&p.name), "outcome": r.outcome_name()});
        match r.sol() {
            Some(s) if s.status == Status::Success && s.t.len() > 400 => {
                // the abscissae themselves are only known to ulp(1e9) = 1.2e-7: allow |y'| * 8 ulp
                let dymax = 1.25 * w;
                let slack = 8.0 * crate::util::ulp(origin) * dymax + 64.0 * f64::EPSILON;
                let mut worst: (f64, f64) = (0.0, 0.0);
                for (t, y) in s.t.iter().zip(&s.y) {
                    match s.sol(*t) {
                        Ok(v) => {
                            let d = v.iter().zip(y).fold(0.0f64, |a, (u, w)| a.max((u - w).abs()));
                            if d > worst.0 {
                                worst = (d, *t);
                            }
                        }
                        Err(e) => {
                            out.violations.push(Violation::new(key, "sample-not-covered", format!("sol({:e}) at a stored sample fails: {:?}", t, e), desc.clone()).with("method", mname(m)).with("api", "far-origin").with("backward", backward));
                            break;
                        }
                    }
                }
                if std::env::var("VERIF_DEBUG").is_ok() {
                    println!("DBG far {} b={} n={} worst mismatch {:e} at {:e}", mname(m), backward, s.t.len(), worst.0, worst.1);
                }
                if worst.0 > slack {
                    out.violations.push(Violation::new(key, "sample-mismatch", format!("sol({:e}) differs from the stored sample by {:e} (allowed {:e}: eight ulp of the abscissa times |y'|)", worst.1, worst.0, slack), desc.clone()).with("method", mname(m)).with("api", "far-origin").with("backward", backward));
                }
                // a quarter into each step the value is still close to the step's left sample
                if fast {
                    for k in 0..s.t.len() - 1 {
                        let h = s.t[k + 1] - s.t[k];
                        let t = s.t[k] + 0.25 * h;
                        if let Ok(v) = s.sol(t) {
                            let d = v.iter().zip(&s.y[k]).fold(0.0f64, |a, (u, w)| a.max((u - w).abs()));
                            if d > dymax * h.abs() * 0.3 + slack {
                                out.violations.push(Violation::new(key, "own-step", format!("a quarter into the step from {:e} (length {:e}) sol differs from the step's left sample by {:e}", s.t[k], h, d), desc.clone()).with("method", mname(m)).with("api", "far-origin").with("backward", backward));
                                break;
                            }
                        }
                    }
                }
                // a grid between the samples: against the exact solution
                let mut werr: f64 = 0.0;
                for k in 0..s.t.len() - 1 {
                    let t = 0.5 * (s.t[k] + s.t[k + 1]);
                    if let (Ok(v), Some(ex)) = (s.sol(t), p.exact(x0, &p.y0, t)) {
                        werr = werr.max(v.iter().zip(&ex).fold(0.0f64, |a, (u, w)| a.max((u - w).abs())));
                    }
                }
                // every step advances the state by h but the abscissa by fl(x + h): a drift of up to one ulp(x)
                // per step that no solver can avoid
                let drift = s.t.len() as f64 * crate::util::ulp(origin) * 2.5;
                if !fast && werr > 1e-6 + drift {
                    out.violations.push(Violation::new(key, "far-origin-accuracy", format!("sol at step midpoints is off by {:e}", werr), desc.clone()).with("method", mname(m)).with("api", "far-origin").with("backward", backward));
                }
                out.validated = s.t.len() as u64;
                out.tag("far-origin");
            }
            _ => out.violations.push(Violation::new(key, "outcome", format!("far-origin run ended with {} ({} samples)", r.outcome_name(), r.sol().map(|s| s.t.len()).unwrap_or(0)), desc.clone()).with("method", mname(m)).with("api", "far-origin")),
        }
        out.fp = Some(r.st.fp.as_u128() ^ 0x77);
        out.sample = Some(desc);
        Some(out)
    });
    if only.is_some() {
        for v in &rep.violations {
            println!("replay: VIOLATED [{}]: {}\n{}", v.sig["check"], v.msg, serde_json::to_string_pretty(&v.case).unwrap());
        }
        if rep.violations.is_empty() {
            println!("replay: property holds on this case");
        }
        return if rep.violations.is_empty() { 0 } else { 1 };
    }
    rep.violations.extend(regress::violations_for("C06"));
    for t in ["dense-run", "terminal-stop", "dense-disabled", "zero-length", "bdf-order-raise", "bdf-order-drop", "with-rejections", "dense-after-early-end", "dense-with-tiny-step", "zero-length-disabled", "far-origin"] {
        rep.require(t, 1);
    }
    rep.rule = "full product of the lattice; low-level runs: every accepted step's interpolant is evaluated at both ends and the midpoint inside the callback; solve_ivp runs: sol at every stored sample, on a 33-point grid over sol_span, 2e-12 left/right of every interior boundary, clearly outside, sol_many vs sol (sorted, reversed and interleaved batches), with and without a terminal event, with dense_output disabled, for runs that end early (max_steps=5, NeedLargerNMax) and for runs whose first accepted step is 2e-13 long; distinct = distinct RHS fingerprints x api".into();
    rep.assumptions.push("endpoint identities to 64 eps (1+|y|); continuity across a boundary to L*8e-12 where L is the alphabet's Lipschitz bound".into());
    rep.finish()
}
