//! Problem alphabets with closed-form flows, time warps, state mixings, reflections, copies,
//! a conditioning estimate from the closed-form flow, and an independent reference integrator.

use ivp::matrix::Matrix;
use std::sync::Arc;

pub type F = Arc<dyn Fn(f64, &[f64], &mut [f64]) + Send + Sync>;
/// dense row-major Jacobian
pub type J = Arc<dyn Fn(f64, &[f64]) -> Vec<f64> + Send + Sync>;
pub type Flow = Arc<dyn Fn(f64, &[f64], f64) -> Vec<f64> + Send + Sync>;

#[derive(Clone)]
pub struct Prob {
    pub name: String,
    pub n: usize,
    pub f: F,
    pub jac: Option<J>,
    pub flow: Option<Flow>,
    pub y0: Vec<f64>,
    pub linear_homogeneous: bool,
}

impl Prob {
    pub fn rhs(&self) -> impl Fn(f64, &[f64], &mut [f64]) + '_ {
        move |t, y, d| (self.f)(t, y, d)
    }
    pub fn exact(&self, x0: f64, y0: &[f64], t: f64) -> Option<Vec<f64>> {
        self.flow.as_ref().map(|fl| fl(x0, y0, t))
    }
    /// writes the analytic Jacobian into a (Full or Banded, in-band only) matrix
    /// the way a user with a sparse Jacobian writes it: only the entries that are not zero (the matrix arrives
    /// zero-initialised and nothing else writes into it)
    pub fn write_jac_nonzeros(&self, t: f64, y: &[f64], j: &mut Matrix) {
        let d = (self.jac.as_ref().expect("no analytic jacobian"))(t, y);
        let n = self.n;
        for r in 0..n {
            for c in 0..n {
                if d[r * n + c] != 0.0 {
                    j[(r, c)] = d[r * n + c];
                }
            }
        }
    }
    pub fn write_jac(&self, t: f64, y: &[f64], j: &mut Matrix) {
        let d = (self.jac.as_ref().expect("no analytic jacobian"))(t, y);
        let n = self.n;
        match j.storage.clone() {
            ivp::matrix::MatrixStorage::Banded { ml, mu } => {
                for r in 0..n {
                    for c in 0..n {
                        let k = r as isize - c as isize;
                        if k >= -(mu as isize) && k <= ml as isize {
                            j[(r, c)] = d[r * n + c];
                        }
                    }
                }
            }
            _ => {
                for r in 0..n {
                    for c in 0..n {
                        j[(r, c)] = d[r * n + c];
                    }
                }
            }
        }
    }
}

// ---------------------------------------------------------------------------------------------
// base families

#[derive(Clone, Copy, Debug, PartialEq)]
pub enum Base {
    Decay(f64),
    Harmonic(f64),
    Logistic(f64),
    Riccati,
    Bernoulli,
    Rational,
    Spiral(f64, f64),
    Lin3,
}

const S3: [[f64; 3]; 3] = [[1.0, 1.0, 0.0], [0.0, 1.0, 1.0], [0.0, 0.0, 1.0]];
const S3I: [[f64; 3]; 3] = [[1.0, -1.0, 1.0], [0.0, 1.0, -1.0], [0.0, 0.0, 1.0]];
const D3: [f64; 3] = [-0.5, -1.0, -2.0];

fn lin3_a() -> [[f64; 3]; 3] {
    let mut a = [[0.0; 3]; 3];
    for i in 0..3 {
        for j in 0..3 {
            let mut s = 0.0;
            for k in 0..3 {
                s += S3[i][k] * D3[k] * S3I[k][j];
            }
            a[i][j] = s;
        }
    }
    a
}

pub fn base(b: Base) -> Prob {
    match b {
        Base::Decay(l) => Prob {
            name: format!("decay({})", l),
            n: 1,
            f: Arc::new(move |_t, y, d| d[0] = l * y[0]),
            jac: Some(Arc::new(move |_t, _y| vec![l])),
            flow: Some(Arc::new(move |s0, y0, s1| vec![y0[0] * (l * (s1 - s0)).exp()])),
            y0: vec![1.0],
            linear_homogeneous: true,
        },
        Base::Harmonic(w) => Prob {
            name: format!("harmonic({})", w),
            n: 2,
            f: Arc::new(move |_t, y, d| {
                d[0] = y[1];
                d[1] = -w * w * y[0];
            }),
            jac: Some(Arc::new(move |_t, _y| vec![0.0, 1.0, -w * w, 0.0])),
            flow: Some(Arc::new(move |s0, y0, s1| {
                let (s, c) = (w * (s1 - s0)).sin_cos();
                vec![y0[0] * c + y0[1] / w * s, -y0[0] * w * s + y0[1] * c]
            })),
            y0: vec![1.0, 0.0],
            linear_homogeneous: true,
        },
        Base::Logistic(r) => Prob {
            name: format!("logistic({})", r),
            n: 1,
            f: Arc::new(move |_t, y, d| d[0] = r * y[0] * (1.0 - y[0])),
            jac: Some(Arc::new(move |_t, y| vec![r * (1.0 - 2.0 * y[0])])),
            flow: Some(Arc::new(move |s0, y0, s1| {
                let e = (-r * (s1 - s0)).exp();
                vec![y0[0] / (y0[0] + (1.0 - y0[0]) * e)]
            })),
            y0: vec![0.25],
            linear_homogeneous: false,
        },
        Base::Riccati => Prob {
            name: "riccati".into(),
            n: 1,
            f: Arc::new(|_t, y, d| d[0] = 1.0 - y[0] * y[0]),
            jac: Some(Arc::new(|_t, y| vec![-2.0 * y[0]])),
            flow: Some(Arc::new(|s0, y0, s1| {
                // tanh(a + d) = (y0 + tanh d)/(1 + y0 tanh d)
                let th = (s1 - s0).tanh();
                vec![(y0[0] + th) / (1.0 + y0[0] * th)]
            })),
            y0: vec![0.2],
            linear_homogeneous: false,
        },
        Base::Bernoulli => Prob {
            name: "bernoulli".into(),
            n: 1,
            f: Arc::new(|_t, y, d| d[0] = y[0] - y[0] * y[0] * y[0]),
            jac: Some(Arc::new(|_t, y| vec![1.0 - 3.0 * y[0] * y[0]])),
            flow: Some(Arc::new(|s0, y0, s1| {
                let e = (-2.0 * (s1 - s0)).exp();
                let y2 = y0[0] * y0[0];
                vec![y0[0].signum() * (y2 / (y2 + (1.0 - y2) * e)).sqrt()]
            })),
            y0: vec![0.5],
            linear_homogeneous: false,
        },
        Base::Rational => Prob {
            name: "rational".into(),
            n: 1,
            f: Arc::new(|t, y, d| d[0] = -2.0 * t * y[0] * y[0]),
            jac: Some(Arc::new(|t, y| vec![-4.0 * t * y[0]])),
            flow: Some(Arc::new(|s0, y0, s1| vec![y0[0] / (1.0 + y0[0] * (s1 * s1 - s0 * s0))])),
            y0: vec![1.0],
            linear_homogeneous: false,
        },
        Base::Spiral(a, b) => Prob {
            name: format!("spiral({},{})", a, b),
            n: 2,
            f: Arc::new(move |_t, y, d| {
                d[0] = -a * y[0] + b * y[1];
                d[1] = -b * y[0] - a * y[1];
            }),
            jac: Some(Arc::new(move |_t, _y| vec![-a, b, -b, -a])),
            flow: Some(Arc::new(move |s0, y0, s1| {
                let dt = s1 - s0;
                let e = (-a * dt).exp();
                let (s, c) = (b * dt).sin_cos();
                vec![e * (c * y0[0] + s * y0[1]), e * (-s * y0[0] + c * y0[1])]
            })),
            y0: vec![1.0, 0.5],
            linear_homogeneous: true,
        },
        Base::Lin3 => {
            let a = lin3_a();
            Prob {
                name: "lin3".into(),
                n: 3,
                f: Arc::new(move |_t, y, d| {
                    for i in 0..3 {
                        d[i] = a[i][0] * y[0] + a[i][1] * y[1] + a[i][2] * y[2];
                    }
                }),
                jac: Some(Arc::new(move |_t, _y| a.iter().flat_map(|r| r.iter().copied()).collect())),
                flow: Some(Arc::new(|s0, y0, s1| {
                    let dt = s1 - s0;
                    let mut w = [0.0; 3];
                    for k in 0..3 {
                        w[k] = (S3I[k][0] * y0[0] + S3I[k][1] * y0[1] + S3I[k][2] * y0[2]) * (D3[k] * dt).exp();
                    }
                    (0..3).map(|i| S3[i][0] * w[0] + S3[i][1] * w[1] + S3[i][2] * w[2]).collect()
                })),
                y0: vec![1.0, -0.5, 0.75],
                linear_homogeneous: true,
            }
        }
    }
}

// ---------------------------------------------------------------------------------------------
// transformations

#[derive(Clone, Copy, Debug, PartialEq)]
pub enum Warp {
    Id,
    Sin,
    Quad,
}

impl Warp {
    pub fn phi(self, t: f64) -> f64 {
        match self {
            Warp::Id => t,
            Warp::Sin => t + 0.3 * t.sin(),
            Warp::Quad => t + 0.5 * t * t,
        }
    }
    pub fn dphi(self, t: f64) -> f64 {
        match self {
            Warp::Id => 1.0,
            Warp::Sin => 1.0 + 0.3 * t.cos(),
            Warp::Quad => 1.0 + t,
        }
    }
}

pub fn warp(p: &Prob, w: Warp) -> Prob {
    if w == Warp::Id {
        return p.clone();
    }
    let f = p.f.clone();
    let jac = p.jac.clone();
    let flow = p.flow.clone();
    Prob {
        name: format!("{}∘{:?}", p.name, w),
        n: p.n,
        f: Arc::new(move |t, y, d| {
            f(w.phi(t), y, d);
            let s = w.dphi(t);
            for v in d.iter_mut() {
                *v *= s;
            }
        }),
        jac: jac.map(|j| -> J {
            Arc::new(move |t, y| {
                let s = w.dphi(t);
                j(w.phi(t), y).into_iter().map(|v| v * s).collect()
            })
        }),
        flow: flow.map(|fl| -> Flow { Arc::new(move |s0, y0, s1| fl(w.phi(s0), y0, w.phi(s1))) }),
        y0: p.y0.clone(),
        linear_homogeneous: p.linear_homogeneous,
    }
}

/// two independent copies of a scalar problem (second copy starts from `y0b`)
pub fn pair(p: &Prob, y0b: f64) -> Prob {
    assert_eq!(p.n, 1);
    let f = p.f.clone();
    let jac = p.jac.clone();
    let flow = p.flow.clone();
    Prob {
        name: format!("pair({})", p.name),
        n: 2,
        f: Arc::new(move |t, y, d| {
            let mut a = [0.0];
            f(t, &y[0..1], &mut a);
            d[0] = a[0];
            f(t, &y[1..2], &mut a);
            d[1] = a[0];
        }),
        jac: jac.map(|j| -> J { Arc::new(move |t, y| vec![j(t, &y[0..1])[0], 0.0, 0.0, j(t, &y[1..2])[0]]) }),
        flow: flow.map(|fl| -> Flow { Arc::new(move |s0, y0, s1| vec![fl(s0, &y0[0..1], s1)[0], fl(s0, &y0[1..2], s1)[0]]) }),
        y0: vec![p.y0[0], y0b],
        linear_homogeneous: p.linear_homogeneous,
    }
}

#[derive(Clone, Copy, Debug, PartialEq)]
pub enum Mix {
    Id,
    Shear,
    Sl2,
}

impl Mix {
    pub fn mats(self) -> ([f64; 4], [f64; 4]) {
        match self {
            Mix::Id => ([1.0, 0.0, 0.0, 1.0], [1.0, 0.0, 0.0, 1.0]),
            Mix::Shear => ([1.0, 1.0, 0.0, 1.0], [1.0, -1.0, 0.0, 1.0]),
            Mix::Sl2 => ([2.0, 1.0, 1.0, 1.0], [1.0, -1.0, -1.0, 2.0]),
        }
    }
}

fn mul2(m: &[f64; 4], v: &[f64]) -> [f64; 2] {
    [m[0] * v[0] + m[1] * v[1], m[2] * v[0] + m[3] * v[1]]
}

/// z = S y for a planar problem
pub fn mix(p: &Prob, m: Mix) -> Prob {
    if m == Mix::Id {
        return p.clone();
    }
    assert_eq!(p.n, 2);
    let (s, si) = m.mats();
    let f = p.f.clone();
    let jac = p.jac.clone();
    let flow = p.flow.clone();
    Prob {
        name: format!("{:?}·{}", m, p.name),
        n: 2,
        f: Arc::new(move |t, z, d| {
            let y = mul2(&si, z);
            let mut fy = [0.0; 2];
            f(t, &y, &mut fy);
            let r = mul2(&s, &fy);
            d[0] = r[0];
            d[1] = r[1];
        }),
        jac: jac.map(|j| -> J {
            Arc::new(move |t, z| {
                let y = mul2(&si, z);
                let a = j(t, &y);
                // S A S^-1
                let sa = [
                    s[0] * a[0] + s[1] * a[2],
                    s[0] * a[1] + s[1] * a[3],
                    s[2] * a[0] + s[3] * a[2],
                    s[2] * a[1] + s[3] * a[3],
                ];
                vec![
                    sa[0] * si[0] + sa[1] * si[2],
                    sa[0] * si[1] + sa[1] * si[3],
                    sa[2] * si[0] + sa[3] * si[2],
                    sa[2] * si[1] + sa[3] * si[3],
                ]
            })
        }),
        flow: flow.map(|fl| -> Flow {
            Arc::new(move |s0, z0, s1| {
                let y0 = mul2(&si, z0);
                let y1 = fl(s0, &y0, s1);
                mul2(&s, &y1).to_vec()
            })
        }),
        y0: mul2(&s, &p.y0).to_vec(),
        linear_homogeneous: p.linear_homogeneous,
    }
}

/// time reflection: z'(s) = -f(-s, z)
pub fn reflect(p: &Prob) -> Prob {
    let f = p.f.clone();
    let jac = p.jac.clone();
    let flow = p.flow.clone();
    Prob {
        name: format!("reflect({})", p.name),
        n: p.n,
        f: Arc::new(move |s, z, d| {
            f(-s, z, d);
            for v in d.iter_mut() {
                *v = -*v;
            }
        }),
        jac: jac.map(|j| -> J { Arc::new(move |s, z| j(-s, z).into_iter().map(|v| -v).collect()) }),
        flow: flow.map(|fl| -> Flow { Arc::new(move |s0, z0, s1| fl(-s0, z0, -s1)) }),
        y0: p.y0.clone(),
        linear_homogeneous: p.linear_homogeneous,
    }
}

/// time shift: z'(s) = f(s - dt, z)  (z(s) = y(s - dt))
pub fn shift(p: &Prob, dt: f64) -> Prob {
    if dt == 0.0 {
        return p.clone();
    }
    let f = p.f.clone();
    let jac = p.jac.clone();
    let flow = p.flow.clone();
    Prob {
        name: format!("shift({},{})", p.name, dt),
        n: p.n,
        f: Arc::new(move |s, z, d| f(s - dt, z, d)),
        jac: jac.map(|j| -> J { Arc::new(move |s, z| j(s - dt, z)) }),
        flow: flow.map(|fl| -> Flow { Arc::new(move |s0, z0, s1| fl(s0 - dt, z0, s1 - dt)) }),
        y0: p.y0.clone(),
        linear_homogeneous: p.linear_homogeneous,
    }
}

/// time scaling: z'(s) = c f(c s, z)  (z(s) = y(c s))
pub fn timescale(p: &Prob, c: f64) -> Prob {
    let f = p.f.clone();
    let jac = p.jac.clone();
    let flow = p.flow.clone();
    Prob {
        name: format!("timescale({},{:e})", p.name, c),
        n: p.n,
        f: Arc::new(move |s, z, d| {
            f(c * s, z, d);
            for v in d.iter_mut() {
                *v *= c;
            }
        }),
        jac: jac.map(|j| -> J { Arc::new(move |s, z| j(c * s, z).into_iter().map(|v| v * c).collect()) }),
        flow: flow.map(|fl| -> Flow { Arc::new(move |s0, z0, s1| fl(c * s0, z0, c * s1)) }),
        y0: p.y0.clone(),
        linear_homogeneous: p.linear_homogeneous,
    }
}

/// m independent identical copies (component i of copy k at index k*n+i)
pub fn copies(p: &Prob, m: usize) -> Prob {
    let n = p.n;
    let f = p.f.clone();
    let jac = p.jac.clone();
    let flow = p.flow.clone();
    let mut y0 = vec![];
    for _ in 0..m {
        y0.extend_from_slice(&p.y0);
    }
    Prob {
        name: format!("{}x{}", p.name, m),
        n: n * m,
        f: Arc::new(move |t, y, d| {
            for k in 0..m {
                f(t, &y[k * n..(k + 1) * n], &mut d[k * n..(k + 1) * n]);
            }
        }),
        jac: jac.map(|j| -> J {
            Arc::new(move |t, y| {
                let nn = n * m;
                let mut out = vec![0.0; nn * nn];
                for k in 0..m {
                    let a = j(t, &y[k * n..(k + 1) * n]);
                    for r in 0..n {
                        for c in 0..n {
                            out[(k * n + r) * nn + k * n + c] = a[r * n + c];
                        }
                    }
                }
                out
            })
        }),
        flow: flow.map(|fl| -> Flow {
            Arc::new(move |s0, y0, s1| {
                let mut out = vec![];
                for k in 0..m {
                    out.extend(fl(s0, &y0[k * n..(k + 1) * n], s1));
                }
                out
            })
        }),
        y0,
        linear_homogeneous: p.linear_homogeneous,
    }
}

// ---------------------------------------------------------------------------------------------
// conditioning: sup over s<=t (in the direction of integration) of ||d y(t) / d y(s)||_inf,
// from central differences of the closed-form flow on a 9-point grid.

pub fn kappa(p: &Prob, x0: f64, y0: &[f64], xend: f64) -> f64 {
    let fl = match &p.flow {
        Some(f) => f,
        None => return 1.0,
    };
    let g = 8;
    let n = p.n;
    let ts: Vec<f64> = (0..=g).map(|i| x0 + (xend - x0) * i as f64 / g as f64).collect();
    let ys: Vec<Vec<f64>> = ts.iter().map(|&t| fl(x0, y0, t)).collect();
    let mut k: f64 = 1.0;
    for i in 0..g {
        for j in (i + 1)..=g {
            let mut rows = vec![0.0; n];
            for c in 0..n {
                let d = 1e-6 * (1.0 + ys[i][c].abs());
                let mut yp = ys[i].clone();
                let mut ym = ys[i].clone();
                yp[c] += d;
                ym[c] -= d;
                let a = fl(ts[i], &yp, ts[j]);
                let b = fl(ts[i], &ym, ts[j]);
                for r in 0..n {
                    let v = (a[r] - b[r]) / (2.0 * d);
                    if !v.is_finite() {
                        return f64::INFINITY;
                    }
                    rows[r] += v.abs();
                }
            }
            for r in 0..n {
                k = k.max(rows[r]);
            }
        }
    }
    k
}

// ---------------------------------------------------------------------------------------------
// independent reference integrator: fixed-step classical RK4 with compensated accumulation and
// Richardson extrapolation; shares no code with ivp.  Returns states at the requested times
// (sorted in the direction of integration, starting at x0) or None if it did not converge.

fn rk4_fixed(f: &F, n: usize, x0: f64, y0: &[f64], ts: &[f64], sub: usize) -> Vec<Vec<f64>> {
    let mut out = vec![];
    let mut y = y0.to_vec();
    let mut comp = vec![0.0; n];
    let mut tprev = x0;
    let (mut k1, mut k2, mut k3, mut k4, mut yt) = (vec![0.0; n], vec![0.0; n], vec![0.0; n], vec![0.0; n], vec![0.0; n]);
    for &t in ts {
        if t != tprev {
            let h = (t - tprev) / sub as f64;
            for s in 0..sub {
                let x = tprev + h * s as f64;
                f(x, &y, &mut k1);
                for i in 0..n {
                    yt[i] = y[i] + 0.5 * h * k1[i];
                }
                f(x + 0.5 * h, &yt, &mut k2);
                for i in 0..n {
                    yt[i] = y[i] + 0.5 * h * k2[i];
                }
                f(x + 0.5 * h, &yt, &mut k3);
                for i in 0..n {
                    yt[i] = y[i] + h * k3[i];
                }
                f(x + h, &yt, &mut k4);
                for i in 0..n {
                    let inc = h / 6.0 * (k1[i] + 2.0 * k2[i] + 2.0 * k3[i] + k4[i]) - comp[i];
                    let s2 = y[i] + inc;
                    comp[i] = (s2 - y[i]) - inc;
                    y[i] = s2;
                }
            }
        }
        tprev = t;
        out.push(y.clone());
    }
    out
}

pub fn reference(f: &F, n: usize, x0: f64, y0: &[f64], ts: &[f64], tol: f64) -> Option<Vec<Vec<f64>>> {
    let mut sub = 8;
    let mut prev = rk4_fixed(f, n, x0, y0, ts, sub);
    let mut prev_ex: Option<Vec<Vec<f64>>> = None;
    for _ in 0..12 {
        sub *= 2;
        let cur = rk4_fixed(f, n, x0, y0, ts, sub);
        // Richardson: y* = cur + (cur - prev)/15
        let ex: Vec<Vec<f64>> = cur
            .iter()
            .zip(prev.iter())
            .map(|(c, p)| c.iter().zip(p.iter()).map(|(a, b)| a + (a - b) / 15.0).collect())
            .collect();
        if let Some(pe) = &prev_ex {
            let mut d: f64 = 0.0;
            for (a, b) in ex.iter().zip(pe.iter()) {
                for (u, v) in a.iter().zip(b.iter()) {
                    d = d.max((u - v).abs() / (1.0 + u.abs()));
                }
            }
            if d < tol {
                return Some(ex);
            }
        }
        prev_ex = Some(ex);
        prev = cur;
    }
    None
}

/// dissipative polynomial field f_i = -d_i y_i + eps * sum c_ijk y_j y_k with coefficients from a
/// 3-value grid; `code` enumerates the grid.
pub fn dissipative(n: usize, code: usize) -> Prob {
    let vals = [-1.0, 0.0, 1.0];
    let mut c = vec![0.0; n * n * n];
    let mut k = code;
    // only couple (j,k) with j<=k to keep the grid small: the first n*3 coefficients vary, the rest follow a fixed pattern
    for i in 0..n {
        for slot in 0..3 {
            let v = vals[k % 3];
            k /= 3;
            let (j, kk) = match slot {
                0 => (i, (i + 1) % n),
                1 => ((i + 1) % n, (i + 1) % n),
                _ => (0, n - 1),
            };
            c[(i * n + j) * n + kk] = v;
        }
    }
    let d: Vec<f64> = (0..n).map(|i| 0.5 + 0.75 * i as f64).collect();
    let eps = 0.3;
    let c2 = c.clone();
    let d2 = d.clone();
    Prob {
        name: format!("dissipative(n={},code={})", n, code),
        n,
        f: Arc::new(move |_t, y, out| {
            for i in 0..n {
                let mut s = -d[i] * y[i];
                for j in 0..n {
                    for kk in 0..n {
                        let cc = c[(i * n + j) * n + kk];
                        if cc != 0.0 {
                            s += eps * cc * y[j] * y[kk];
                        }
                    }
                }
                out[i] = s;
            }
        }),
        jac: Some(Arc::new(move |_t, y| {
            let mut jm = vec![0.0; n * n];
            for i in 0..n {
                jm[i * n + i] += -d2[i];
                for j in 0..n {
                    for kk in 0..n {
                        let cc = c2[(i * n + j) * n + kk];
                        if cc != 0.0 {
                            jm[i * n + j] += eps * cc * y[kk];
                            jm[i * n + kk] += eps * cc * y[j];
                        }
                    }
                }
            }
            jm
        })),
        flow: None,
        y0: (0..n).map(|i| 0.6 - 0.35 * i as f64).collect(),
        linear_homogeneous: false,
    }
}
