//! Shared pieces of the two-pass checks (C05, C08, C09, C10): pass 1 runs the plain
//! configuration to learn the accepted-step grid and the dense solution; pass 2 places requested
//! times / event roots relative to that grid.

use crate::problems::{base, reflect, shift, warp, Base, Prob, Warp};
use crate::run::{run, Cfg, Run};
use ivp::prelude::*;

pub struct Plain {
    pub xs: Vec<f64>,
    pub ys: Vec<Vec<f64>>,
    pub run: Run,
}

impl Plain {
    pub fn sol(&self) -> &Solution {
        self.run.sol().unwrap()
    }
    pub fn nsteps(&self) -> usize {
        self.xs.len() - 1
    }
    pub fn h(&self, k: usize) -> f64 {
        self.xs[k + 1] - self.xs[k]
    }
    /// index k of a step whose closed interval contains t (first match), None if outside
    pub fn step_of(&self, t: f64) -> Option<usize> {
        for k in 0..self.nsteps() {
            let (a, b) = (self.xs[k].min(self.xs[k + 1]), self.xs[k].max(self.xs[k + 1]));
            if t >= a && t <= b {
                return Some(k);
            }
        }
        None
    }
}

/// plain run: dense output on, no t_eval, no events; must succeed
pub fn plain_run(p: &Prob, c: &Cfg) -> Option<Plain> {
    let mut c0 = c.clone();
    c0.t_eval = None;
    c0.events = vec![];
    c0.dense = true;
    c0.max_steps = None;
    let r = run(p, &c0);
    let s = r.sol()?;
    if s.status != Status::Success || s.t.len() < 2 {
        return None;
    }
    Some(Plain { xs: s.t.clone(), ys: s.y.clone(), run: r })
}

/// the base configurations shared by the event / t_eval checks: a problem with a closed form,
/// a span giving a handful of steps, both directions (backward = reflected problem)
pub struct Scene {
    pub prob: Prob,
    pub x0: f64,
    pub xend: f64,
    pub name: String,
}

pub fn scenes(backward: bool) -> Vec<Scene> {
    let mut v = vec![];
    // the third scene depends explicitly on the independent variable (a time-warped oscillator): the
    // abscissae handed to the right-hand side matter, also those of dense-output-only stages
    // the fourth scene starts far from the origin (x0 = ±1000: abscissa rounding 1e-13, every absolute
    // time constant of the library is small against |x| but large against ulp(x))
    for (b, span, w, origin) in [(Base::Harmonic(1.5), 2.5, Warp::Id, 0.0), (Base::Logistic(2.0), 2.0, Warp::Id, 0.0), (Base::Harmonic(1.2), 2.2, Warp::Quad, 0.0), (Base::Harmonic(1.5), 2.5, Warp::Sin, 1000.0)] {
        let p0 = shift(&warp(&base(b), w), origin);
        let (p, x0, xend) = if backward { (reflect(&p0), -origin, -origin - span) } else { (p0, origin, origin + span) };
        v.push(Scene { name: p.name.clone(), prob: p, x0, xend });
    }
    v
}

pub fn scene_cfg(m: Method, sc: &Scene, tol: f64) -> Cfg {
    let mut c = Cfg::new(m, sc.x0, sc.xend, &sc.prob.y0).tol(tol, tol * 1e-2);
    c.user_jac = true;
    c
}
