//! C17 — matrix values do not depend on the storage scheme.
//! Explicit-state search (stateright) over constructor x operation sequences; every transition
//! applies the same operation to the real `ivp::Matrix` and to a dense reference and compares
//! every entry read through the public index operator.

use crate::report::{is_thorough, Report, Violation};
use crate::util::guarded;
use ivp::matrix::{Matrix, MatrixStorage};
use ivp::{banded_matrix, matrix};
use serde_json::{json, Value};
use stateright::{Checker, Model, Property};
use std::collections::HashSet;
use std::sync::atomic::{AtomicU64, Ordering};
use std::sync::{Arc, Mutex};

#[derive(Clone, Debug, Hash, PartialEq, Eq)]
pub struct St {
    n: u8,
    kind: u8, // 0 identity, 1 full, 2 banded
    ml: u8,
    mu: u8,
    data: Vec<u64>,
    refd: Vec<u64>,
    depth: u8,
    /// constructor label for depth-0 states (empty afterwards, so that equal values merge)
    origin: String,
}

impl St {
    fn from(m: &Matrix, refd: &[f64], depth: u8, origin: &str) -> St {
        let (kind, ml, mu) = match m.storage {
            MatrixStorage::Identity => (0, 0, 0),
            MatrixStorage::Full => (1, 0, 0),
            MatrixStorage::Banded { ml, mu } => (2, ml as u8, mu as u8),
        };
        St {
            n: m.n as u8,
            kind,
            ml,
            mu,
            data: m.data.iter().map(|x| x.to_bits()).collect(),
            refd: refd.iter().map(|x| x.to_bits()).collect(),
            depth,
            origin: origin.to_string(),
        }
    }
    fn matrix(&self) -> Matrix {
        let storage = match self.kind {
            0 => MatrixStorage::Identity,
            1 => MatrixStorage::Full,
            _ => MatrixStorage::Banded { ml: self.ml as usize, mu: self.mu as usize },
        };
        Matrix { n: self.n as usize, m: self.n as usize, data: self.data.iter().map(|b| f64::from_bits(*b)).collect(), storage }
    }
    fn reference(&self) -> Vec<f64> {
        self.refd.iter().map(|b| f64::from_bits(*b)).collect()
    }
    fn json(&self) -> Value {
        json!({"n": self.n, "kind": self.kind, "ml": self.ml, "mu": self.mu,
               "data": self.data.iter().map(|b| format!("{:016x}", b)).collect::<Vec<_>>(),
               "ref": self.refd.iter().map(|b| format!("{:016x}", b)).collect::<Vec<_>>(),
               "data_decimal": self.data.iter().map(|b| f64::from_bits(*b)).collect::<Vec<_>>(),
               "ref_decimal": self.refd.iter().map(|b| f64::from_bits(*b)).collect::<Vec<_>>(),
               "depth": self.depth, "origin": self.origin})
    }
    fn from_json(v: &Value) -> St {
        let bits = |a: &Value| -> Vec<u64> {
            a.as_array().unwrap().iter().map(|s| u64::from_str_radix(s.as_str().unwrap(), 16).unwrap()).collect()
        };
        St {
            n: v["n"].as_u64().unwrap() as u8,
            kind: v["kind"].as_u64().unwrap() as u8,
            ml: v["ml"].as_u64().unwrap() as u8,
            mu: v["mu"].as_u64().unwrap() as u8,
            data: bits(&v["data"]),
            refd: bits(&v["ref"]),
            depth: v["depth"].as_u64().unwrap() as u8,
            origin: v["origin"].as_str().unwrap_or("").to_string(),
        }
    }
}

#[derive(Clone, Debug, PartialEq, Eq, Hash)]
pub enum Act {
    /// write value index v at (i,j)
    Write(u8, u8, u8),
    /// scalar op kind (0 add, 1 sub, 2 mul, 3 mul_mut) with scalar index
    Scalar(u8, u8),
    /// binary op kind (0 a+b, 1 a-b, 2 a+=b, 3 a-=b, 4 a-=&b, 5 b+a, 6 b-a) with operand index
    Bin(u8, u8),
}

const WRITE_VALS: [f64; 2] = [2.5, -1.0];
/// 1e-17 is not zero: smaller than the rounding unit, still a value that every entry must receive
const SCALARS: [f64; 5] = [0.0, 1.0, -2.0, 0.5, 1e-17];

fn act_json(a: &Act) -> Value {
    match a {
        Act::Write(i, j, v) => json!({"op": "write", "i": i, "j": j, "v": v}),
        Act::Scalar(k, c) => json!({"op": "scalar", "kind": k, "c": c}),
        Act::Bin(k, o) => json!({"op": "bin", "kind": k, "operand": o}),
    }
}
fn act_from_json(v: &Value) -> Act {
    let g = |k: &str| v[k].as_u64().unwrap() as u8;
    match v["op"].as_str().unwrap() {
        "write" => Act::Write(g("i"), g("j"), g("v")),
        "scalar" => Act::Scalar(g("kind"), g("c")),
        _ => Act::Bin(g("kind"), g("operand")),
    }
}

fn dense_of_banded_fill(n: usize, ml: usize, mu: usize, base: f64) -> (Matrix, Vec<f64>) {
    let mut m = Matrix::banded(n, ml, mu);
    let mut d = vec![0.0; n * n];
    for i in 0..n {
        for j in 0..n {
            let k = i as isize - j as isize;
            if k >= -(mu as isize) && k <= ml as isize {
                let v = base + (i * n + j) as f64;
                m[(i, j)] = v;
                d[i * n + j] = v;
            }
        }
    }
    (m, d)
}

fn ident_dense(n: usize) -> Vec<f64> {
    let mut d = vec![0.0; n * n];
    for i in 0..n {
        d[i * n + i] = 1.0;
    }
    d
}

/// operand alphabet for binary operations at size n
fn operands(n: usize) -> Vec<(String, Matrix, Vec<f64>)> {
    let mut v = vec![];
    v.push(("identity".to_string(), Matrix::identity(n), ident_dense(n)));
    let fd: Vec<f64> = (0..n * n).map(|k| 0.5 * (k as f64 + 1.0)).collect();
    v.push(("full".to_string(), Matrix::from_vec(n, n, fd.clone()), fd));
    let mut bands = vec![(0usize, 0usize), (1, 0), (0, 1), (1, 1), (n - 1, n - 1), (n, 0), (0, n)];
    bands.dedup();
    let mut seen = HashSet::new();
    for (ml, mu) in bands {
        if !seen.insert((ml, mu)) {
            continue;
        }
        let (m, d) = dense_of_banded_fill(n, ml, mu, 10.0);
        v.push((format!("banded({},{})", ml, mu), m, d));
    }
    // operands populated through the public `fill` (every stored slot, also the unused corners of the band
    // storage, receives the value): in the band the value, outside it zero
    for (ml, mu) in [(1usize, 1usize), (0, n - 1), (n - 1, 1)] {
        let mut m = Matrix::banded(n, ml, mu);
        m.fill(1.5);
        let mut d = vec![0.0; n * n];
        for i in 0..n {
            for j in 0..n {
                let k = i as isize - j as isize;
                if k <= ml as isize && -k <= mu as isize {
                    d[i * n + j] = 1.5;
                }
            }
        }
        v.push((format!("banded({},{}) filled", ml, mu), m, d));
    }
    {
        let mut m = Matrix::full(n, n);
        m.fill(-0.75);
        v.push(("full filled".to_string(), m, vec![-0.75; n * n]));
    }
    let dg: Vec<f64> = (0..n).map(|i| 3.0 + i as f64).collect();
    let mut dd = vec![0.0; n * n];
    for i in 0..n {
        dd[i * n + i] = dg[i];
    }
    v.push(("diagonal".to_string(), Matrix::diagonal(dg), dd));
    v
}

/// every public constructor at size n: (label, constructor closure result, dense meaning)
fn constructors(n: usize) -> Vec<(String, Result<Matrix, String>, Vec<f64>)> {
    let z = vec![0.0; n * n];
    let mut v: Vec<(String, Result<Matrix, String>, Vec<f64>)> = vec![];
    v.push(("identity".into(), guarded(|| Matrix::identity(n)), ident_dense(n)));
    let fd: Vec<f64> = (0..n * n).map(|k| 1.0 + k as f64).collect();
    v.push(("from_vec".into(), guarded(|| Matrix::from_vec(n, n, fd.clone())), fd.clone()));
    v.push(("full".into(), guarded(|| Matrix::full(n, n)), z.clone()));
    v.push(("square".into(), guarded(|| Matrix::square(n)), z.clone()));
    v.push(("zeros".into(), guarded(|| Matrix::zeros(n, n)), z.clone()));
    v.push(("from_storage(Identity)".into(), guarded(|| Matrix::from_storage(n, n, MatrixStorage::Identity)), ident_dense(n)));
    v.push(("from_storage(Full)".into(), guarded(|| Matrix::from_storage(n, n, MatrixStorage::Full)), z.clone()));
    for ml in 0..=n {
        for mu in 0..=n {
            v.push((format!("banded({},{})", ml, mu), guarded(|| Matrix::banded(n, ml, mu)), z.clone()));
            v.push((
                format!("from_storage(Banded({},{}))", ml, mu),
                guarded(|| Matrix::from_storage(n, n, MatrixStorage::Banded { ml, mu })),
                z.clone(),
            ));
        }
    }
    let dg: Vec<f64> = (0..n).map(|i| 2.0 + i as f64).collect();
    let mut dd = z.clone();
    for i in 0..n {
        dd[i * n + i] = dg[i];
    }
    v.push(("diagonal".into(), guarded(|| Matrix::diagonal(dg.clone())), dd));
    // (a diagonal of ones has the identity's values but is a diagonal matrix: documented "ml=mu=0", writable on its diagonal)
    v.push(("diagonal(ones)".into(), guarded(|| Matrix::diagonal(vec![1.0; n])), ident_dense(n)));
    v.push(("lower_triangular".into(), guarded(|| Matrix::lower_triangular(n)), z.clone()));
    v.push(("upper_triangular".into(), guarded(|| Matrix::upper_triangular(n)), z.clone()));
    // macro forms (fixed sizes)
    if n == 2 {
        v.push(("matrix![a,b;c,d]".into(), guarded(|| matrix![1.0, 2.0; 3.0, 4.0]), vec![1.0, 2.0, 3.0, 4.0]));
        v.push((
            "banded_matrix!(0,1)".into(),
            guarded(|| banded_matrix!(0 => [1.0, 2.0], 1 => [3.0])),
            vec![1.0, 0.0, 3.0, 2.0],
        ));
    }
    if n == 3 {
        v.push((
            "matrix![3x3]".into(),
            guarded(|| matrix![1.0, 2.0, 3.0; 4.0, 5.0, 6.0; 7.0, 8.0, 9.0]),
            (1..=9).map(|k| k as f64).collect(),
        ));
        v.push((
            "banded_matrix!(0,1,-1)".into(),
            guarded(|| banded_matrix!(0 => [1.0, 1.0, 1.0], 1 => [2.0, 2.0], -1 => [3.0, 3.0])),
            vec![1.0, 3.0, 0.0, 2.0, 1.0, 3.0, 0.0, 2.0, 1.0],
        ));
        v.push((
            "banded_matrix!(-2 short)".into(),
            guarded(|| banded_matrix!(0 => [1.0, 2.0, 3.0], -2 => [7.0])),
            vec![1.0, 0.0, 7.0, 0.0, 2.0, 0.0, 0.0, 0.0, 3.0],
        ));
    }
    if n == 3 {
        // the size is fixed by an off-diagonal alone (no full-length main diagonal given)
        v.push(("banded_matrix!(-1 only)".into(), guarded(|| banded_matrix!(-1 => [5.0, 6.0])), vec![0.0, 5.0, 0.0, 0.0, 0.0, 6.0, 0.0, 0.0, 0.0]));
        v.push(("banded_matrix!(1 only)".into(), guarded(|| banded_matrix!(1 => [5.0, 6.0])), vec![0.0, 0.0, 0.0, 5.0, 0.0, 0.0, 0.0, 6.0, 0.0]));
        v.push(("banded_matrix!(-2 fixes n, short main)".into(), guarded(|| banded_matrix!(0 => [1.0], -2 => [7.0])), vec![1.0, 0.0, 7.0, 0.0, 0.0, 0.0, 0.0, 0.0, 0.0]));
        v.push(("banded_matrix!(2 fixes n, short main)".into(), guarded(|| banded_matrix!(0 => [1.0, 2.0], 2 => [7.0])), vec![1.0, 0.0, 0.0, 0.0, 2.0, 0.0, 7.0, 0.0, 0.0]));
    }
    if n == 4 {
        v.push(("banded_matrix!(-1 and 2 only)".into(), guarded(|| banded_matrix!(-1 => [5.0, 6.0, 7.0], 2 => [8.0])), vec![0.0, 5.0, 0.0, 0.0, 0.0, 0.0, 6.0, 0.0, 8.0, 0.0, 0.0, 7.0, 0.0, 0.0, 0.0, 0.0]));
    }
    if n == 4 {
        v.push((
            "banded_matrix!(4x4)".into(),
            guarded(|| banded_matrix!(0 => [1.0, 1.0, 1.0, 1.0], 1 => [2.0, 2.0, 2.0], -1 => [3.0, 3.0, 3.0])),
            vec![1.0, 3.0, 0.0, 0.0, 2.0, 1.0, 3.0, 0.0, 0.0, 2.0, 1.0, 3.0, 0.0, 0.0, 2.0, 1.0],
        ));
    }
    v
}

/// compare a real matrix with its dense meaning; None = agree
fn disagree(m: &Matrix, refd: &[f64]) -> Option<String> {
    let n = m.n;
    if m.m != n {
        return Some(format!("result is not square: {}x{}", m.n, m.m));
    }
    if refd.len() != n * n {
        return Some("size changed".into());
    }
    let r = guarded(|| {
        for i in 0..n {
            for j in 0..n {
                let v = m[(i, j)];
                if !(v == refd[i * n + j]) {
                    return Some(format!("entry ({},{}) reads {:e}, dense reference has {:e}", i, j, v, refd[i * n + j]));
                }
            }
        }
        let mut is_id = true;
        for i in 0..n {
            for j in 0..n {
                let want = if i == j { 1.0 } else { 0.0 };
                if refd[i * n + j] != want {
                    is_id = false;
                }
            }
        }
        if m.is_identity() != is_id {
            return Some(format!("is_identity() = {} but the dense definition says {}", m.is_identity(), is_id));
        }
        None
    });
    match r {
        Ok(x) => x,
        Err(p) => Some(format!("reading an entry panicked: {}", p)),
    }
}

fn in_band(s: &St, i: usize, j: usize) -> bool {
    let k = i as isize - j as isize;
    k >= -(s.mu as isize) && k <= s.ml as isize
}

/// One transition on the real matrix and on the reference.
/// Ok(Some(next)) new state, Ok(None) no change, Err(msg) property violated.
fn step(s: &St, a: &Act, ops: &[(String, Matrix, Vec<f64>)]) -> Result<Option<St>, String> {
    let n = s.n as usize;
    let m = s.matrix();
    let mut r = s.reference();
    match a {
        Act::Write(i, j, vi) => {
            let (i, j) = (*i as usize, *j as usize);
            let v = WRITE_VALS[*vi as usize];
            let must_panic = s.kind == 0 || (s.kind == 2 && !in_band(s, i, j));
            let mut mm = m.clone();
            let res = guarded(|| {
                mm[(i, j)] = v;
            });
            match (res, must_panic) {
                (Err(_), true) => {
                    if mm != m {
                        return Err(format!("rejected write ({},{}) modified the matrix", i, j));
                    }
                    if let Some(d) = disagree(&mm, &r) {
                        return Err(format!("after rejected write: {}", d));
                    }
                    Ok(None)
                }
                (Ok(()), true) => Err(format!("write ({},{}) outside the band / into Identity did not panic", i, j)),
                (Err(p), false) => Err(format!("in-band write ({},{}) panicked: {}", i, j, p)),
                (Ok(()), false) => {
                    r[i * n + j] = v;
                    if let Some(d) = disagree(&mm, &r) {
                        return Err(format!("after write ({},{}) <- {}: {}", i, j, v, d));
                    }
                    Ok(Some(St::from(&mm, &r, s.depth + 1, "")))
                }
            }
        }
        Act::Scalar(k, ci) => {
            let c = SCALARS[*ci as usize];
            let res = guarded(|| match k {
                0 => m.clone().component_add(c),
                1 => m.clone().component_sub(c),
                2 => m.clone().component_mul(c),
                _ => {
                    let mut mm = m.clone();
                    mm.component_mul_mut(c);
                    mm
                }
            });
            for x in r.iter_mut() {
                *x = match k {
                    0 => *x + c,
                    1 => *x - c,
                    _ => *x * c,
                };
            }
            match res {
                Err(p) => Err(format!("scalar op {} with {} panicked: {}", k, c, p)),
                Ok(mm) => {
                    if let Some(d) = disagree(&mm, &r) {
                        return Err(format!("after scalar op {} with {}: {}", k, c, d));
                    }
                    Ok(Some(St::from(&mm, &r, s.depth + 1, "")))
                }
            }
        }
        Act::Bin(k, oi) => {
            let (oname, om, od) = &ops[*oi as usize];
            let res = guarded(|| match k {
                0 => m.clone() + om.clone(),
                1 => m.clone() - om.clone(),
                2 => {
                    let mut mm = m.clone();
                    mm += om.clone();
                    mm
                }
                3 => {
                    let mut mm = m.clone();
                    mm -= om.clone();
                    mm
                }
                4 => {
                    let mut mm = m.clone();
                    mm -= om;
                    mm
                }
                5 => om.clone() + m.clone(),
                _ => om.clone() - m.clone(),
            });
            for (x, o) in r.iter_mut().zip(od.iter()) {
                *x = match k {
                    0 | 2 | 5 => *x + *o,
                    1 | 3 | 4 => *x - *o,
                    _ => *o - *x,
                };
            }
            match res {
                Err(p) => Err(format!("binary op {} with operand {} panicked: {}", k, oname, p)),
                Ok(mm) => {
                    if let Some(d) = disagree(&mm, &r) {
                        return Err(format!("after binary op {} with operand {}: {}", k, oname, d));
                    }
                    Ok(Some(St::from(&mm, &r, s.depth + 1, "")))
                }
            }
        }
    }
}

struct MatModel {
    n: usize,
    max_depth: u8,
    write_vals: usize,
    ops: Vec<(String, Matrix, Vec<f64>)>,
    inits: Vec<St>,
    viol: Arc<Mutex<Vec<Violation>>>,
    transitions: Arc<AtomicU64>,
    values: Arc<Vec<Mutex<HashSet<u128>>>>,
}

fn value_fp(s: &St) -> u128 {
    let mut h = crate::util::Fp::default();
    h.u(s.n as u64);
    h.u(s.kind as u64);
    h.u(s.ml as u64);
    h.u(s.mu as u64);
    for d in &s.data {
        h.u(*d);
    }
    h.u(0xabcdef);
    for d in &s.refd {
        h.u(*d);
    }
    h.as_u128()
}

impl MatModel {
    fn note_value(&self, s: &St) {
        let fp = value_fp(s);
        self.values[(fp as usize) % self.values.len()].lock().unwrap().insert(fp);
    }
}

impl Model for MatModel {
    type State = St;
    type Action = Act;
    fn init_states(&self) -> Vec<St> {
        self.inits.clone()
    }
    fn actions(&self, s: &St, out: &mut Vec<Act>) {
        if s.depth >= self.max_depth {
            return;
        }
        let n = self.n as u8;
        for i in 0..n {
            for j in 0..n {
                for v in 0..self.write_vals as u8 {
                    out.push(Act::Write(i, j, v));
                }
            }
        }
        for k in 0..4u8 {
            for c in 0..SCALARS.len() as u8 {
                out.push(Act::Scalar(k, c));
            }
        }
        for k in 0..7u8 {
            for o in 0..self.ops.len() as u8 {
                out.push(Act::Bin(k, o));
            }
        }
    }
    fn next_state(&self, s: &St, a: Act) -> Option<St> {
        self.transitions.fetch_add(1, Ordering::Relaxed);
        match step(s, &a, &self.ops) {
            Ok(x) => {
                if let Some(t) = &x {
                    self.note_value(t);
                }
                x
            }
            Err(msg) => {
                let case = json!({"state": s.json(), "action": act_json(&a)});
                let st_kind = ["Identity", "Full", "Banded"][s.kind as usize];
                let v = Violation::new(case.to_string(), "transition", msg, case)
                    .with("storage", st_kind)
                    .with("action", format!("{:?}", a).split('(').next().unwrap_or(""));
                self.viol.lock().unwrap().push(v);
                None
            }
        }
    }
    fn properties(&self) -> Vec<Property<Self>> {
        // Violations are collected by next_state (so that the search is not cut short at the
        // first one); the invariant re-checks agreement on every *state* as well.
        vec![Property::always("matrix equals dense reference", |_m: &MatModel, s: &St| {
            disagree(&s.matrix(), &s.reference()).is_none()
        })]
    }
}

/// operations in a row on one thread (the main one): (a) sums with an Identity operand over a sequence of sizes that
/// goes up and down; (b) `is_identity` asked again on the same matrix object after in-place changes
fn same_thread_sequences(rep: &mut Report, only: Option<&str>) {
    let sizes = [3usize, 2, 4, 2, 1, 3, 5, 2];
    for (k, &n) in sizes.iter().enumerate() {
        for banded in [false, true] {
            for left in [false, true] {
                let key = format!("sumseq:{}:{}:{}", k, banded as u8, left as u8);
                if only.map(|o| o != key).unwrap_or(false) {
                    continue;
                }
                rep.evaluations += 1;
                rep.validated += 1;
                let r = guarded(|| {
                    let dense: Vec<f64> = (0..n * n).map(|q| if banded && ((q / n) as isize - (q % n) as isize).abs() > 1 { 0.0 } else { 0.5 * (q as f64 + 1.0) }).collect();
                    let other = if banded {
                        let mut m = Matrix::banded(n, 1.min(n - 1), 1.min(n - 1));
                        for i in 0..n {
                            for j in 0..n {
                                if (i as isize - j as isize).abs() <= 1 {
                                    m[(i, j)] = dense[i * n + j];
                                }
                            }
                        }
                        m
                    } else {
                        Matrix::from_vec(n, n, dense.clone())
                    };
                    let sum = if left { Matrix::identity(n) + other } else { other + Matrix::identity(n) };
                    let want: Vec<f64> = (0..n * n).map(|q| dense[q] + if q / n == q % n { 1.0 } else { 0.0 }).collect();
                    disagree(&sum, &want)
                });
                let msg = match r {
                    Ok(None) => continue,
                    Ok(Some(m)) => m,
                    Err(p) => format!("panicked: {}", p),
                };
                rep.violations.push(Violation::new(&key, "sum-sequence", format!("Identity {} {} of size {} (call {} of the size sequence {:?}): {}", if left { "+" } else { "added to" }, if banded { "a tridiagonal matrix" } else { "a full matrix" }, n, k, sizes, msg), json!({"key": key})).with("constructor", "identity"));
            }
        }
    }
    for n in 1..=4usize {
        for kind in 0..2usize {
            let key = format!("identityasked:{}:{}", n, kind);
            if only.map(|o| o != key).unwrap_or(false) {
                continue;
            }
            rep.evaluations += 1;
            rep.validated += 3;
            let r = guarded(|| -> Option<String> {
                let mut m = if kind == 0 { Matrix::full(n, n) } else { Matrix::banded(n, n - 1, n - 1) };
                for i in 0..n {
                    m[(i, i)] = 1.0;
                }
                if !m.is_identity() {
                    return Some("the unit matrix is not recognised".into());
                }
                m[(n - 1, n - 1)] = 2.0;
                if m.is_identity() {
                    return Some("still the identity after its last diagonal entry was set to 2".into());
                }
                m[(n - 1, n - 1)] = 1.0;
                if !m.is_identity() {
                    return Some("not the identity again after the entry was restored".into());
                }
                m.component_mul_mut(3.0);
                if m.is_identity() {
                    return Some("still the identity after component_mul_mut(3)".into());
                }
                None
            });
            let msg = match r {
                Ok(None) => continue,
                Ok(Some(m)) => m,
                Err(p) => format!("panicked: {}", p),
            };
            rep.violations.push(Violation::new(&key, "identity-asked-again", format!("{} matrix of size {}: is_identity asked repeatedly on one object: {}", if kind == 0 { "full" } else { "banded" }, n, msg), json!({"key": key})).with("constructor", if kind == 0 { "full" } else { "banded" }));
        }
    }
    *rep.tags.entry("same-thread-sequences".into()).or_insert(0) += 1;
}

/// values at the edges of the number range: entries whose squares underflow, scalars next to 1 and to 0, huge scalars
/// - every storage, every position, against the dense definition
fn edge_values(rep: &mut Report, only: Option<&str>) {
    let tiny = [1e-180, -1e-200, 5e-324, 1e-162, -0.0];
    let scalars = [1.0 + f64::EPSILON, 1.0 - f64::EPSILON / 2.0, 1.0 - f64::EPSILON, 0.1 + 0.2 + 0.3 + 0.4, -1.0 - f64::EPSILON, f64::EPSILON, 1e-300, 1e300, -0.0];
    for n in 1..=5usize {
        // (label, ml, mu): ml = usize::MAX marks the non-banded storages
        let mut stor: Vec<(String, usize, usize)> = vec![("identity".into(), usize::MAX, 0), ("full".into(), usize::MAX, 1)];
        for ml in 0..n {
            for mu in 0..n {
                stor.push((format!("banded({},{})", ml, mu), ml, mu));
            }
        }
        for (label, ml, mu) in &stor {
            let make = || -> (Matrix, Vec<f64>) {
                let d = ident_dense(n);
                let m = if label == "identity" {
                    Matrix::identity(n)
                } else if label == "full" {
                    let mut m = Matrix::full(n, n);
                    for i in 0..n {
                        m[(i, i)] = 1.0;
                    }
                    m
                } else {
                    let mut m = Matrix::banded(n, *ml, *mu);
                    for i in 0..n {
                        m[(i, i)] = 1.0;
                    }
                    m
                };
                (m, d)
            };
            // (a) the unit matrix with one tiny off-diagonal (or diagonal) perturbation
            if label != "identity" {
                for i in 0..n {
                    for j in 0..n {
                        let inband = *ml == usize::MAX || ((i as isize - j as isize) <= *ml as isize && (j as isize - i as isize) <= *mu as isize);
                        if !inband {
                            continue;
                        }
                        for (ti, &t) in tiny.iter().enumerate() {
                            let key = format!("edge:tiny:{}:{}:{}:{}:{}", n, label, i, j, ti);
                            if only.map(|o| o != key).unwrap_or(false) {
                                continue;
                            }
                            rep.evaluations += 1;
                            rep.validated += 1;
                            let r = guarded(|| {
                                let (mut m, mut d) = make();
                                let v = if i == j { 1.0 + t } else { t };
                                m[(i, j)] = v;
                                d[i * n + j] = v;
                                disagree(&m, &d)
                            });
                            let msg = match r {
                                Ok(None) => continue,
                                Ok(Some(m)) => m,
                                Err(p) => format!("panicked: {}", p),
                            };
                            rep.violations.push(Violation::new(&key, "edge-value", format!("{} unit matrix of size {} with entry ({},{}) set to {}{:e}: {}", label, n, i, j, if i == j { "1 + " } else { "" }, t, msg), json!({"key": key})).with("constructor", label.as_str()));
                        }
                    }
                }
            }
            // (b) scalar operations with scalars next to 1 / 0 / the ends of the range, on a filled matrix
            for (si, &c) in scalars.iter().enumerate() {
                for kind in 0..4usize {
                    let key = format!("edge:scalar:{}:{}:{}:{}", n, label, si, kind);
                    if only.map(|o| o != key).unwrap_or(false) {
                        continue;
                    }
                    rep.evaluations += 1;
                    rep.validated += 1;
                    let r = guarded(|| {
                        let (mut m, mut d) = make();
                        if label != "identity" {
                            for i in 0..n {
                                for j in 0..n {
                                    let inband = *ml == usize::MAX || ((i as isize - j as isize) <= *ml as isize && (j as isize - i as isize) <= *mu as isize);
                                    if inband {
                                        let v = 0.75 + (i * n + j) as f64 / 3.0;
                                        m[(i, j)] = v;
                                        d[i * n + j] = v;
                                    }
                                }
                            }
                        }
                        let m2 = match kind {
                            0 => {
                                d.iter_mut().for_each(|v| *v *= c);
                                m.component_mul(c)
                            }
                            1 => {
                                d.iter_mut().for_each(|v| *v *= c);
                                m.component_mul_mut(c);
                                m
                            }
                            2 => {
                                d.iter_mut().for_each(|v| *v += c);
                                m.component_add(c)
                            }
                            _ => {
                                d.iter_mut().for_each(|v| *v -= c);
                                m.component_sub(c)
                            }
                        };
                        disagree(&m2, &d)
                    });
                    let msg = match r {
                        Ok(None) => continue,
                        Ok(Some(m)) => m,
                        Err(p) => format!("panicked: {}", p),
                    };
                    rep.violations.push(Violation::new(&key, "edge-value", format!("{} matrix of size {}, {} with the scalar {:e} ({:016x}): {}", label, n, ["component_mul", "component_mul_mut", "component_add", "component_sub"][kind], c, c.to_bits(), msg), json!({"key": key})).with("constructor", label.as_str()));
                }
            }
        }
    }
    *rep.tags.entry("edge-values".into()).or_insert(0) += 1;
}

/// the documented contract of `Matrix::diagonal`: ml = mu = 0 storage, writable on its diagonal
fn diag_contract_of(label: &str, n: usize, m: &Matrix) -> Option<String> {
    // the triangular constructors: a band that holds the whole triangle, writable in its far corner
    if label == "upper_triangular" || label == "lower_triangular" {
        let upper = label == "upper_triangular";
        let want = if upper { MatrixStorage::Banded { ml: 0, mu: n - 1 } } else { MatrixStorage::Banded { ml: n - 1, mu: 0 } };
        if m.storage != want {
            return Some(format!("storage is {:?}, the triangle needs {:?}", m.storage, want));
        }
        let (i, j) = if upper { (0, n - 1) } else { (n - 1, 0) };
        let wr = guarded(|| {
            let mut m2 = m.clone();
            m2[(i, j)] = 7.5;
            m2[(i, j)]
        });
        if wr != Ok(7.5) {
            return Some(format!("writing the corner ({},{}) of the triangle gives {:?}", i, j, wr));
        }
        return None;
    }
    if !label.starts_with("diagonal") {
        return None;
    }
    let st_ok = m.storage == MatrixStorage::Banded { ml: 0, mu: 0 };
    let wr = guarded(|| {
        let mut m2 = m.clone();
        m2[(n - 1, n - 1)] = 7.5;
        m2[(n - 1, n - 1)]
    });
    if !st_ok {
        Some(format!("storage is {:?}, documented: ml = mu = 0", m.storage))
    } else if wr != Ok(7.5) {
        Some(format!("writing the last diagonal entry gives {:?}", wr))
    } else {
        None
    }
}

/// histories that start from a non-initial state (see the call site)
fn filled_then_written(rep: &mut Report, only: Option<&str>) {
    // histories that start from a non-initial state: a banded matrix whose every stored slot (also the unused
    // corners of the band storage) was set by `fill`, then every in-band entry written to the identity's value,
    // then optionally one entry spoiled: reads and is_identity against the dense definition
    {
        let mut n_hist = 0u64;
        for n in 1..=6usize {
            for ml in 0..=n {
                for mu in 0..=n {
                    for c in [1.5, 1.0, 0.0, -0.0] {
                        for spoil in 0..3usize {
                            let key = format!("filled-then-written:{}:{}:{}:{}:{}", n, ml, mu, c, spoil);
                            if only.map(|o| o != key).unwrap_or(false) {
                                continue;
                            }
                            let r = guarded(|| {
                                let mut m = Matrix::banded(n, ml, mu);
                                m.fill(c);
                                let mut d = vec![0.0; n * n];
                                let inband = |i: usize, j: usize| (i as isize - j as isize) <= ml as isize && (j as isize - i as isize) <= mu as isize;
                                for i in 0..n {
                                    for j in 0..n {
                                        if inband(i, j) {
                                            let v = if i == j { 1.0 } else { 0.0 };
                                            m[(i, j)] = v;
                                            d[i * n + j] = v;
                                        }
                                    }
                                }
                                if spoil == 1 {
                                    m[(n - 1, n - 1)] = 0.0;
                                    d[n * n - 1] = 0.0;
                                }
                                if spoil == 2 && n >= 2 && (ml >= 1 || mu >= 1) {
                                    let (i, j) = if ml >= 1 { (1, 0) } else { (0, 1) };
                                    m[(i, j)] = 2.0;
                                    d[i * n + j] = 2.0;
                                }
                                disagree(&m, &d)
                            });
                            n_hist += 1;
                            rep.evaluations += 1;
                            rep.validated += 1;
                            let msg = match r {
                                Ok(None) => continue,
                                Ok(Some(m)) => m,
                                Err(p) => format!("panicked: {}", p),
                            };
                            rep.violations.push(
                                Violation::new(&key, "filled-then-written", format!("banded({},{}) of size {} filled with {} and then written entry by entry: {}", ml, mu, n, c, msg), json!({"key": key, "n": n, "ml": ml, "mu": mu, "fill": c, "spoil": spoil})).with("constructor", "banded"),
                            );
                        }
                    }
                }
            }
        }
        *rep.tags.entry("filled-then-written".into()).or_insert(0) += n_hist;
    }
}

pub fn run(replay: Option<Value>) -> i32 {
    let mut rep = Report::new("C17", "model_checking");
    if let Some(case) = replay {
        if let Some(key) = case["key"].as_str().filter(|k| k.starts_with("sumseq") || k.starts_with("identityasked")) {
            // (the whole sequence is replayed: the verdict of the named step is reported)
            same_thread_sequences(&mut rep, None);
            rep.violations.retain(|v| v.key == key);
            for v in &rep.violations {
                println!("replay: VIOLATED: {}", v.msg);
            }
            if rep.violations.is_empty() {
                println!("replay: property holds on this sequence");
            }
            return if rep.violations.is_empty() { 0 } else { 1 };
        }
        if let Some(key) = case["key"].as_str().filter(|k| k.starts_with("edge:")) {
            edge_values(&mut rep, Some(key));
            for v in &rep.violations {
                println!("replay: VIOLATED: {}", v.msg);
            }
            if rep.violations.is_empty() {
                println!("replay: property holds on this case");
            }
            return if rep.violations.is_empty() { 0 } else { 1 };
        }
        if let Some(key) = case["key"].as_str().filter(|k| k.starts_with("filled-then-written")) {
            filled_then_written(&mut rep, Some(key));
            for v in &rep.violations {
                println!("replay: VIOLATED: {}", v.msg);
            }
            if rep.violations.is_empty() {
                println!("replay: property holds on this history");
            }
            return if rep.violations.is_empty() { 0 } else { 1 };
        }
        if let Some(label) = case["constructor"].as_str() {
            let n = case["n"].as_u64().unwrap_or(1) as usize;
            for (l, res, dense) in constructors(n) {
                if l == label {
                    let bad = match res {
                        Err(p) => Some(format!("panicked: {}", p)),
                        Ok(m) => diag_contract_of(&l, n, &m).or_else(|| disagree(&m, &dense)),
                    };
                    return match bad {
                        Some(m) => {
                            println!("replay: VIOLATED: constructor {} (n={}): {}", label, n, m);
                            1
                        }
                        None => {
                            println!("replay: property holds for this constructor");
                            0
                        }
                    };
                }
            }
            return 2;
        }
        let s = St::from_json(&case["state"]);
        let a = act_from_json(&case["action"]);
        let ops = operands(s.n as usize);
        match step(&s, &a, &ops) {
            Ok(_) => {
                println!("replay: property holds on this transition");
                return 0;
            }
            Err(m) => {
                println!("replay: VIOLATED: {}", m);
                return 1;
            }
        }
    }
    let thorough = is_thorough();
    // (size, depth)
    let plan: Vec<(usize, u8)> = if thorough {
        vec![(1, 4), (2, 4), (3, 3), (4, 3), (5, 2), (6, 2), (7, 2), (8, 2)]
    } else {
        vec![(1, 3), (2, 3), (3, 3), (4, 2), (5, 2), (8, 1)]
    };
    filled_then_written(&mut rep, None);
    same_thread_sequences(&mut rep, None);
    edge_values(&mut rep, None);
    let mut lattice = vec![];
    let mut total_states = 0u64;
    let mut total_by_value = 0u64;
    for (n, depth) in plan {
        let viol = Arc::new(Mutex::new(vec![]));
        let trans = Arc::new(AtomicU64::new(0));
        let values: Arc<Vec<Mutex<HashSet<u128>>>> = Arc::new((0..64).map(|_| Mutex::new(HashSet::new())).collect());
        // initial states: every constructor; a constructor whose result cannot be read is a violation
        let mut inits = vec![];
        let mut n_ctor = 0;
        for (label, res, dense) in constructors(n) {
            n_ctor += 1;
            match res {
                Err(p) => rep.violations.push(
                    Violation::new(format!("ctor:{}:{}", n, label), "constructor", format!("constructor {} (n={}) panicked: {}", label, n, p), json!({"n": n, "constructor": label}))
                        .with("constructor", label.split('(').next().unwrap()),
                ),
                Ok(m) => {
                    rep.validated += 1;
                    let diag_contract = diag_contract_of(&label, n, &m);
                    if let Some(d) = diag_contract {
                        rep.violations.push(
                            Violation::new(format!("ctor:{}:{}", n, label), "constructor", format!("constructor {} (n={}): {}", label, n, d), json!({"n": n, "constructor": label}))
                                .with("constructor", label.split('(').next().unwrap()),
                        );
                    } else if let Some(d) = disagree(&m, &dense) {
                        rep.violations.push(
                            Violation::new(format!("ctor:{}:{}", n, label), "constructor", format!("constructor {} (n={}): {}", label, n, d), json!({"n": n, "constructor": label}))
                                .with("constructor", label.split('(').next().unwrap()),
                        );
                    } else {
                        inits.push(St::from(&m, &dense, 0, &label));
                    }
                }
            }
        }
        let n_init = inits.len();
        let mk = |inits: Vec<St>| MatModel {
            n,
            max_depth: depth,
            write_vals: if thorough { 2 } else { 1 },
            ops: operands(n),
            inits,
            viol: viol.clone(),
            transitions: trans.clone(),
            values: values.clone(),
        };
        let c1 = mk(inits.clone()).checker().threads(crate::util::workers()).spawn_bfs().join();
        let (u1, s1, d1) = (c1.unique_state_count(), c1.state_count(), c1.max_depth());
        let t1 = trans.load(Ordering::Relaxed);
        let disc = c1.discoveries();
        for (name, path) in disc {
            rep.violations.push(Violation::new(
                format!("state:{}", n),
                "state-invariant",
                format!("property '{}' violated in state {:?}", name, path.last_state()),
                json!({"n": n}),
            ));
        }
        drop(c1);
        // second, independent traversal order: counts must agree (depth is part of the key)
        let viol_first: Vec<Violation> = std::mem::take(&mut *viol.lock().unwrap());
        let c2 = mk(inits.clone()).checker().threads(crate::util::workers()).spawn_dfs().join();
        let u2 = c2.unique_state_count();
        drop(c2);
        let viol_second: Vec<Violation> = std::mem::take(&mut *viol.lock().unwrap());
        if viol_first.is_empty() && u1 != u2 {
            rep.machinery_errors.push(format!("n={}: BFS found {} unique states, DFS {}", n, u1, u2));
        }
        if viol_first.len() != viol_second.len() && viol_first.is_empty() != viol_second.is_empty() {
            rep.machinery_errors.push(format!("n={}: BFS and DFS disagree on violations", n));
        }
        // distinct by value (depth and origin dropped): recount with a cheap own BFS over values
        for s in &inits {
            values[(value_fp(s) as usize) % 64].lock().unwrap().insert(value_fp(s));
        }
        let by_value: usize = values.iter().map(|m| m.lock().unwrap().len()).sum();
        total_states += u1 as u64;
        total_by_value += by_value as u64;
        rep.transitions += t1;
        rep.validated += t1;
        rep.evaluations += t1;
        let mut seen = HashSet::new();
        for v in viol_first {
            // one representative per (storage, action kind, message class) and size
            let class = format!("{}|{:?}|{}", n, v.sig, v.msg.split(':').next().unwrap_or(""));
            if seen.insert(class) {
                rep.violations.push(v);
            }
        }
        lattice.push(json!({"n": n, "depth": depth, "constructors": n_ctor, "initial_states": n_init,
            "unique_states_with_depth": u1, "generated_states": s1, "max_depth_reached": d1,
            "unique_by_value": by_value, "transitions": t1, "dfs_unique_states": u2}));
        println!("C17 n={} depth={} states={} by_value={} transitions={}", n, depth, u1, by_value, t1);
    }
    rep.states = total_states;
    rep.states_override = Some(total_states);
    // distinct non-trivial = distinct matrix values reached (depth dropped)
    for k in 0..total_by_value {
        rep.fps.insert(k as u128);
    }
    rep.rule = "explicit-state search: state = (real ivp::Matrix bits, dense reference bits, depth); initial states = every public constructor for every (ml,mu) in [0,n]^2; actions = writes at every (i,j), component_add/sub/mul/mul_mut with {0,1,-2,0.5,1e-17}, +,-,+=,-=,-=& (both operand orders) with an operand alphabet covering Identity/Full/Banded mixes and bands wider than the matrix; every transition compares all n^2 entries read through Index with the dense reference and is_identity with the dense definition; distinct_nontrivial = distinct (matrix value, reference) pairs reached with depth dropped".into();
    rep.dims = Value::Array(lattice);
    rep.samples.push(json!({"initial": "banded(1,0) n=3", "action": act_json(&Act::Bin(0, 1)), "meaning": "Banded + Full -> dense reference add"}));
    rep.samples.push(json!({"initial": "identity n=2", "action": act_json(&Act::Write(0, 1, 0)), "meaning": "write into Identity must panic and leave the value intact"}));
    rep.assumptions.push("numeric equality (0.0 == -0.0) is the entrywise comparison; swap_rows/fill are not part of the property".into());
    rep.finish()
}

