//! C01 — tolerance-controlled accuracy of every returned sample.

use crate::problems::{base, dissipative, kappa, mix, pair, reference, reflect, shift, warp, Base, Mix, Prob, Warp};
use crate::regress;
use crate::report::{is_thorough, CaseOut, Report, Violation};
use crate::run::{mname, run, Cfg, Outcome, Tol, M5};
use crate::util::par_map;
use ivp::prelude::*;
use serde_json::{json, Value};

const K: f64 = 50.0;
const LADDER: [f64; 5] = [1e-3, 1e-5, 1e-7, 1e-9, 1e-11];

#[derive(Clone, Copy, Debug, PartialEq)]
enum Mode {
    Mixed,
    PureAbsolute,
    PureRelative,
    Vector,
    VectorAtol,
}
const MODES: [Mode; 5] = [Mode::Mixed, Mode::PureAbsolute, Mode::PureRelative, Mode::Vector, Mode::VectorAtol];

#[derive(Clone, Copy, Debug, PartialEq)]
enum Dir {
    Forward,
    BackwardReflected,
    BackwardSameF,
}
const DIRS: [Dir; 3] = [Dir::Forward, Dir::BackwardReflected, Dir::BackwardSameF];

struct Variant {
    prob: Prob,
    span: f64,
    /// admissible multipliers of the default initial state
    scales: Vec<f64>,
}

fn variants(thorough: bool) -> Vec<Variant> {
    let warps: Vec<Warp> = if thorough { vec![Warp::Id, Warp::Sin, Warp::Quad] } else { vec![Warp::Id, Warp::Sin] };
    let mixes: Vec<Mix> = if thorough { vec![Mix::Id, Mix::Shear, Mix::Sl2] } else { vec![Mix::Id, Mix::Sl2] };
    // (1e-12: atol + rtol*|y| falls below the rounding unit under relative control; nothing may depend on that)
    let lin_scales = vec![1.0, 1e-3, 1e3, 1e-12];
    let mut v = vec![];
    for w in &warps {
        // scalar families
        for (b, span, scales) in [
            (Base::Decay(-1.0), 2.0, lin_scales.clone()),
            (Base::Decay(-0.1), 3.0, lin_scales.clone()),
            (Base::Decay(2.0), 1.0, lin_scales.clone()),
            // a solution shrinking by nine orders of magnitude (relative control must follow it down)
            (Base::Decay(-5.0), 4.0, vec![1.0, 1e3]),
            (Base::Logistic(1.5), 2.0, vec![1.0, 2.0]),
            (Base::Riccati, 1.5, vec![1.0, 3.0]),
            (Base::Bernoulli, 1.5, vec![1.0, 1.6]),
            (Base::Rational, 1.5, vec![1.0, 0.5]),
        ] {
            v.push(Variant { prob: warp(&base(b), *w), span, scales });
        }
        // planar families under state mixings
        for mx in &mixes {
            v.push(Variant { prob: mix(&warp(&base(Base::Harmonic(1.0)), *w), *mx), span: 3.0, scales: lin_scales.clone() });
            v.push(Variant { prob: mix(&warp(&base(Base::Spiral(0.3, 2.0)), *w), *mx), span: 2.0, scales: lin_scales.clone() });
            v.push(Variant { prob: mix(&pair(&warp(&base(Base::Logistic(1.5)), *w), 0.6), *mx), span: 2.0, scales: vec![1.0] });
        }
        v.push(Variant { prob: warp(&base(Base::Lin3), *w), span: 2.0, scales: lin_scales.clone() });
    }
    // fast rotations (three turns at angular frequency 400 and 4e4): |y'| is 400 (4e4) times |y|, whatever the error scale is
    // built from must be the state
    v.push(Variant { prob: base(Base::Spiral(0.0, 400.0)), span: 0.05, scales: vec![1.0] });
    v.push(Variant { prob: base(Base::Spiral(0.0, 4.0e4)), span: 5e-4, scales: vec![1.0] });
    // the same oscillator and decay with time measured in a unit 2^40 times smaller (spans of 2e12 and 4e13 - forty radians, long enough for the step controller to leave its start-up ramp -, derivatives of 1e-12):
    // an exact change of variable; nothing in the error control may depend on the unit of time
    let c40 = 2f64.powi(-40);
    v.push(Variant { prob: crate::problems::timescale(&base(Base::Harmonic(1.0)), c40), span: 40.0 / c40, scales: vec![1.0] });
    v.push(Variant { prob: crate::problems::timescale(&base(Base::Decay(-1.0)), c40), span: 2.0 / c40, scales: vec![1.0, 1e-3] });
    v
}

fn tolerances(mode: Mode, tol: f64, n: usize, yscale: f64) -> Option<(Tol, Tol)> {
    Some(match mode {
        Mode::Mixed => (Tol::S(tol), Tol::S(1e-2 * tol * yscale)),
        Mode::PureAbsolute => (Tol::S(0.0), Tol::S(tol * yscale)),
        Mode::PureRelative => (Tol::S(tol), Tol::S(0.0)),
        Mode::Vector => {
            if n < 2 {
                return None;
            }
            // per-component tolerances differing by 1e4, kept inside [1e-11, 1e-3]
            let r: Vec<f64> = (0..n).map(|i| if i % 2 == 0 { tol } else { (tol * 1e-4).max(1e-11).min(tol) }).collect();
            let a: Vec<f64> = r.iter().map(|x| 1e-2 * x * yscale).collect();
            (Tol::V(r), Tol::V(a))
        }
        Mode::VectorAtol => {
            if n < 2 {
                return None;
            }
            // a common tight rtol and per-component atol with different atol/rtol ratios: the even
            // components are governed by a loose atol, the odd ones by one 1e6 times tighter
            let tight = (tol * 1e-6).max(1e-11);
            let r: Vec<f64> = vec![tight; n];
            let a: Vec<f64> = (0..n).map(|i| if i % 2 == 0 { tol * yscale } else { tight * yscale }).collect();
            (Tol::V(r), Tol::V(a))
        }
    })
}

const SHIFTS: [f64; 3] = [0.0, 50.0, -1000.0];
const SPAN_FACTORS: [f64; 3] = [1.0, 0.5, 2.0];

struct Job {
    key: String,
    method: Method,
    shift: f64,
    span_factor: f64,
    vi: usize,
    dir: Dir,
    scale: f64,
    mode: Mode,
    teval: bool,
}

pub fn run_check(replay: Option<Value>) -> i32 {
    let mut rep = Report::new("C01", "model_checking");
    let only = replay.as_ref().and_then(|c| c["key"].as_str().map(|s| s.to_string()));
    let thorough = is_thorough();
    let vars = variants(thorough);
    let mut jobs = vec![];
    for (mi, m) in M5.iter().enumerate() {
        for (vi, v) in vars.iter().enumerate() {
            for (di, d) in DIRS.iter().enumerate() {
                for (si, sc) in v.scales.iter().enumerate() {
                    for (oi, mode) in MODES.iter().enumerate() {
                        for te in [false, true] {
                            for (hi, sh) in SHIFTS.iter().enumerate() {
                                // quick: the shifted origin x0 = 50.2 is combined with the default scale, no
                                // t_eval; thorough: every origin (also x0 = -999.8) with everything
                                if !thorough && (hi == 2 || (*sh != 0.0 && (si != 0 || te))) {
                                    continue;
                                }
                                for (fi, sf) in SPAN_FACTORS.iter().enumerate() {
                                    if !thorough && fi != 0 {
                                        continue;
                                    }
                                    // (the fast rotations only at the origin of the time axis: at |t| = 1000 the rounding of
                                    // the abscissae alone, w ulp(t) per step, exceeds the tighter tolerances)
                                    if (vars[vi].prob.name.starts_with("spiral(0,") || vars[vi].prob.name.starts_with("timescale(")) && *sh != 0.0 {
                                        continue;
                                    }
                                    let key = if fi == 0 { format!("acc:{}.{}.{}.{}.{}.{}.{}", mi, vi, di, si, oi, te as u8, hi) } else { format!("acc:{}.{}.{}.{}.{}.{}.{}.{}", mi, vi, di, si, oi, te as u8, hi, fi) };
                                    jobs.push(Job { key, method: *m, shift: *sh, span_factor: *sf, vi, dir: *d, scale: *sc, mode: *mode, teval: te });
                                }
                            }
                        }
                    }
                }
            }
        }
    }
    let outs = par_map(jobs.len(), |j| {
        let job = &jobs[j];
        if let Some(o) = &only {
            if *o != job.key {
                return None;
            }
        }
        let v = &vars[job.vi];
        let v = &Variant { prob: v.prob.clone(), span: v.span * job.span_factor, scales: vec![] };
        let p0 = &shift(&v.prob, job.shift);
        let x_lo = 0.2 + job.shift;
        let y_lo: Vec<f64> = p0.y0.iter().map(|y| y * job.scale).collect();
        // the problem, its initial point and its end point for this direction
        let (p, x0, y0, xend) = match job.dir {
            Dir::Forward => (p0.clone(), x_lo, y_lo.clone(), x_lo + v.span),
            Dir::BackwardReflected => (reflect(p0), -x_lo, y_lo.clone(), -x_lo - v.span),
            Dir::BackwardSameF => {
                let yhi = p0.exact(x_lo, &y_lo, x_lo + v.span).unwrap();
                (p0.clone(), x_lo + v.span, yhi, x_lo)
            }
        };
        let mut out = CaseOut::default();
        if y0.iter().any(|y| !y.is_finite()) {
            return None;
        }
        let kap = kappa(&p, x0, &y0, xend);
        if !(kap <= 20.0) {
            out.tag("skipped-ill-conditioned");
            return Some(out);
        }
        // solution scale and distance from zero along the trajectory
        let grid: Vec<f64> = (0..=40).map(|i| x0 + (xend - x0) * i as f64 / 40.0).collect();
        let traj: Vec<Vec<f64>> = grid.iter().map(|t| p.exact(x0, &y0, *t).unwrap()).collect();
        let ymax = traj.iter().flat_map(|y| y.iter()).fold(0.0f64, |a, b| a.max(b.abs()));
        let ymin_comp = traj.iter().flat_map(|y| y.iter()).fold(f64::INFINITY, |a, b| a.min(b.abs()));
        // pure relative control needs every component bounded away from zero: no sign change and no
        // approach to zero below 1e-10 of the scale (a solution that merely decays qualifies)
        let sign_change = (0..p.n).any(|i| traj.iter().any(|y| y[i] * traj[0][i] <= 0.0));
        if job.mode == Mode::PureRelative && (sign_change || !(ymin_comp > 1e-10 * ymax)) {
            return None;
        }
        let desc0 = json!({"key": job.key, "method": mname(job.method), "problem": p.name, "direction": format!("{:?}", job.dir), "x0": x0, "xend": xend, "y0": y0,
            "mode": format!("{:?}", job.mode), "t_eval": job.teval, "kappa": kap, "time_shift": job.shift, "span_factor": job.span_factor});
        let mut worst: Vec<f64> = vec![];
        let mut worst_units: Vec<f64> = vec![];
        let mut rows = vec![];
        let mut viols: Vec<(String, String)> = vec![];
        let mut successes = 0;
        let mut failed_at: Vec<f64> = vec![];
        for tol in LADDER {
            let (rt, at) = match tolerances(job.mode, tol, p.n, ymax) {
                Some(x) => x,
                None => return None,
            };
            let mut c = Cfg::new(job.method, x0, xend, &y0);
            c.rtol = rt.clone();
            c.atol = at.clone();
            c.user_jac = true;
            if job.teval {
                c.t_eval = Some((0..=6).map(|i| x0 + (xend - x0) * i as f64 / 6.0).collect());
            }
            let r = run(&p, &c);
            out.events += r.st.n_ode;
            match &r.out {
                Outcome::Ok(s) if s.status == Status::Success => {
                    successes += 1;
                    let nacc = s.naccpt.max(1) as f64;
                    let floor = 64.0 * f64::EPSILON * ymax * (s.nfev.max(1) as f64).sqrt();
                    let mut wratio: f64 = 0.0;
                    let mut werr: f64 = 0.0;
                    for (t, y) in s.t.iter().zip(&s.y) {
                        let ex = p.exact(x0, &y0, *t).unwrap();
                        let ynorm = if p.n == 1 { ex[0].abs() } else { ex.iter().fold(0.0f64, |a, b| a.max(b.abs())) };
                        for i in 0..p.n {
                            let e = (y[i] - ex[i]).abs();
                            werr = werr.max(e);
                            if e <= floor {
                                continue;
                            }
                            let bound = K * kap * nacc * (at.at(i) + rt.at(i) * ynorm);
                            wratio = wratio.max(e / bound * K);
                            if e > bound {
                                viols.push(("accuracy".into(), format!("tol={:e}: sample at t={:e}, component {}: error {:e} exceeds K*kappa*naccpt*(atol+rtol*|y|) = {:e} (naccpt={}, kappa={:.2})", tol, t, i, e, bound, s.naccpt, kap)));
                                break;
                            }
                        }
                    }
                    out.validated += s.t.len() as u64;
                    worst.push(werr.max(floor));
                    worst_units.push(wratio);
                    rows.push(json!({"tol": tol, "naccpt": s.naccpt, "nfev": s.nfev, "worst_error": werr, "worst_ratio_in_units_of_kappa_naccpt_tol": wratio}));
                }
                _ => {
                    worst.push(f64::NAN);
                    worst_units.push(f64::NAN);
                    rows.push(json!({"tol": tol, "outcome": r.outcome_name()}));
                    out.tag("non-success");
                    failed_at.push(tol);
                }
            }
        }
        // tightening the tolerance 100x must not increase the error more than 5x
        for i in 0..worst.len() - 1 {
            // in vector mode the tighter components saturate at 1e-11: only ladder steps that tighten
            // every component by 100x are a tightening in the sense of the property
            if (job.mode == Mode::Vector && LADDER[i + 1] * 1e-4 < 1e-11) || (job.mode == Mode::VectorAtol && LADDER[i + 1] * 1e-6 < 1e-11) {
                continue;
            }
            // an error that sits far below its own tolerance (a run of two or three steps that happens to be
            // super-accurate) fluctuates freely; the clause speaks about errors the tolerance governs: the
            // tightened run must be at least one unit of kappa*naccpt*tol off for an increase to count
            if worst[i].is_finite() && worst[i + 1].is_finite() && worst[i + 1] > 5.0 * worst[i] && worst_units[i + 1] > 1.0 {
                viols.push(("tightening-increases-error".into(), format!("tightening the tolerance from {:e} to {:e} increased the worst error from {:e} to {:e}", LADDER[i], LADDER[i + 1], worst[i], worst[i + 1])));
            }
        }
        if successes == 0 {
            viols.push(("mode-unsupported".into(), format!("no run of the tolerance ladder succeeded in mode {:?}", job.mode)));
        } else if !failed_at.is_empty() {
            // a smooth, well-conditioned problem of the alphabet at a tolerance of the ladder: the
            // property speaks about the samples such a run returns, so it has to return them
            viols.push(("not-solved".into(), format!("the run did not reach xend at tolerance(s) {:?} (outcomes in the ladder)", failed_at)));
        }
        let desc = json!({"case": desc0, "ladder": rows, "key": job.key});
        for (c, msg) in viols {
            out.violations.push(Violation::new(&job.key, &c, msg, desc.clone()).with("method", mname(job.method)).with("mode", format!("{:?}", job.mode)));
        }
        out.tag("ladder");
        if successes == LADDER.len() {
            out.tag("ladder-all-success");
        }
        let mut h = crate::util::Fp::default();
        h.s(&job.key);
        h.u(out.events);
        out.fp = Some(h.as_u128());
        out.sample = Some(desc);
        Some(out)
    });
    let n_ladders = outs.iter().flatten().filter(|o| o.tags.contains(&"ladder")).count();
    rep.absorb(outs.into_iter().flatten().collect());

    // wherever xend falls: a quadrature with a growing third derivative (y = sin t^2), so that the
    // controller rejects a proposed step every now and then — also the one shortened to land on xend
    {
        let chirp = Prob {
            name: "chirp y'=2t cos(t^2)".into(),
            n: 1,
            f: std::sync::Arc::new(|t, _y, d| d[0] = 2.0 * t * (t * t).cos()),
            jac: Some(std::sync::Arc::new(|_t, _y| vec![0.0])),
            flow: Some(std::sync::Arc::new(|s0, y0, s1| vec![y0[0] + (s1 * s1).sin() - (s0 * s0).sin()])),
            y0: vec![0.0],
            linear_homogeneous: false,
        };
        let nx = if thorough { 400 } else { 100 };
        let sweep: Vec<(usize, usize, usize)> = (0..M5.len()).flat_map(|mi| (0..nx).flat_map(move |k| (0..2usize).map(move |ti| (mi, k, ti)))).collect();
        let outs = par_map(sweep.len(), |q| {
            let (mi, k, ti) = sweep[q];
            let key = format!("xend:{}.{}.{}", mi, k, ti);
            if let Some(o) = &only {
                if *o != key {
                    return None;
                }
            }
            let m = M5[mi];
            let xend = 2.0 + 6.0 * k as f64 / nx as f64;
            let tol = [1e-4, 1e-7][ti];
            let mut c = Cfg::new(m, 0.0, xend, &chirp.y0);
            c.rtol = Tol::S(tol);
            c.atol = Tol::S(tol);
            c.user_jac = true;
            let r = run(&chirp, &c);
            let mut out = CaseOut::default();
            out.events = r.st.n_ode;
            let desc = json!({"key": key, "method": mname(m), "problem": chirp.name, "xend": xend, "tol": tol, "outcome": r.outcome_name(), "naccpt": r.sol().map(|s| s.naccpt), "nrejct": r.sol().map(|s| s.nrejct)});
            match r.sol() {
                Some(s) if s.status == Status::Success => {
                    let nacc = s.naccpt.max(1) as f64;
                    for (t, y) in s.t.iter().zip(&s.y) {
                        let e = (y[0] - (t * t).sin()).abs();
                        let bound = K * nacc * (tol + tol * 1.0);
                        if e > bound {
                            out.violations.push(Violation::new(&key, "accuracy", format!("xend={}: sample at t={:e} is off by {:e}, bound K*naccpt*(atol+rtol) = {:e} (naccpt={}, nrejct={})", xend, t, e, bound, s.naccpt, s.nrejct), desc.clone()).with("method", mname(m)).with("mode", "xend-sweep"));
                            break;
                        }
                    }
                    out.validated += s.t.len() as u64;
                    if s.nrejct > 0 {
                        out.tag("xend-sweep-with-rejections");
                    }
                }
                _ => out.violations.push(Violation::new(&key, "not-solved", format!("xend={}: run ended with {}", xend, r.outcome_name()), desc.clone()).with("method", mname(m)).with("mode", "xend-sweep")),
            }
            out.tag("xend-sweep");
            let mut h = r.st.fp;
            h.s(&key);
            out.fp = Some(h.as_u128());
            out.sample = Some(desc);
            Some(out)
        });
        rep.absorb(outs.into_iter().flatten().collect());
    }

    // the tolerances a caller does not give are SciPy's defaults (rtol 1e-3, atol 1e-6): leaving one or both
    // unset is the same run, bit for bit, as giving those values; judged on a solution of size 1e-3
    // (where the two defaults matter equally)
    {
        let small = Prob { y0: vec![1e-3, 0.0], ..base(Base::Harmonic(1.0)) };
        for m in M5 {
            for (dr, da) in [(true, false), (false, true), (true, true)] {
                let mut ce = Cfg::new(m, 0.0, 3.0, &small.y0);
                ce.rtol = Tol::S(1e-3);
                ce.atol = Tol::S(1e-6);
                let mut cd = ce.clone();
                cd.default_rtol = dr;
                cd.default_atol = da;
                let (re, rd) = (run(&small, &ce), run(&small, &cd));
                rep.evaluations += 2;
                rep.transitions += re.st.n_ode + rd.st.n_ode;
                let key = format!("defaults:{}:{}{}", mname(m), dr as u8, da as u8);
                let same = match (re.sol(), rd.sol()) {
                    (Some(a), Some(b)) => a.status == b.status && a.t.len() == b.t.len() && a.t.iter().zip(&b.t).all(|(u, v)| u.to_bits() == v.to_bits()) && a.y.iter().zip(&b.y).all(|(u, v)| u.iter().zip(v).all(|(p, q)| p.to_bits() == q.to_bits())) && re.st.fp == rd.st.fp,
                    _ => false,
                };
                *rep.tags.entry("default-tolerances".into()).or_insert(0) += 1;
                if !same {
                    rep.violations.push(
                        Violation::new(&key, "default-tolerances", format!("{}: leaving {} unset is not the run with rtol = 1e-3, atol = 1e-6 ({} vs {} accepted steps)", mname(m), match (dr, da) { (true, false) => "rtol", (false, true) => "atol", _ => "rtol and atol" }, rd.sol().map(|s| s.naccpt).unwrap_or(0), re.sol().map(|s| s.naccpt).unwrap_or(0)), json!({"key": key}))
                            .with("method", mname(m))
                            .with("mode", "defaults"),
                    );
                }
            }
        }
    }

    // method names: the documented strings select the documented methods (a run asked for by name is the run of
    // that method)
    {
        let names: [(&str, Method); 14] = [
            ("RK23", Method::RK23), ("rk23", Method::RK23), ("DOPRI5", Method::DOPRI5), ("dopri5", Method::DOPRI5), ("RK45", Method::DOPRI5), ("rk45", Method::DOPRI5),
            ("DOP853", Method::DOP853), ("dop853", Method::DOP853), ("RK4", Method::RK4), ("rk4", Method::RK4), ("RADAU", Method::RADAU), ("Radau", Method::RADAU),
            ("BDF", Method::BDF), ("bdf", Method::BDF),
        ];
        for (name, want) in names {
            rep.evaluations += 1;
            rep.validated += 1;
            let got = crate::util::guarded(|| Method::from(name));
            *rep.tags.entry("method-names".into()).or_insert(0) += 1;
            if got.as_ref().map(|g| *g != want).unwrap_or(true) {
                let key = format!("methodname:{}", name);
                rep.violations.push(Violation::new(&key, "method-name", format!("Method::from({:?}) gives {:?}, documented: {:?}", name, got, want), json!({"key": key})).with("mode", "names"));
            }
        }
    }

    // the sample a run with first_step (and no t_eval) reports at x0 + first_step is a sample of the solution like
    // every other one - also when the first attempt is rejected and the first accepted step is shorter, or when a
    // first step of 0.995 of the span is stretched to the end
    {
        let fprobs = [(base(Base::Harmonic(1.5)), 2.0), (base(Base::Logistic(2.0)), 1.5)];
        for m in M5 {
            for (pi, (p0, span)) in fprobs.iter().enumerate() {
                for backward in [false, true] {
                    for (fi, frac) in [0.5, 0.995, 0.02, 0.25].iter().enumerate() {
                        for tol in [1e-4, 1e-8] {
                            let p = if backward { reflect(p0) } else { p0.clone() };
                            let xend = if backward { -*span } else { *span };
                            let mut c = Cfg::new(m, 0.0, xend, &p.y0).tol(tol, tol * 1e-2);
                            c.user_jac = true;
                            c.first_step = Some(frac * xend);
                            let r = run(&p, &c);
                            rep.evaluations += 1;
                            rep.transitions += r.st.n_ode;
                            let key = format!("firstsample:{}:{}:{}:{}:{:e}", mname(m), pi, backward as u8, fi, tol);
                            let s = match r.sol() {
                                Some(s) if s.status == Status::Success => s,
                                _ => {
                                    rep.violations.push(Violation::new(&key, "not-solved", format!("{} with first_step = {} span ended with {}", mname(m), frac, r.outcome_name()), json!({"key": key})).with("method", mname(m)).with("mode", "first-step"));
                                    continue;
                                }
                            };
                            let kap = kappa(&p, 0.0, &p.y0, xend).max(1.0);
                            let nacc = s.naccpt.max(1) as f64;
                            let mut worst: (f64, f64) = (0.0, 0.0);
                            for (t, y) in s.t.iter().zip(&s.y) {
                                let ex = p.exact(0.0, &p.y0, *t).unwrap();
                                let ymax = ex.iter().fold(0.0f64, |a, b| a.max(b.abs()));
                                let e = y.iter().zip(&ex).fold(0.0f64, |a, (u, v)| a.max((u - v).abs())) / (50.0 * kap * nacc * (tol * 1e-2 + tol * ymax));
                                if e > worst.0 {
                                    worst = (e, *t);
                                }
                            }
                            rep.validated += s.t.len() as u64;
                            *rep.tags.entry("first-step-samples".into()).or_insert(0) += 1;
                            if s.nrejct > 0 {
                                *rep.tags.entry("first-step-samples-after-rejection".into()).or_insert(0) += 1;
                            }
                            if worst.0 > 1.0 {
                                rep.violations.push(
                                    Violation::new(&key, "first-step-sample", format!("{}{} with first_step = {} span, tol {:e}: the sample at t = {:e} is off by {:.1} times the bound 50 kappa naccpt (atol + rtol |y|)", mname(m), if backward { " backward" } else { "" }, frac, tol, worst.1, worst.0), json!({"key": key}))
                                        .with("method", mname(m))
                                        .with("mode", "first-step"),
                                );
                            }
                        }
                    }
                }
            }
        }
    }

    // RK4: fourth-order global convergence as the step is refined
    let rk4_jobs: Vec<(usize, Dir)> = (0..vars.len()).flat_map(|vi| DIRS.iter().map(move |d| (vi, *d))).collect();
    let outs = par_map(rk4_jobs.len(), |j| {
        let (vi, dir) = rk4_jobs[j];
        let key = format!("rk4:{}.{:?}", vi, dir);
        if let Some(o) = &only {
            if *o != key {
                return None;
            }
        }
        let v = &vars[vi];
        let p0 = &v.prob;
        let x_lo = 0.2;
        let (p, x0, y0, xend) = match dir {
            Dir::Forward => (p0.clone(), x_lo, p0.y0.clone(), x_lo + v.span),
            Dir::BackwardReflected => (reflect(p0), -x_lo, p0.y0.clone(), -x_lo - v.span),
            Dir::BackwardSameF => (p0.clone(), x_lo + v.span, p0.exact(x_lo, &p0.y0, x_lo + v.span).unwrap(), x_lo),
        };
        let mut out = CaseOut::default();
        if !(kappa(&p, x0, &y0, xend) <= 20.0) {
            return Some(out);
        }
        let mut errs = vec![];
        // two step ladders: steps dividing the span (end point only) and steps that do not divide it
        // (a shortened last step), the latter sampled through t_eval at 7 points inside the steps
        let mut errs_te = vec![];
        let mut errs_st = vec![];
        for k in 3..=9 {
            let h = (xend - x0) / 2f64.powi(k);
            let mut c = Cfg::new(Method::RK4, x0, xend, &y0);
            c.first_step = Some(h);
            let r = run(&p, &c);
            out.events += r.st.n_ode;
            match r.sol() {
                Some(s) if s.status == Status::Success => {
                    let ex = p.exact(x0, &y0, xend).unwrap();
                    let yl = s.y.last().unwrap();
                    errs.push(yl.iter().zip(&ex).fold(0.0f64, |a, (u, w)| a.max((u - w).abs())));
                }
                _ => errs.push(f64::NAN),
            }
            // span / h = 2^k + 0.005: after 2^k - 1 steps the rest is 1.005 h, inside the 1 % look-ahead, and the
            // last step is stretched onto xend
            let mut c3 = Cfg::new(Method::RK4, x0, xend, &y0);
            c3.first_step = Some((xend - x0) / (2f64.powi(k) + 0.005));
            let r3 = run(&p, &c3);
            out.events += r3.st.n_ode;
            match r3.sol() {
                Some(s) if s.status == Status::Success && s.t.last().map(|t| t.to_bits()) == Some(xend.to_bits()) => {
                    let ex = p.exact(x0, &y0, xend).unwrap();
                    let yl = s.y.last().unwrap();
                    errs_st.push(yl.iter().zip(&ex).fold(0.0f64, |a, (u, w)| a.max((u - w).abs())));
                }
                _ => errs_st.push(f64::NAN),
            }
            let mut c2 = Cfg::new(Method::RK4, x0, xend, &y0);
            c2.first_step = Some((xend - x0) / (2f64.powi(k) - 0.4));
            c2.t_eval = Some((0..=6).map(|i| x0 + (xend - x0) * (i as f64 + if i == 6 { 0.0 } else { 0.37 }) / 6.0).map(|t| if (t - x0).abs() > (xend - x0).abs() { xend } else { t }).collect());
            let r2 = run(&p, &c2);
            out.events += r2.st.n_ode;
            match r2.sol() {
                Some(s) if s.status == Status::Success && s.t.len() == 7 => {
                    let mut e: f64 = 0.0;
                    for (t, y) in s.t.iter().zip(&s.y) {
                        let ex = p.exact(x0, &y0, *t).unwrap();
                        e = e.max(y.iter().zip(&ex).fold(0.0f64, |a, (u, w)| a.max((u - w).abs())));
                    }
                    errs_te.push(e);
                }
                _ => errs_te.push(f64::NAN),
            }
        }
        let scale = p.exact(x0, &y0, xend).unwrap().iter().fold(1e-300f64, |a, b| a.max(b.abs()));
        let floor = 1e-13 * scale.max(y0.iter().fold(0.0f64, |a, b| a.max(b.abs())));
        let mut obs = vec![];
        for i in 0..errs.len() - 1 {
            if errs[i].is_finite() && errs[i + 1].is_finite() && errs[i + 1] > floor {
                obs.push((errs[i] / errs[i + 1]).log2());
            }
        }
        let mut obs_te = vec![];
        for i in 0..errs_te.len() - 1 {
            if errs_te[i].is_finite() && errs_te[i + 1].is_finite() && errs_te[i + 1] > floor {
                obs_te.push((errs_te[i] / errs_te[i + 1]).log2());
            }
        }
        let desc = json!({"key": key, "problem": p.name, "direction": format!("{:?}", dir), "errors_h_halved": errs, "observed_orders": obs,
            "errors_t_eval_nondividing_steps": errs_te, "observed_orders_t_eval": obs_te});
        let mut obs_st = vec![];
        for i in 0..errs_st.len() - 1 {
            if errs_st[i].is_finite() && errs_st[i + 1].is_finite() && errs_st[i + 1] > floor {
                obs_st.push((errs_st[i] / errs_st[i + 1]).log2());
            }
        }
        let tail_st: Vec<f64> = obs_st.iter().rev().take(3).copied().collect();
        if errs_st.iter().any(|e| e.is_nan()) {
            out.violations.push(Violation::new(&key, "rk4-stretched-last-step", format!("RK4 on {} with span/h = 2^k + 0.005: a run did not end with Success on xend (errors {:?})", p.name, errs_st), desc.clone()).with("method", "RK4"));
        } else if tail_st.len() >= 2 {
            out.tag("rk4-convergence-stretched-last-step");
            let best = tail_st.iter().fold(f64::NEG_INFINITY, |a, b| a.max(*b));
            if best < 3.6 {
                out.violations.push(Violation::new(&key, "rk4-order-stretched-last-step", format!("RK4 on {} with span/h = 2^k + 0.005 (last step stretched onto xend): observed global orders {:?} (errors {:?})", p.name, obs_st, errs_st), desc.clone()).with("method", "RK4"));
            }
        }
        let tail_te: Vec<f64> = obs_te.iter().rev().take(3).copied().collect();
        if tail_te.len() >= 2 {
            out.tag("rk4-convergence-t-eval");
            let best = tail_te.iter().fold(f64::NEG_INFINITY, |a, b| a.max(*b));
            // the cubic Hermite interpolant limits requested-time samples to O(h^4) as well
            if best < 3.6 {
                out.violations.push(Violation::new(&key, "rk4-order-t-eval", format!("RK4 on {} with steps not dividing the span, t_eval samples: observed orders {:?} (errors {:?})", p.name, obs_te, errs_te), desc.clone()).with("method", "RK4"));
            }
        }
        let tail: Vec<f64> = obs.iter().rev().take(3).copied().collect();
        if tail.len() >= 2 {
            out.tag("rk4-convergence");
            let best = tail.iter().fold(f64::NEG_INFINITY, |a, b| a.max(*b));
            if best < 3.6 {
                out.violations.push(Violation::new(&key, "rk4-order", format!("RK4 on {}: observed global orders {:?} (errors {:?})", p.name, obs, errs), desc.clone()).with("method", "RK4"));
            }
        }
        out.validated = 1;
        let mut h = crate::util::Fp::default();
        h.s(&key);
        out.fp = Some(h.as_u128());
        out.sample = Some(desc);
        Some(out)
    });
    rep.absorb(outs.into_iter().flatten().collect());

    // thorough: dissipative polynomial fields against the independent reference integrator
    if thorough {
        let codes: Vec<(usize, usize)> = (0..27).map(|c| (2usize, c * 3 % 729)).chain((0..27).map(|c| (3usize, (c * 757) % 19683))).collect();
        let outs = par_map(codes.len() * M5.len(), |j| {
            let (n, code) = codes[j / M5.len()];
            let m = M5[j % M5.len()];
            let key = format!("field:{}.{}.{}", n, code, mname(m));
            if let Some(o) = &only {
                if *o != key {
                    return None;
                }
            }
            let p = dissipative(n, code);
            let ts: Vec<f64> = (0..=6).map(|i| 2.0 * i as f64 / 6.0).collect();
            let yref = reference(&p.f, n, 0.0, &p.y0, &ts, 1e-13)?;
            let mut out = CaseOut::default();
            let mut viols = vec![];
            for tol in LADDER {
                let mut c = Cfg::new(m, 0.0, 2.0, &p.y0).tol(tol, tol * 1e-2);
                c.user_jac = true;
                c.t_eval = Some(ts.clone());
                let r = run(&p, &c);
                out.events += r.st.n_ode;
                if let Some(s) = r.sol() {
                    if s.status == Status::Success {
                        for (k, y) in s.y.iter().enumerate() {
                            let ynorm = yref[k].iter().fold(0.0f64, |a, b| a.max(b.abs()));
                            for i in 0..n {
                                let e = (y[i] - yref[k][i]).abs();
                                let bound = K * s.naccpt.max(1) as f64 * (tol * 1e-2 + tol * ynorm) + 1e-12;
                                if e > bound {
                                    viols.push(format!("tol={:e}: error {:e} at t={} exceeds {:e}", tol, e, ts[k], bound));
                                }
                            }
                        }
                        out.validated += 1;
                    }
                }
            }
            let desc = json!({"key": key, "problem": p.name, "method": mname(m)});
            for msg in viols {
                out.violations.push(Violation::new(&key, "accuracy-vs-reference", msg, desc.clone()).with("method", mname(m)));
            }
            out.tag("reference-integrator");
            let mut h = crate::util::Fp::default();
            h.s(&key);
            out.fp = Some(h.as_u128());
            out.sample = Some(desc);
            Some(out)
        });
        rep.absorb(outs.into_iter().flatten().collect());
    }
    if let Some(o) = &only {
        // (the blocks that are not driven by a lattice index run as a whole: keep the replayed case's verdict only)
        rep.violations.retain(|v| &v.key == o);
        for v in &rep.violations {
            println!("replay: VIOLATED [{}]: {}\n{}", v.sig["check"], v.msg, serde_json::to_string_pretty(&v.case).unwrap());
        }
        if rep.violations.is_empty() {
            println!("replay: property holds on this case");
        }
        return if rep.violations.is_empty() { 0 } else { 1 };
    }
    rep.violations.extend(regress::violations_for("C01"));
    rep.dims = json!({"methods": M5.iter().map(|m| mname(*m)).collect::<Vec<_>>(), "problem_variants": vars.iter().map(|v| v.prob.name.clone()).collect::<Vec<_>>(),
        "directions": ["forward", "backward by reflection", "backward on the same f (kappa <= 20)"], "tolerance_ladder": LADDER, "modes": ["mixed atol=1e-2*rtol", "pure absolute (rtol=0)", "pure relative (atol=0, solution bounded away from 0)", "per-component vectors differing by 1e4"],
        "t_eval": ["none", "7 points incl. endpoints"], "time_origin": ["x0 = 0.2", "x0 = 50.2 (time-shifted problem)", "x0 = -999.8 (thorough)"], "span_factor": "1 (quick); 1, 0.5, 2 (thorough)", "ladders_run": n_ladders, "rk4": "step ladder h = span/2^k, k=3..9"});
    // vacuity: at least 95 % of the ladders must have succeeded at every tolerance... counted per ladder
    let all = rep.tag_count("ladder");
    let ok = rep.tag_count("ladder-all-success");
    rep.extra.insert("ladders".into(), json!(all));
    rep.extra.insert("ladders_with_success_at_every_tolerance".into(), json!(ok));
    if (ok as f64) < 0.80 * all as f64 {
        rep.machinery_errors.push(format!("only {} of {} tolerance ladders succeeded at every tolerance", ok, all));
    }
    rep.require("ladder", 500);
    rep.require("rk4-convergence", 10);
    rep.require("rk4-convergence-t-eval", 10);
    rep.require("xend-sweep-with-rejections", 50);
    rep.rule = "every (method, problem variant, direction, initial-state scale, tolerance mode incl. per-component rtol and per-component atol with differing atol/rtol ratios, time origin, t_eval) is run over the whole tolerance ladder; oracle: every component of every returned sample within K*kappa*max(1,naccpt)*(atol_i+rtol_i*Y(t)) of the closed form (K=50, kappa = conditioning from the closed-form flow, configurations with kappa>20 skipped and counted, rounding floor 64 eps scale sqrt(nfev)); tightening 100x never increases the worst error more than 5x (counted when the tightened run's error is at least one unit kappa*naccpt*tol, i.e. governed by the tolerance); RK4: observed global order >= 3.6; thorough: dissipative polynomial fields against an independent extrapolated RK4 reference; distinct = distinct ladders".into();
    rep.assumptions.push("|y| is read as the max norm for coupled systems; a run of the alphabet that ends without Success is a violation (not-solved; whole mode failing: mode-unsupported): these are smooth well-conditioned problems at tolerances inside the stated range, also with the time origin shifted to x0 = 50.2".into());
    rep.finish()
}
