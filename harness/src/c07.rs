//! C07 — dense output is accurate to the interpolant's order inside every step.
//! (1) exact: dense weights b_j(theta) extracted by impulse probing satisfy the dense order
//! conditions sum_j b_j(theta) Phi_j(t) = theta^rho(t)/gamma(t) for ALL rooted trees of order <= q
//! at 9 theta nodes; (2) observed: interior error order on single steps from exact data; BDF:
//! interior error against endpoint error over whole runs.

use crate::env::Ans;
use crate::problems::{base, reflect, warp, Base, Prob, Warp};
use crate::regress;
use crate::report::{Report, Violation};
use crate::run::{mname, run, run_lowlevel, Cfg, Tol};
use crate::tableau::{extract, extract_second_step, orders, residual, Forest};
use ivp::prelude::*;
use serde_json::{json, Value};

const RK_METHODS: [Method; 5] = [Method::RK4, Method::RK23, Method::DOPRI5, Method::DOP853, Method::RADAU];

fn problems() -> Vec<Prob> {
    vec![base(Base::Riccati), warp(&base(Base::Logistic(2.0)), Warp::Sin), base(Base::Harmonic(1.3)), base(Base::Rational)]
}

fn gcd(a: usize, b: usize) -> usize {
    if b == 0 {
        a
    } else {
        gcd(b, a % b)
    }
}

pub fn run_check(replay: Option<Value>) -> i32 {
    let mut rep = Report::new("C07", "model_checking");
    let forest = Forest::new(8);
    let mut samples = vec![];
    for m in RK_METHODS {
        let (_, q, _) = orders(m);
        for (sign, second) in [(1.0, false), (-1.0, false), (1.0, true), (-1.0, true)] {
            if second && m == Method::RADAU {
                continue;
            }
            let ex = match if second { extract_second_step(m, sign, false) } else { extract(m, sign) } {
                Ok(e) => e,
                Err(e) => {
                    if second {
                        let key = format!("secondstep:{}:{}", mname(m), sign);
                        rep.violations.push(Violation::new(&key, "second-step-extraction", format!("{}: dense weights of the shortened second step cannot be read off: {}", mname(m), e), json!({"key": key})).with("method", mname(m)));
                    } else {
                        rep.machinery_errors.push(format!("extraction failed for {}: {}", mname(m), e));
                    }
                    continue;
                }
            };
            // every stage (dense stages included) is evaluated at the abscissa its row of A implies
            for i in 0..ex.s {
                let rs: f64 = ex.a[i].iter().sum();
                rep.evaluations += 1;
                if (rs - ex.c[i]).abs() > 1e-13 * (1.0 + rs.abs()) {
                    let key = format!("stagetime:{}:{}:{}:{}", mname(m), sign, second, i);
                    rep.violations.push(
                        Violation::new(&key, "stage-abscissa", format!("{} ({} step, h sign {}): stage {} is evaluated at x + {:e} h but its row of A sums to {:e}", mname(m), if second { "second" } else { "first" }, sign, i + 1, ex.c[i], rs), json!({"key": key}))
                            .with("method", mname(m)),
                    );
                }
            }
            let sign = if second { sign * 2.0 } else { sign };
            let phi = forest.phis(&ex.a);
            for (ti_, th) in ex.thetas.iter().enumerate() {
                let w = &ex.btheta[ti_];
                for ti in forest.up_to(q) {
                    let t = &forest.trees[ti];
                    let rhs = th.powi(t.order as i32) / t.gamma;
                    let (res, scale) = residual(w, &phi[ti], rhs);
                    rep.evaluations += 1;
                    rep.transitions += 1;
                    let mut h = crate::util::Fp::default();
                    h.s(mname(m));
                    h.u(ti as u64);
                    h.f(*th);
                    h.f(sign);
                    rep.fps.insert(h.as_u128());
                    if res.abs() > 1e-12 * scale.max(1e-3) {
                        let key = format!("densecond:{}:{}:{}:{}", mname(m), sign, th, ti);
                        rep.violations.push(
                            Violation::new(&key, "dense-order-condition", format!("{} (h sign {}): dense order condition of tree {} (order {}) at theta={} has residual {:e} (scale {:e})", mname(m), sign, forest.describe(ti), t.order, th, res, scale), json!({"key": key, "theta": th, "weights": w, "tree": forest.describe(ti)}))
                                .with("method", mname(m))
                                .with("tree_order", t.order),
                        );
                    }
                }
            }
            *rep.tags.entry("dense-conditions".into()).or_insert(0) += 1;
            // the first order not claimed must leave a residual (guards against a vacuous extraction)
            let th: f64 = 0.5;
            let w = &ex.btheta[4];
            let worst = forest.of_order(q + 1).map(|ti| residual(w, &phi[ti], th.powi((q + 1) as i32) / forest.trees[ti].gamma).0.abs()).fold(0.0f64, f64::max);
            if worst < 1e-9 {
                rep.machinery_errors.push(format!("{}: dense conditions of order {} hold as well at theta=1/2 — extraction suspicious", mname(m), q + 1));
            }
            if sign == 1.0 {
                samples.push(json!({"method": mname(m), "theta": 0.5, "b(theta)": w, "dense_order_claimed": q}));
            }
        }
        // (2) observed interior order on single steps from exact data
        for (pi, p0) in problems().iter().enumerate() {
            for backward in [false, true] {
                let pr = if backward { reflect(p0) } else { p0.clone() };
                let x0 = if backward { -0.4 } else { 0.4 };
                let y0 = pr.exact(0.0, &pr.y0, x0).unwrap();
                let thetas: Vec<f64> = (1..=9).map(|k| k as f64 / 10.0).collect();
                let mut errs = vec![];
                for k in 1..=8 {
                    let h = 0.5f64.powi(k) * if backward { -1.0 } else { 1.0 };
                    let mut c = Cfg::new(m, x0, x0 + h, &y0);
                    c.first_step = Some(h);
                    c.user_jac = true;
                    if m == Method::RADAU {
                        c.rtol = Tol::S(1.0);
                        c.atol = Tol::S(1.0);
                        c.newton_tol = Some(1e-13);
                    } else {
                        c.rtol = Tol::S(0.0);
                        c.atol = Tol::S(1e30);
                    }
                    let r = run_lowlevel(&pr, &c, &[(1, Ans::Interrupt)], &thetas, None, false);
                    rep.evaluations += 1;
                    rep.transitions += r.st.n_ode;
                    if r.recs.len() < 2 || (r.recs[1].x - (x0 + h)).abs() > 1e-15 {
                        errs.push(f64::NAN);
                        continue;
                    }
                    let mut e: f64 = 0.0;
                    for (t, v) in &r.interior[1] {
                        let ex = pr.exact(x0, &y0, *t).unwrap();
                        e = e.max(v.iter().zip(&ex).fold(0.0f64, |a, (u, w)| a.max((u - w).abs())));
                    }
                    errs.push(e);
                }
                let floor = 2e-14;
                let mut obs = vec![];
                for i in 0..errs.len() - 1 {
                    if errs[i].is_finite() && errs[i + 1].is_finite() && errs[i] > floor && errs[i + 1] > floor {
                        obs.push((errs[i] / errs[i + 1]).log2());
                    }
                }
                rep.validated += 1;
                let tail: Vec<f64> = obs.iter().rev().take(3).copied().collect();
                if tail.len() >= 2 {
                    *rep.tags.entry("interior-order-ladder".into()).or_insert(0) += 1;
                    let best = tail.iter().fold(f64::NEG_INFINITY, |a, b| a.max(*b));
                    if best < (q + 1) as f64 - 0.4 {
                        let key = format!("interior:{}:{}:{}", mname(m), pi, backward as u8);
                        rep.violations.push(
                            Violation::new(&key, "interior-order", format!("{} on {}{}: observed interior order {:?} (errors {:?}), expected about {}", mname(m), pr.name, if backward { " backward" } else { "" }, obs, errs, q + 1), json!({"key": key}))
                                .with("method", mname(m)),
                        );
                    }
                }
            }
        }
    }
    // BDF: the interior accuracy matches the accuracy of the step itself, over whole runs
    for (pi, p0) in problems().iter().enumerate() {
        for backward in [false, true] {
            for tol in [1e-4, 1e-6, 1e-8] {
                let pr = if backward { reflect(p0) } else { p0.clone() };
                let xend = if backward { -2.0 } else { 2.0 };
                let mut c = Cfg::new(Method::BDF, 0.0, xend, &pr.y0).tol(tol, tol * 1e-2);
                c.user_jac = true;
                let thetas: Vec<f64> = (1..=9).map(|k| k as f64 / 10.0).collect();
                let r = run_lowlevel(&pr, &c, &[], &thetas, None, false);
                rep.evaluations += 1;
                rep.transitions += r.st.n_ode;
                if r.ok().map(|i| i.status != Status::Success).unwrap_or(true) {
                    rep.machinery_errors.push(format!("BDF run failed on {}", pr.name));
                    continue;
                }
                let mut worst_end: f64 = 0.0;
                let mut worst_in: f64 = 0.0;
                for (j, q) in r.recs.iter().enumerate().skip(1) {
                    let ex = pr.exact(0.0, &pr.y0, q.x).unwrap();
                    worst_end = worst_end.max(q.y.iter().zip(&ex).fold(0.0f64, |a, (u, w)| a.max((u - w).abs())));
                    for (t, v) in &r.interior[j] {
                        let ex = pr.exact(0.0, &pr.y0, *t).unwrap();
                        worst_in = worst_in.max(v.iter().zip(&ex).fold(0.0f64, |a, (u, w)| a.max((u - w).abs())));
                    }
                }
                rep.validated += 1;
                *rep.tags.entry("bdf-interior".into()).or_insert(0) += 1;
                if worst_in > 4.0 * worst_end + 50.0 * tol {
                    let key = format!("bdfinterior:{}:{}:{:e}", pi, backward as u8, tol);
                    rep.violations.push(Violation::new(&key, "bdf-interior", format!("BDF on {} tol {:e}: worst interior error {:e} vs worst endpoint error {:e}", pr.name, tol, worst_in, worst_end), json!({"key": key})).with("method", "BDF"));
                }
            }
        }
    }
    // Radau through its own builder, with either step size controller: interior versus endpoints over whole runs
    for (pi, p0) in problems().iter().enumerate() {
        for backward in [false, true] {
            for classical in [false, true] {
                for tol in [1e-5, 1e-8] {
                    let pr = if backward { reflect(p0) } else { p0.clone() };
                    let xend = if backward { -2.0 } else { 2.0 };
                    let mut c = Cfg::new(Method::RADAU, 0.0, xend, &pr.y0).tol(tol, tol * 1e-2);
                    c.user_jac = true;
                    c.radau_classical = classical;
                    let thetas: Vec<f64> = (1..=9).map(|k| k as f64 / 10.0).collect();
                    let r = run_lowlevel(&pr, &c, &[], &thetas, None, false);
                    rep.evaluations += 1;
                    rep.transitions += r.st.n_ode;
                    if r.ok().map(|i| i.status != Status::Success).unwrap_or(true) || r.recs.len() < 4 {
                        rep.machinery_errors.push(format!("Radau (classical {}) run failed on {}", classical, pr.name));
                        continue;
                    }
                    let mut worst_end: f64 = 0.0;
                    let mut worst_in: f64 = 0.0;
                    for (j, q) in r.recs.iter().enumerate().skip(1) {
                        let ex = pr.exact(0.0, &pr.y0, q.x).unwrap();
                        worst_end = worst_end.max(q.y.iter().zip(&ex).fold(0.0f64, |a, (u, w)| a.max((u - w).abs())));
                        for (t, v) in &r.interior[j] {
                            let ex = pr.exact(0.0, &pr.y0, *t).unwrap();
                            worst_in = worst_in.max(v.iter().zip(&ex).fold(0.0f64, |a, (u, w)| a.max((u - w).abs())));
                        }
                    }
                    rep.validated += 1;
                    *rep.tags.entry("radau-controllers".into()).or_insert(0) += 1;
                    if !(worst_in <= 20.0 * worst_end + 50.0 * tol) {
                        let key = format!("radauctl:{}:{}:{}:{:e}", pi, backward as u8, classical as u8, tol);
                        rep.violations.push(Violation::new(&key, "radau-interior", format!("Radau (predictive {}) on {} tol {:e}: worst interior error {:e} vs worst endpoint error {:e}", !classical, pr.name, tol, worst_in, worst_end), json!({"key": key})).with("method", "RADAU"));
                    }
                }
            }
        }
    }
    // stiff tracking problems (Prothero-Robinson, y' = -lam (y - cos t) - sin t, y = cos t) with the implicit
    // methods: first and post-rejection attempts take the branches of the error estimator that are never
    // entered on non-stiff problems.  Inside the steps the collocation polynomial of a stiff step is known to
    // be less accurate than the step ends (measured up to 200x on the tree), so the clause is the coarse one:
    // endpoints within 1e-3 => nothing inside a step is off by more than 2e-2 (or 500x the endpoint error)
    for m in [Method::RADAU, Method::BDF] {
        for backward in [false, true] {
            for (li, lam) in [1e2, 1e4].iter().enumerate() {
                for (ti, tl) in [1e-3, 1e-6].iter().enumerate() {
                    for fs in [None, Some(0.1)] {
                        let lam = *lam;
                        let p0 = Prob {
                            name: format!("Prothero-Robinson lam={:e}", lam),
                            n: 1,
                            f: std::sync::Arc::new(move |t, y, d| d[0] = -lam * (y[0] - t.cos()) - t.sin()),
                            jac: Some(std::sync::Arc::new(move |_t, _y| vec![-lam])),
                            flow: Some(std::sync::Arc::new(move |s0, y0, s1| vec![s1.cos() + (y0[0] - s0.cos()) * (-lam * (s1 - s0)).exp()])),
                            y0: vec![1.0],
                            linear_homogeneous: false,
                        };
                        let pr = if backward { reflect(&p0) } else { p0 };
                        let xend = if backward { -3.0 } else { 3.0 };
                        let mut c = Cfg::new(m, 0.0, xend, &pr.y0).tol(*tl, tl * 1e-2);
                        c.dense = true;
                        c.user_jac = true;
                        c.first_step = fs.map(|h: f64| if backward { -h } else { h });
                        let r = run(&pr, &c);
                        rep.evaluations += 1;
                        rep.transitions += r.st.n_ode;
                        let key = format!("stiffdense:{}:{}:{}:{}:{}", mname(m), backward as u8, li, ti, fs.is_some() as u8);
                        let s = match r.sol() {
                            Some(s) if s.status == Status::Success => s,
                            _ => {
                                rep.machinery_errors.push(format!("stiff dense scene {}: run ended with {}", key, r.outcome_name()));
                                continue;
                            }
                        };
                        let errof = |t: f64, v: &[f64]| (v[0] - t.cos()).abs();
                        let worst_end = s.t.iter().zip(&s.y).fold(0.0f64, |a, (t, y)| a.max(errof(*t, y)));
                        let mut worst_in: (f64, f64) = (0.0, 0.0);
                        for k in 0..s.t.len() - 1 {
                            for th in [0.1, 0.25, 0.5, 0.75, 0.9] {
                                let t = s.t[k] + th * (s.t[k + 1] - s.t[k]);
                                let e = s.sol(t).map(|v| errof(t, &v)).unwrap_or(f64::INFINITY);
                                if e > worst_in.0 {
                                    worst_in = (e, t);
                                }
                            }
                        }
                        rep.validated += 1;
                        if s.nrejct > 0 {
                            *rep.tags.entry("stiff-dense-with-rejections".into()).or_insert(0) += 1;
                        }
                        if std::env::var("VERIF_DEBUG").is_ok() {
                            println!("DBG stiffdense {} end={:e} in={:e} nrejct={}", key, worst_end, worst_in.0, s.nrejct);
                        }
                        if worst_end < 1e-3 && worst_in.0 > (500.0 * worst_end).max(2e-2) {
                            rep.violations.push(
                                Violation::new(&key, "stiff-dense", format!("{}{} on {} (rtol {:e}, first_step {:?}): sol({:e}) is off by {:e} while every step end is within {:e}", mname(m), if backward { " backward" } else { "" }, pr.name, tl, fs, worst_in.1, worst_in.0, worst_end), json!({"key": key}))
                                    .with("method", mname(m)),
                            );
                        }
                    }
                }
            }
        }
    }
    // sol(t) / sol_many / t_eval through solve_ivp are as trustworthy as the endpoints (both directions)
    // the last one is dissipative (y' = -20 (y - g) + g', y = g): its endpoint errors stay at the level of
    // the local error, so that a loss of one order inside the steps is not hidden by accumulated error
    let gfun = |t: f64| (2.0 * t).sin() + 0.5 * t.cos();
    let dgfun = |t: f64| 2.0 * (2.0 * t).cos() - 0.5 * t.sin();
    let tracking = Prob {
        name: "tracking y'=-20(y-g)+g'".into(),
        n: 1,
        f: std::sync::Arc::new(move |t, y, d| d[0] = -20.0 * (y[0] - gfun(t)) + dgfun(t)),
        jac: Some(std::sync::Arc::new(|_t, _y| vec![-20.0])),
        flow: Some(std::sync::Arc::new(move |s0, y0, s1| vec![gfun(s1) + (y0[0] - gfun(s0)) * (-20.0 * (s1 - s0)).exp()])),
        y0: vec![gfun(0.0)],
        linear_homogeneous: false,
    };
    let mut sprobs: Vec<(Prob, f64)> = vec![(base(Base::Harmonic(1.3)), 3.0), (warp(&base(Base::Logistic(2.0)), Warp::Sin), 2.5), (warp(&base(Base::Harmonic(1.0)), Warp::Quad), 2.0), (tracking, 10.0)];
    // the same oscillator in units of 1e-7 (span 3e-7, steps far below 1e-6): nothing in the lookup of the step that
    // contains t may be an absolute time
    sprobs.push((crate::problems::timescale(&base(Base::Harmonic(1.3)), 1e7), 3e-7));
    if crate::report::is_thorough() {
        sprobs.push((base(Base::Spiral(0.3, 2.0)), 3.0));
        sprobs.push((base(Base::Lin3), 2.0));
        sprobs.push((warp(&base(Base::Riccati), Warp::Sin), 1.0));
    }
    let stols: Vec<f64> = if crate::report::is_thorough() { vec![1e-7, 1e-10, 1e-5, 1e-9] } else { vec![1e-7, 1e-10] };
    for m in crate::run::M6 {
        for backward in [false, true] {
            for (pi, (p0, span)) in sprobs.iter().enumerate() {
              for (tli, tl) in stols.iter().enumerate() {
                let tl = *tl;
                let pr = if backward { reflect(p0) } else { p0.clone() };
                let xend = if backward { -*span } else { *span };
                let mut c = Cfg::new(m, 0.0, xend, &pr.y0).tol(tl, tl * 1e-2);
                c.dense = true;
                c.user_jac = true;
                if m == Method::RK4 {
                    c.first_step = Some(xend / 300.0);
                }
                let r = run(&pr, &c);
                rep.evaluations += 1;
                rep.transitions += r.st.n_ode;
                let s = match r.sol() {
                    Some(s) if s.status == Status::Success => s,
                    _ => {
                        rep.machinery_errors.push(format!("sol-vs-endpoints: {} on {} ended with {}", mname(m), pr.name, r.outcome_name()));
                        continue;
                    }
                };
                let errof = |t: f64, v: &[f64]| -> f64 {
                    let ex = pr.exact(0.0, &pr.y0, t).unwrap();
                    v.iter().zip(&ex).fold(0.0f64, |a, (u, w)| a.max((u - w).abs()))
                };
                let worst_end = s.t.iter().zip(&s.y).fold(0.0f64, |a, (t, y)| a.max(errof(*t, y)));
                // interior times, in the order the integration meets them
                let mut ts = vec![];
                for k in 0..s.t.len() - 1 {
                    for th in [0.25, 0.5, 0.75] {
                        ts.push(s.t[k] + th * (s.t[k + 1] - s.t[k]));
                    }
                }
                // BDF's interpolant is the polynomial the step itself is built on ("matches the accuracy of
                // the step": measured 1.00 on the clean tree, also for RK23); the Runge-Kutta interpolants
                // are of lower order than their steps (measured up to 39 for Radau, 35 for DOPRI5)
                let bound = if m == Method::BDF { 3.0 * worst_end + 5.0 * tl } else { 20.0 * worst_end + 50.0 * tl };
                let report = |api: &str, worst: f64, rep: &mut Report| {
                    if std::env::var("VERIF_DEBUG").is_ok() {
                        println!("DBG {} b={} p={} {} in={:e} end={:e} ratio={:.2}", mname(m), backward as u8, pi, api, worst, worst_end, worst / worst_end);
                    }
                    rep.validated += 1;
                    *rep.tags.entry("sol-vs-endpoints".into()).or_insert(0) += 1;
                    if !(worst <= bound) {
                        let key = format!("solinterior:{}:{}:{}:{}:{}", mname(m), backward as u8, pi, tli, api);
                        rep.violations.push(
                            Violation::new(&key, "sol-interior", format!("{}{} on {}: worst {} error inside steps {:e} vs worst endpoint error {:e}", mname(m), if backward { " backward" } else { "" }, pr.name, api, worst, worst_end), json!({"key": key}))
                                .with("method", mname(m))
                                .with("api", api)
                                .with("scene", format!("sprob{}", pi)),
                        );
                    }
                };
                // (1) sol(t), one by one
                let w1 = ts.iter().fold(0.0f64, |a, t| a.max(s.sol(*t).map(|v| errof(*t, &v)).unwrap_or(f64::INFINITY)));
                report("sol", w1, &mut rep);
                // (2) sol_many: along the integration, against it, interleaved
                let n_t = ts.len();
                let stride = (0..).map(|k| 2 * k + 7).find(|q| gcd(*q, n_t) == 1).unwrap();
                let orders: [(&str, Vec<usize>); 3] = [("sol_many(along)", (0..n_t).collect()), ("sol_many(against)", (0..n_t).rev().collect()), ("sol_many(interleaved)", (0..n_t).map(|i| (i * stride) % n_t).collect())];
                for (name, ord) in &orders {
                    let q: Vec<f64> = ord.iter().map(|&i| ts[i]).collect();
                    let w = match s.sol_many(&q) {
                        Ok(vs) => vs.iter().zip(&q).fold(0.0f64, |a, (v, t)| a.max(errof(*t, v))),
                        Err(_) => f64::INFINITY,
                    };
                    report(name, w, &mut rep);
                }
                // (3) the same times requested through t_eval
                let mut ct = c.clone();
                ct.t_eval = Some(ts.clone());
                ct.dense = false;
                let rt = run(&pr, &ct);
                rep.evaluations += 1;
                let w3 = match rt.sol() {
                    Some(st) if st.status == Status::Success && st.t.len() == ts.len() => st.t.iter().zip(&st.y).fold(0.0f64, |a, (t, y)| a.max(errof(*t, y))),
                    _ => f64::INFINITY,
                };
                report("t_eval", w3, &mut rep);
                // (3b) dense output next to a t_eval that ends well before xend: sol(t) over the whole span
                let mut cs = c.clone();
                cs.t_eval = Some(vec![0.2 * xend, 0.4 * xend]);
                let rs = run(&pr, &cs);
                rep.evaluations += 1;
                let w3b = match rs.sol() {
                    Some(st) if st.status == Status::Success && st.t.len() == 2 => ts.iter().fold(0.0f64, |a, t| a.max(st.sol(*t).map(|v| errof(*t, &v)).unwrap_or(f64::INFINITY))),
                    _ => f64::INFINITY,
                };
                report("sol(next to a short t_eval)", w3b, &mut rep);
                // (4) dense output of a run stopped by a terminal event inside a step: the truncated
                // last segment is as good as the others
                let mut ce = c.clone();
                ce.events = vec![crate::env::EventSpec::new(crate::env::EvKind::T(0.613 * xend)).term(1)];
                let re = run(&pr, &ce);
                rep.evaluations += 1;
                let w4 = match re.sol() {
                    Some(se) if se.status == Status::UserInterrupt && se.t.len() >= 2 => {
                        let mut w: f64 = 0.0;
                        for k in 0..se.t.len() - 1 {
                            for th in [0.25, 0.5, 0.75, 0.97] {
                                let t = se.t[k] + th * (se.t[k + 1] - se.t[k]);
                                w = w.max(se.sol(t).map(|v| errof(t, &v)).unwrap_or(f64::INFINITY));
                            }
                        }
                        w
                    }
                    _ => f64::INFINITY,
                };
                report("sol(after terminal event)", w4, &mut rep);
              }
            }
        }
    }
    // long runs (2500 steps at a pinned max_step): whatever DOPRI5/DOP853 do only every 1000th accepted step
    // (their stiffness test) must leave that step's interpolant alone
    for m in [Method::DOPRI5, Method::DOP853, Method::RK23, Method::RADAU, Method::BDF] {
        for backward in [false, true] {
            let p0 = &sprobs[0].0;
            let pr = if backward { reflect(p0) } else { p0.clone() };
            let xend = if backward { -5.0 } else { 5.0 };
            let mut c = Cfg::new(m, 0.0, xend, &pr.y0).tol(1e-7, 1e-9);
            c.dense = true;
            c.user_jac = true;
            c.max_step = Some(5.0 / 2500.0);
            let r = run(&pr, &c);
            rep.evaluations += 1;
            rep.transitions += r.st.n_ode;
            let key = format!("longdense:{}:{}", mname(m), backward as u8);
            match r.sol() {
                Some(s) if s.status == Status::Success && s.naccpt >= 2400 => {
                    let errof = |t: f64, v: &[f64]| -> f64 {
                        let ex = pr.exact(0.0, &pr.y0, t).unwrap();
                        v.iter().zip(&ex).fold(0.0f64, |a, (u, w)| a.max((u - w).abs()))
                    };
                    let worst_end = s.t.iter().zip(&s.y).fold(0.0f64, |a, (t, y)| a.max(errof(*t, y)));
                    let mut worst: (f64, usize) = (0.0, 0);
                    for k in 0..s.t.len() - 1 {
                        for th in [0.3, 0.7] {
                            let t = s.t[k] + th * (s.t[k + 1] - s.t[k]);
                            let e = s.sol(t).map(|v| errof(t, &v)).unwrap_or(f64::INFINITY);
                            if e > worst.0 {
                                worst = (e, k);
                            }
                        }
                    }
                    rep.validated += 1;
                    *rep.tags.entry("long-dense-run".into()).or_insert(0) += 1;
                    if !(worst.0 <= 20.0 * worst_end + 50.0 * 1e-7) {
                        rep.violations.push(Violation::new(&key, "sol-interior", format!("{}{}: in a run of {} steps the worst sol(t) error inside a step is {:e} (step {}), the worst endpoint error {:e}", mname(m), if backward { " backward" } else { "" }, s.naccpt, worst.0, worst.1, worst_end), json!({"key": key})).with("method", mname(m)).with("api", "sol(long run)"));
                    }
                }
                _ => rep.machinery_errors.push(format!("long dense run: {} ended with {}", mname(m), r.outcome_name())),
            }
        }
    }
    // low-level API: the interpolant a callback obtains by asking for output inside the next step (XOut)
    // from a solver built with dense_output(false) is the same interpolant a dense_output(true) solver
    // hands out at every step (forward runs: XOut is a point ahead in the direction of increasing x)
    // (backward runs: the library only honours XOut for increasing x and hands out no interpolant otherwise; what
    // is demanded there is only that an interpolant, whenever one is handed out, is that step's own)
    for m in [Method::RK4, Method::RK23, Method::DOPRI5, Method::DOP853, Method::RADAU] {
      for backward in [false, true] {
        for (pi, (pf, spanf)) in sprobs.iter().enumerate() {
            let pb = reflect(pf);
            let p0 = if backward { &pb } else { pf };
            let sp = if backward { -*spanf } else { *spanf };
            let span = &sp;
            let mut c = Cfg::new(m, 0.0, *span, &p0.y0).tol(1e-6, 1e-8);
            c.user_jac = true;
            if m == Method::RK4 {
                c.first_step = Some(span / 57.3);
            }
            let thetas = [0.1, 0.5, 0.9];
            let a = run_lowlevel(p0, &c, &[], &thetas, None, false);
            let mut cb = c.clone();
            cb.low_dense = Some(false);
          // the requested output point: far behind (always passed), or exactly the end of the next step
          for variant in 0..2usize {
            let script: Vec<(usize, Ans)> = (0..a.recs.len() + 2)
                .map(|k| (k, Ans::XOut(if variant == 0 { if backward { 1.0 } else { -1.0 } } else { a.recs.get(k + 1).map(|q| q.x).unwrap_or(*span) })))
                .collect();
            let b = run_lowlevel(p0, &cb, &script, &thetas, None, false);
            rep.evaluations += 2;
            rep.transitions += a.st.n_ode + b.st.n_ode;
            let key = format!("xout:{}:{}:{}:{}", mname(m), pi, variant, backward as u8);
            let mut bad: Option<String> = None;
            if a.ok().is_none() || b.ok().is_none() || a.recs.len() != b.recs.len() || a.recs.len() < 3 {
                bad = Some(format!("runs ended with {} ({} callbacks) / {} ({} callbacks)", a.outcome_name(), a.recs.len(), b.outcome_name(), b.recs.len()));
            } else {
                for j in 1..a.recs.len() {
                    let (ra, rb) = (&a.recs[j], &b.recs[j]);
                    if ra.x.to_bits() != rb.x.to_bits() || ra.y.iter().zip(&rb.y).any(|(u, v)| u.to_bits() != v.to_bits()) {
                        bad = Some(format!("step {}: the accepted steps differ between dense_output(true) and dense_output(false)+XOut", j));
                        break;
                    }
                    if !rb.has_interp {
                        if backward {
                            continue;
                        }
                        bad = Some(format!("step {}: no interpolant although output inside the step was requested through XOut", j));
                        break;
                    }
                    if backward {
                        *rep.tags.entry("xout-backward-interpolant".into()).or_insert(0) += 1;
                    }
                    let (ia, ib) = (&a.interior[j], &b.interior[j]);
                    if ia.len() != ib.len() || ia.iter().zip(ib).any(|(u, v)| u.1.iter().zip(&v.1).any(|(x, y)| x.to_bits() != y.to_bits())) {
                        bad = Some(format!("step {} [{:e},{:e}]: interpolant values at theta = {:?} differ: {:?} (dense_output on) vs {:?} (off, XOut)", j, ra.xold, ra.x, thetas, ia.iter().map(|q| q.1.clone()).collect::<Vec<_>>(), ib.iter().map(|q| q.1.clone()).collect::<Vec<_>>()));
                        break;
                    }
                    rep.validated += 1;
                }
            }
            *rep.tags.entry("xout-vs-dense".into()).or_insert(0) += 1;
            if let Some(msg) = bad {
                rep.violations.push(Violation::new(&key, "xout-interpolant", format!("{} on {} (output requested {}): {}", mname(m), p0.name, if variant == 0 { "at a point already passed" } else { "exactly at the end of the next step" }, msg), json!({"key": key})).with("method", mname(m)));
            }
          }
        }
      }
    }
    // far from the time origin the doubles inside a step can be enumerated: a hundred steps of twenty-four ulps each from
    // 1.7e12 (and the mirror image); the dense output on EVERY representable time of the run against the exact solution
    // (the step ends are accurate to 1e-10 there; an interpolant that loses the abscissa's digits is off by 1e-6)
    for m in [Method::RK4, Method::RK23, Method::DOPRI5, Method::DOP853, Method::RADAU] {
        for backward in [false, true] {
            let key = format!("every-double:{}:{}", mname(m), backward as u8);
            let dirn = if backward { -1.0 } else { 1.0 };
            let p0 = base(Base::Harmonic(1.0));
            let p = if backward { reflect(&p0) } else { p0 };
            let o: f64 = 1.7e12;
            let ulp = f64::from_bits(o.to_bits() + 1) - o;
            let h = 24.0 * ulp;
            let (x0, xend) = (dirn * o, dirn * (o + 100.0 * h));
            let mut c = Cfg::new(m, x0, xend, &p.y0).tol(1e-6, 1e-8);
            c.first_step = Some(dirn * h);
            if m != Method::RK4 {
                c.max_step = Some(h);
            }
            c.user_jac = true;
            c.dense = true;
            let r = run(&p, &c);
            rep.evaluations += 1;
            rep.transitions += r.st.n_ode;
            let mut bad: Option<String> = None;
            match r.sol() {
                Some(s) if s.status == Status::Success => {
                    let end_err = s.t.iter().zip(&s.y).fold(0.0f64, |a, (t, y)| {
                        let ex = p.exact(x0, &p.y0, *t).unwrap();
                        y.iter().zip(&ex).fold(a, |b, (u, v)| b.max((u - v).abs()))
                    });
                    let mut worst = (0.0f64, 0.0f64);
                    let mut n = 0u64;
                    let mut t = x0;
                    while (xend - t) * dirn >= 0.0 {
                        if let Ok(y) = s.sol(t) {
                            let ex = p.exact(x0, &p.y0, t).unwrap();
                            let e = y.iter().zip(&ex).fold(0.0f64, |b, (u, v)| b.max((u - v).abs()));
                            if e > worst.0 {
                                worst = (e, t);
                            }
                            n += 1;
                        } else {
                            bad = Some(format!("sol({:?}) is an error inside the interval", t));
                            break;
                        }
                        t += dirn * ulp;
                    }
                    rep.validated += n;
                    if bad.is_none() && worst.0 > 10.0 * end_err + 1e-8 {
                        bad = Some(format!("sol({:?}) is off by {:e}; the step ends are accurate to {:e} ({} times evaluated)", worst.1, worst.0, end_err, n));
                    }
                    *rep.tags.entry("every-double".into()).or_insert(0) += 1;
                }
                _ => bad = Some(format!("the run ended with {}", r.outcome_name())),
            }
            if let Some(msg) = bad {
                rep.violations.push(Violation::new(&key, "sol-interior", format!("{} on the oscillator from {:e} in steps of twenty-four ulps: {}", mname(m), x0, msg), json!({"key": key})).with("method", mname(m)).with("api", "sol").with("scene", "every-double"));
            }
        }
    }
    if let Some(case) = replay {
        if let Some(name) = case["regression"].as_str() {
            return regress::replay(name).unwrap_or(2);
        }
        let key = case["key"].as_str().unwrap_or("").to_string();
        let hits: Vec<_> = rep.violations.iter().filter(|v| v.key == key).collect();
        for v in &hits {
            println!("replay: VIOLATED [{}]: {}", v.sig["check"], v.msg);
        }
        if hits.is_empty() {
            println!("replay: property holds on this case");
        }
        return if hits.is_empty() { 0 } else { 1 };
    }
    rep.violations.extend(regress::violations_for("C07"));
    rep.samples = samples;
    rep.dims = json!({"methods": RK_METHODS.iter().map(|m| mname(*m)).collect::<Vec<_>>(), "theta_nodes": crate::tableau::theta_nodes(), "h_signs": [1, -1],
        "dense_orders": {"RK4": 3, "RK23": 3, "RADAU": 3, "DOPRI5": 4, "DOP853": 7}, "trees_up_to_order": 7,
        "observed": "4 problems x both directions x h=2^-1..2^-8 x theta=0.1..0.9; BDF: 4 problems x 2 directions x 3 tolerances"});
    for t in ["dense-conditions", "interior-order-ladder", "bdf-interior", "sol-vs-endpoints"] {
        rep.require(t, 4);
    }
    rep.states_override = Some((forest.trees.len() * 9 * RK_METHODS.len()) as u64);
    rep.rule = "dense weights b_j(theta) are read off the real interpolant after answering the j-th RHS call with e_j; the dense order condition of EVERY rooted tree of order <= q is evaluated at 9 theta nodes (a polynomial identity of degree <= 7 in theta is decided by 8 nodes) with tolerance 1e-12*scale; interior error ladders on single steps and BDF whole-run comparisons corroborate; distinct = distinct (method, tree, theta, sign)".into();
    rep.finish()
}
