//! One `solve_ivp` execution under the instrumented environment.

use crate::env::{AnswerFn, EventSpec, Probe, ProbeState};
use crate::problems::Prob;
use crate::util::{guarded, jf, jfs};
use ivp::matrix::{Matrix, MatrixStorage};
use ivp::methods::Tolerance;
use ivp::prelude::*;
use serde_json::{json, Value};

pub const M6: [Method; 6] = [Method::RK4, Method::RK23, Method::DOPRI5, Method::DOP853, Method::RADAU, Method::BDF];
pub const M5: [Method; 5] = [Method::RK23, Method::DOPRI5, Method::DOP853, Method::RADAU, Method::BDF];
pub const MI: [Method; 2] = [Method::RADAU, Method::BDF];
pub const ME: [Method; 3] = [Method::RK23, Method::DOPRI5, Method::DOP853];

pub fn mname(m: Method) -> &'static str {
    match m {
        Method::RK4 => "RK4",
        Method::RK23 => "RK23",
        Method::DOPRI5 => "DOPRI5",
        Method::DOP853 => "DOP853",
        Method::RADAU => "RADAU",
        Method::BDF => "BDF",
    }
}
pub fn is_implicit(m: Method) -> bool {
    matches!(m, Method::RADAU | Method::BDF)
}

#[derive(Clone, Debug)]
pub enum Tol {
    S(f64),
    V(Vec<f64>),
}
impl Tol {
    pub fn to(&self) -> Tolerance {
        match self {
            Tol::S(v) => Tolerance::Scalar(*v),
            Tol::V(v) => Tolerance::Vector(v.clone()),
        }
    }
    pub fn at(&self, i: usize) -> f64 {
        match self {
            Tol::S(v) => *v,
            Tol::V(v) => v[i],
        }
    }
    pub fn json(&self) -> Value {
        match self {
            Tol::S(v) => json!(format!("{:e}", v)),
            Tol::V(v) => jfs(v),
        }
    }
}

#[derive(Clone, Debug)]
pub struct Cfg {
    pub method: Method,
    pub x0: f64,
    pub xend: f64,
    pub y0: Vec<f64>,
    pub rtol: Tol,
    pub atol: Tol,
    pub first_step: Option<f64>,
    pub max_step: Option<f64>,
    pub min_step: Option<f64>,
    pub max_steps: Option<usize>,
    pub t_eval: Option<Vec<f64>>,
    pub dense: bool,
    pub events: Vec<EventSpec>,
    pub user_jac: bool,
    pub jac_storage: MatrixStorage,
    pub mass_storage: MatrixStorage,
    pub budget: u64,
    pub keep_log: bool,
    /// low-level Radau/BDF only: builder option newton_tol
    pub newton_tol: Option<f64>,
    /// dense_output flag of the low-level builders (None = their documented default, true)
    pub low_dense: Option<bool>,
    /// leave rtol / atol at the Options builder's own defaults (SciPy's 1e-3 / 1e-6)
    pub default_rtol: bool,
    pub default_atol: bool,
    /// low-level Radau only: the classical step size controller (builder option predictive(false))
    pub radau_classical: bool,
    /// low-level DOPRI5 / DOP853 only: builder option stiff_test (None = default, every 1000th step)
    pub stiff_test: Option<usize>,
    /// low-level DOPRI5 / DOP853 only: builder option beta (None = default)
    pub beta: Option<f64>,
    /// low-level Radau only: builder option newton_maxiter (None = default, 7)
    pub newton_maxiter: Option<usize>,
    /// the analytic Jacobian writes only its non-zero entries
    pub jac_nonzeros_only: bool,
}

impl Cfg {
    pub fn new(method: Method, x0: f64, xend: f64, y0: &[f64]) -> Self {
        Cfg {
            method,
            x0,
            xend,
            y0: y0.to_vec(),
            rtol: Tol::S(1e-6),
            atol: Tol::S(1e-8),
            first_step: None,
            max_step: None,
            min_step: None,
            max_steps: None,
            t_eval: None,
            dense: false,
            events: vec![],
            user_jac: false,
            jac_storage: MatrixStorage::Full,
            mass_storage: MatrixStorage::Identity,
            budget: 2_000_000,
            keep_log: false,
            newton_tol: None,
            low_dense: None,
            default_rtol: false,
            default_atol: false,
            radau_classical: false,
            stiff_test: None,
            beta: None,
            newton_maxiter: None,
            jac_nonzeros_only: false,
        }
    }
    pub fn tol(mut self, rtol: f64, atol: f64) -> Self {
        self.rtol = Tol::S(rtol);
        self.atol = Tol::S(atol);
        self
    }
    pub fn json(&self, prob: &str) -> Value {
        json!({
            "problem": prob,
            "method": mname(self.method),
            "x0": jf(self.x0), "xend": jf(self.xend), "y0": jfs(&self.y0),
            "rtol": self.rtol.json(), "atol": self.atol.json(),
            "first_step": self.first_step.map(jf), "max_step": self.max_step.map(jf),
            "min_step": self.min_step.map(jf), "max_steps": self.max_steps,
            "t_eval": self.t_eval.as_ref().map(|v| v.iter().map(|&x| jf(x)).collect::<Vec<_>>()),
            "dense_output": self.dense,
            "events": self.events.iter().map(|e| e.describe()).collect::<Vec<_>>(),
            "user_jac": self.user_jac,
            "jac_storage": format!("{:?}", self.jac_storage),
            "mass_storage": format!("{:?}", self.mass_storage),
        })
    }
    pub fn options(&self) -> Options {
        Options::builder()
            .method(self.method)
            .maybe_rtol(if self.default_rtol { None } else { Some(self.rtol.to()) })
            .maybe_atol(if self.default_atol { None } else { Some(self.atol.to()) })
            .maybe_max_steps(self.max_steps)
            .maybe_t_eval(self.t_eval.clone())
            .maybe_first_step(self.first_step)
            .maybe_max_step(self.max_step)
            .maybe_min_step(self.min_step)
            .dense_output(self.dense)
            .jac_storage(self.jac_storage.clone())
            .mass_storage(self.mass_storage.clone())
            .build()
    }
}

pub enum Outcome {
    Ok(Solution),
    Err(String),
    Panic(String),
    Budget,
}

pub struct Run {
    pub out: Outcome,
    pub st: ProbeState,
}

impl Run {
    pub fn sol(&self) -> Option<&Solution> {
        match &self.out {
            Outcome::Ok(s) => Some(s),
            _ => None,
        }
    }
    pub fn outcome_name(&self) -> String {
        match &self.out {
            Outcome::Ok(s) => format!("{:?}", s.status),
            Outcome::Err(e) => format!("Err({})", e),
            Outcome::Panic(p) => format!("PANIC({})", p),
            Outcome::Budget => "BUDGET".into(),
        }
    }
}

pub fn run(p: &Prob, c: &Cfg) -> Run {
    run_with(p, c, None, None)
}

pub fn run_with(p: &Prob, c: &Cfg, answer: Option<AnswerFn<'_>>, mass: Option<&dyn Fn(&mut Matrix)>) -> Run {
    run_with2(p, c, answer, None, mass)
}

pub fn run_with2(p: &Prob, c: &Cfg, answer: Option<AnswerFn<'_>>, answer_in_jac: Option<AnswerFn<'_>>, mass: Option<&dyn Fn(&mut Matrix)>) -> Run {
    let f = p.rhs();
    let jacf = |t: f64, y: &[f64], j: &mut Matrix| if c.jac_nonzeros_only { p.write_jac_nonzeros(t, y, j) } else { p.write_jac(t, y, j) };
    let mut probe = Probe::new(&f);
    if c.user_jac {
        probe.jacf = Some(&jacf);
    }
    probe.massf = mass;
    probe.events = c.events.clone();
    probe.answer = answer;
    probe.answer_in_jac = answer_in_jac;
    probe.budget = c.budget;
    probe.keep_log = c.keep_log;
    let opts = c.options();
    let r = guarded(|| solve_ivp(&probe, c.x0, c.xend, &c.y0, opts));
    let st = probe.state();
    let out = match r {
        Ok(Ok(s)) => Outcome::Ok(s),
        Ok(Err(e)) => Outcome::Err(format!("{:?}", e)),
        Err(msg) => {
            if st.budget_hit {
                Outcome::Budget
            } else {
                Outcome::Panic(msg)
            }
        }
    };
    Run { out, st }
}

// ---------------------------------------------------------------------------------------------
// low-level solver run with a recording / scripted SolOut

use crate::env::{Ans, ProbeSolOut, StepRec};
use ivp::methods::{IntegrationResult, BDF, DOP853, DOPRI5, RADAU, RK23, RK4};

pub struct LowRun {
    pub res: Result<Result<IntegrationResult, String>, String>,
    pub recs: Vec<StepRec>,
    pub interior: Vec<Vec<(f64, Vec<f64>)>>,
    pub st: ProbeState,
}

impl LowRun {
    pub fn ok(&self) -> Option<&IntegrationResult> {
        match &self.res {
            Ok(Ok(r)) => Some(r),
            _ => None,
        }
    }
    pub fn outcome_name(&self) -> String {
        match &self.res {
            Ok(Ok(r)) => format!("{:?}", r.status),
            Ok(Err(e)) => format!("Err({})", e),
            Err(p) => format!("PANIC({})", p),
        }
    }
}

/// Runs the low-level solver of `c.method` with its builder defaults except for the options set
/// in `c` (first_step, max_step, max_steps, jac_storage; mass storage only when `set_mass_storage`).
pub fn run_lowlevel(
    p: &Prob,
    c: &Cfg,
    script: &[(usize, Ans)],
    thetas: &[f64],
    answer: Option<AnswerFn<'_>>,
    set_mass_storage: bool,
) -> LowRun {
    let f = p.rhs();
    let jacf = |t: f64, y: &[f64], j: &mut Matrix| if c.jac_nonzeros_only { p.write_jac_nonzeros(t, y, j) } else { p.write_jac(t, y, j) };
    let mut probe = Probe::new(&f);
    if c.user_jac {
        probe.jacf = Some(&jacf);
    }
    probe.events = vec![];
    probe.answer = answer;
    probe.budget = c.budget;
    probe.keep_log = c.keep_log;
    let mut so = ProbeSolOut::new(&probe);
    so.script = script.to_vec();
    so.thetas = thetas.to_vec();
    let (rtol, atol) = (c.rtol.to(), c.atol.to());
    let res = guarded(|| match c.method {
        Method::RK4 => {
            let h = c.first_step.unwrap_or((c.xend - c.x0) / 100.0);
            let s = match c.max_steps {
                Some(m) => RK4::builder().maybe_dense_output(c.low_dense).max_steps(m).build(),
                None => RK4::builder().maybe_dense_output(c.low_dense).build(),
            };
            s.solve(&probe, c.x0, &c.y0, c.xend, h, Some(&mut so))
        }
        Method::RK23 => {
            let b = RK23::builder().maybe_dense_output(c.low_dense).maybe_max_step(c.max_step).maybe_first_step(c.first_step);
            let s = match c.max_steps {
                Some(m) => b.max_steps(m).build(),
                None => b.build(),
            };
            s.solve(&probe, c.x0, &c.y0, c.xend, rtol, atol, Some(&mut so))
        }
        Method::DOPRI5 => {
            let b = DOPRI5::builder().maybe_dense_output(c.low_dense).maybe_max_step(c.max_step).maybe_first_step(c.first_step).maybe_stiff_test(c.stiff_test).maybe_beta(c.beta);
            let s = match c.max_steps {
                Some(m) => b.max_steps(m).build(),
                None => b.build(),
            };
            s.solve(&probe, c.x0, &c.y0, c.xend, rtol, atol, Some(&mut so))
        }
        Method::DOP853 => {
            let b = DOP853::builder().maybe_dense_output(c.low_dense).maybe_max_step(c.max_step).maybe_first_step(c.first_step).maybe_stiff_test(c.stiff_test).maybe_beta(c.beta);
            let s = match c.max_steps {
                Some(m) => b.max_steps(m).build(),
                None => b.build(),
            };
            s.solve(&probe, c.x0, &c.y0, c.xend, rtol, atol, Some(&mut so))
        }
        Method::RADAU => {
            let b = RADAU::builder().maybe_dense_output(c.low_dense).maybe_max_step(c.max_step).maybe_first_step(c.first_step).jac_storage(c.jac_storage.clone()).maybe_newton_tol(c.newton_tol).predictive(!c.radau_classical).maybe_newton_maxiter(c.newton_maxiter);
            let s = match (c.max_steps, set_mass_storage) {
                (Some(m), true) => b.max_steps(m).mass_storage(c.mass_storage.clone()).build(),
                (Some(m), false) => b.max_steps(m).build(),
                (None, true) => b.mass_storage(c.mass_storage.clone()).build(),
                (None, false) => b.build(),
            };
            s.solve(&probe, c.x0, &c.y0, c.xend, rtol, atol, Some(&mut so))
        }
        Method::BDF => {
            let b = BDF::builder().maybe_max_step(c.max_step).maybe_first_step(c.first_step).jac_storage(c.jac_storage.clone());
            let s = match c.max_steps {
                Some(m) => b.max_steps(m).build(),
                None => b.build(),
            };
            s.solve(&probe, c.x0, &c.y0, c.xend, rtol, atol, Some(&mut so))
        }
    });
    let recs = std::mem::take(&mut so.recs);
    let interior = std::mem::take(&mut so.interior);
    drop(so);
    let st = probe.state();
    let res = match res {
        Ok(Ok(r)) => Ok(Ok(r)),
        Ok(Err(e)) => Ok(Err(format!("{:?}", e))),
        Err(p) => Err(p),
    };
    LowRun { res, recs, interior, st }
}
