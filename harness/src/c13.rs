//! C13 — equivalent problems get equivalent answers (exact symmetries).

use crate::env::{EvKind, EventSpec};
use crate::explore::{describe, dim, lattice};
use crate::problems::{base, copies, reflect, warp, Base, Prob, Warp};
use crate::regress;
use crate::report::{is_thorough, CaseOut, Report, Violation};
use crate::run::{is_implicit, mname, run, Cfg, Tol, M6};
use ivp::prelude::*;
use std::sync::Arc;
use serde_json::{json, Value};

fn bits_eq(a: &[f64], b: &[f64]) -> bool {
    a.len() == b.len() && a.iter().zip(b).all(|(x, y)| x.to_bits() == y.to_bits())
}

fn problems() -> Vec<Prob> {
    // the last one is stiff for the explicit methods (stability-limited steps, the stiffness test of
    // DOPRI5/DOP853 fires): every status must mirror too
    vec![base(Base::Harmonic(1.5)), warp(&base(Base::Logistic(2.0)), Warp::Sin), base(Base::Lin3), base(Base::Spiral(0.3, 2.0)), base(Base::Rational), base(Base::Decay(-2000.0))]
}
fn linear_problems() -> Vec<Prob> {
    vec![base(Base::Decay(-1.0)), base(Base::Harmonic(1.5)), base(Base::Lin3), base(Base::Spiral(0.3, 2.0))]
}

pub fn run_check(replay: Option<Value>) -> i32 {
    let mut rep = Report::new("C13", "model_checking");
    let only = replay.as_ref().and_then(|c| c["key"].as_str().map(|s| s.to_string()));
    let thorough = is_thorough();
    let tols: Vec<f64> = if thorough { vec![1e-2, 1e-3, 1e-4, 1e-5, 1e-6, 1e-7, 1e-8, 1e-9, 1e-10] } else { vec![1e-3, 1e-6, 1e-9] };
    let spans: Vec<f64> = if thorough { vec![1.0, 4.0, 0.3, 9.0] } else { vec![1.0, 4.0] };
    let stats = |s: &Solution| (s.nfev, s.njev, s.nlu, s.nstep, s.naccpt, s.nrejct);

    // (a) time reflection
    let probs = problems();
    let dims = vec![
        dim("method", &M6.iter().map(|m| mname(*m)).collect::<Vec<_>>()),
        dim("problem", &probs.iter().map(|p| p.name.clone()).collect::<Vec<_>>()),
        dim("tol", &tols),
        dim("span", &spans),
        dim("jacobian", &["user", "finite-difference"]),
        dim("events", &["none", "three event functions", "two roots 1e-6*span apart, the second terminal", "two roots 1e-6*span apart, the first terminal"]),
        dim("first_step", &["auto", "given", "given, half the span (rejected at once: the first output stays pending)", "given and larger than the max_step given with it", "auto under a max_step"]),
    ];
    lattice(&mut rep, "reflect", &dims, only.as_deref(), |key, idx| {
        let m = M6[idx[0]];
        let p = &probs[idx[1]];
        if idx[4] == 1 && !is_implicit(m) {
            return None;
        }
        if idx[1] == 5 && m == Method::RK4 {
            return None; // the fixed default step is unstable there: nothing to compare but overflow
        }
        let span = spans[idx[3]];
        let x0 = 0.25;
        let mut c = Cfg::new(m, x0, x0 + span, &p.y0).tol(tols[idx[2]], tols[idx[2]] * 1e-2);
        c.user_jac = idx[4] == 0;
        if idx[6] == 1 {
            c.first_step = Some(span / 50.0);
        }
        if idx[6] == 2 {
            if m == Method::RK4 {
                return None;
            }
            c.first_step = Some(span / 2.0);
        }
        if idx[6] >= 3 {
            if m == Method::RK4 || idx[5] >= 2 {
                return None;
            }
            c.max_step = Some(span / 80.0);
            if idx[6] == 3 {
                c.first_step = Some(span / 20.0);
            }
        }
        if idx[5] == 1 {
            c.events = vec![EventSpec::new(EvKind::Y(0, 0.7 * p.y0[0])), EventSpec::new(EvKind::Cos(2.0)).dir(Direction::Positive), EventSpec::new(EvKind::T(x0 + 0.37 * span))];
        }
        // two event functions with roots in the same accepted step, one of them terminal: the
        // order in which the integration meets them decides what is reported
        let (c1, c2) = (x0 + 0.37 * span, x0 + (0.37 + 1e-6) * span);
        if idx[5] == 2 {
            c.events = vec![EventSpec::new(EvKind::T(c1)), EventSpec::new(EvKind::T(c2)).term(1)];
        } else if idx[5] == 3 {
            c.events = vec![EventSpec::new(EvKind::T(c2)), EventSpec::new(EvKind::T(c1)).term(1)];
        }
        let pr = reflect(p);
        let mut cr = c.clone();
        cr.x0 = -c.x0;
        cr.xend = -c.xend;
        cr.first_step = c.first_step.map(|h| -h);
        if idx[5] == 2 {
            cr.events = vec![EventSpec::new(EvKind::NegT(-c1)), EventSpec::new(EvKind::NegT(-c2)).term(1)];
        } else if idx[5] == 3 {
            cr.events = vec![EventSpec::new(EvKind::NegT(-c2)), EventSpec::new(EvKind::NegT(-c1)).term(1)];
        }
        if idx[5] == 1 {
            // mirrored event functions: g'(s, z) = g(-s, z); cos is even, t - c becomes -(s + c)
            cr.events = vec![EventSpec::new(EvKind::Y(0, 0.7 * p.y0[0])), EventSpec::new(EvKind::Cos(2.0)).dir(Direction::Positive), EventSpec::new(EvKind::NegT(-(x0 + 0.37 * span)))];
        }
        // (dense output on in both runs: it does not change the integration, and the continuous solutions must
        // be mirror images as well)
        c.dense = true;
        cr.dense = true;
        let (a, b) = (run(p, &c), run(&pr, &cr));
        let mut out = CaseOut::default();
        let desc = json!({"key": key, "point": describe(&dims, idx), "cfg": c.json(&p.name)});
        macro_rules! viol {
            ($c:expr, $m:expr) => {
                out.violations.push(Violation::new(key, $c, $m, desc.clone()).with("method", mname(m)).with("symmetry", "reflection"))
            };
        }
        out.events = a.st.n_ode + b.st.n_ode;
        match (a.sol(), b.sol()) {
            (Some(sa), Some(sb)) => {
                let tneg: Vec<f64> = sb.t.iter().map(|t| -t).collect();
                let exact_expected = !is_implicit(m) || idx[4] == 0;
                let mut same = bits_eq(&sa.t, &tneg) && sa.y.len() == sb.y.len() && sa.y.iter().zip(&sb.y).all(|(u, v)| bits_eq(u, v));
                if !same && idx[5] >= 2 && sa.t.len() == sb.t.len() && sa.t.len() >= 2 {
                    // the final sample is the located event point: mirrored within the root-finder's accuracy
                    let k = sa.t.len() - 1;
                    same = bits_eq(&sa.t[..k], &tneg[..k]) && sa.y[..k].iter().zip(&sb.y[..k]).all(|(u, v)| bits_eq(u, v)) && (sa.t[k] - tneg[k]).abs() <= 4e-11 * (1.0 + sa.t[k].abs());
                }
                if !same {
                    if exact_expected {
                        let k = sa.t.iter().zip(&tneg).position(|(u, v)| u.to_bits() != v.to_bits());
                        viol!("reflection-bitwise", format!("trajectories of the problem and of its time reflection differ ({} vs {} samples; first differing time index {:?}; stats {:?} vs {:?})", sa.t.len(), sb.t.len(), k, stats(sa), stats(sb)));
                    } else {
                        // rounding level with the finite-difference Jacobian
                        let ok = sa.t.len() == sb.t.len() && sa.t.iter().zip(&tneg).all(|(u, v)| (u - v).abs() <= 1e-6 * (1.0 + u.abs())) && sa.y.iter().zip(&sb.y).all(|(u, v)| u.iter().zip(v).all(|(x, y)| (x - y).abs() <= 1e-6 * (1.0 + x.abs())));
                        if !ok {
                            viol!("reflection-rounding", format!("trajectories differ beyond rounding level with the finite-difference Jacobian ({} vs {} samples)", sa.t.len(), sb.t.len()));
                        }
                    }
                } else {
                    out.tag("reflection-bitwise-equal");
                    // the continuous solutions: sol and sol_many between the samples, in integration order
                    if sa.t.len() >= 2 && sa.sol_span().is_some() && sb.sol_span().is_some() {
                        let ts: Vec<f64> = sa.t.windows(2).flat_map(|w| [w[0] + 0.3 * (w[1] - w[0]), w[0] + 0.8 * (w[1] - w[0])]).collect();
                        let tm: Vec<f64> = ts.iter().map(|t| -t).collect();
                        let close = |u: &[f64], v: &[f64]| if exact_expected { bits_eq(u, v) } else { u.iter().zip(v).all(|(x, y)| (x - y).abs() <= 1e-9 * (1.0 + x.abs())) };
                        match (sa.sol_many(&ts), sb.sol_many(&tm)) {
                            (Ok(va), Ok(vb)) => {
                                if let Some(k) = (0..ts.len()).find(|&k| !close(&va[k], &vb[k])) {
                                    viol!("reflection-dense", format!("sol_many({:e}) = {:?} but the reflected run gives {:?} at the mirrored time", ts[k], va[k], vb[k]));
                                }
                            }
                            (ra, rb) => viol!("reflection-dense", format!("sol_many between the samples: {:?} for the original run, {:?} for the reflected one", ra.as_ref().map(|v| v.len()), rb.as_ref().map(|v| v.len()))),
                        }
                        for k in [0, ts.len() / 2, ts.len() - 1] {
                            match (sa.sol(ts[k]), sb.sol(tm[k])) {
                                (Ok(u), Ok(v)) if close(&u, &v) => {}
                                (u, v) => viol!("reflection-dense", format!("sol({:e}) = {:?}, the reflected run at the mirrored time gives {:?}", ts[k], u, v)),
                            }
                        }
                        out.tag("dense-mirrored");
                    }
                }
                if sa.status != sb.status {
                    viol!("reflection-status", format!("status {:?} vs {:?}", sa.status, sb.status));
                }
                if idx[5] >= 1 {
                    for i in 0..sa.t_events.len() {
                        let (ea, eb) = (&sa.t_events[i], &sb.t_events[i]);
                        if ea.len() != eb.len() || ea.iter().zip(eb).any(|(u, v)| (u + v).abs() > 4e-11 * (1.0 + u.abs())) {
                            viol!("reflection-events", format!("event {}: times {:?} vs mirrored {:?}", i, ea, eb.iter().map(|t| -t).collect::<Vec<_>>()));
                        }
                    }
                    out.tag("events-mirrored");
                    if idx[5] >= 2 {
                        out.tag("terminal-pair-mirrored");
                        // the reference semantics of the pair itself (both runs)
                        for (s, sg) in [(sa, 1.0), (sb, -1.0)] {
                            if !matches!(s.status, Status::UserInterrupt | Status::Success) {
                                continue; // the run gave up before it reached the roots (mirrored status is judged above)
                            }
                            let want0 = idx[5] == 2; // the non-terminal root comes first in integration order
                            let got0 = s.t_events[0].len() == 1 && (sg * s.t_events[0][0] - if idx[5] == 2 { c1 } else { c2 }).abs() <= 4e-11 * (1.0 + c1.abs());
                            if s.status != Status::UserInterrupt || s.t_events[1].len() != 1 || (want0 != got0) || (!want0 && !s.t_events[0].is_empty()) {
                                viol!("reflection-terminal-pair", format!("{} run: status {:?}, t_events {:?}; the non-terminal root lies {} the terminal one", if sg > 0.0 { "original" } else { "reflected" }, s.status, s.t_events, if want0 { "before" } else { "after" }));
                            }
                        }
                    }
                }
                // the terminal pairs once more with requested times (21 of them over the span): what is reported
                // before the stop mirrors as well
                if idx[5] >= 2 && idx[6] <= 1 {
                    let (mut ct, mut crt) = (c.clone(), cr.clone());
                    ct.t_eval = Some((0..=20).map(|i| c.x0 + (c.xend - c.x0) * i as f64 / 20.0).collect());
                    crt.t_eval = Some((0..=20).map(|i| -(c.x0 + (c.xend - c.x0) * i as f64 / 20.0)).collect());
                    let (at, bt) = (run(p, &ct), run(&pr, &crt));
                    out.events += at.st.n_ode + bt.st.n_ode;
                    match (at.sol(), bt.sol()) {
                        (Some(ta), Some(tb)) => {
                            let tn: Vec<f64> = tb.t.iter().map(|t| -t).collect();
                            let k = ta.t.len().saturating_sub(1);
                            let ok = ta.status == tb.status
                                && ta.t.len() == tb.t.len()
                                && ta.t.len() >= 1
                                && bits_eq(&ta.t[..k], &tn[..k])
                                && (ta.t[k] - tn[k]).abs() <= 4e-11 * (1.0 + ta.t[k].abs())
                                && (!exact_expected || ta.y[..k].iter().zip(&tb.y[..k]).all(|(u, v)| bits_eq(u, v)));
                            if !ok {
                                viol!("reflection-t-eval", format!("with 21 requested times and a terminal pair: {} samples ending at {:?} (status {:?}), the reflected run {} samples ending at {:?} (status {:?})", ta.t.len(), ta.t.last(), ta.status, tb.t.len(), tn.last(), tb.status));
                            }
                            out.tag("terminal-pair-with-t-eval-mirrored");
                        }
                        _ => viol!("outcome", format!("runs with t_eval ended with {} / {}", at.outcome_name(), bt.outcome_name())),
                    }
                }
                out.validated = 2;
                out.fp = Some(a.st.fp.as_u128());
            }
            _ => viol!("outcome", format!("runs ended with {} / {}", a.outcome_name(), b.outcome_name())),
        }
        out.sample = Some(desc);
        Some(out)
    });

    // (b') the same scaling on long runs of a mildly stiff linear system with the explicit methods: more than a
    // thousand accepted steps, so that the stiffness detectors come into play (status and all samples must scale)
    let sdims = vec![dim("method", &["RK23", "DOPRI5", "DOP853"]), dim("rate", &[200.0, 400.0]), dim("direction", &["forward", "backward(reflected)"])];
    lattice(&mut rep, "scalestiff", &sdims, only.as_deref(), |key, idx| {
        let m = [Method::RK23, Method::DOPRI5, Method::DOP853][idx[0]];
        let l = [200.0, 400.0][idx[1]];
        let p0 = Prob {
            name: format!("oscillator with a relaxing follower, rate {}", l),
            n: 3,
            f: Arc::new(move |_t, y, d| {
                d[0] = y[1];
                d[1] = -y[0];
                d[2] = -l * (y[2] - y[0]);
            }),
            jac: None,
            flow: None,
            y0: vec![1.0, 0.0, 1.0],
            linear_homogeneous: true,
        };
        let backward = idx[2] == 1;
        let p = if backward { reflect(&p0) } else { p0 };
        let xend = if backward { -60.0 } else { 60.0 };
        let c = Cfg::new(m, 0.0, xend, &p.y0).tol(1e-3, 1e-6);
        let base_run = run(&p, &c);
        let mut out = CaseOut::default();
        let desc = json!({"key": key, "point": describe(&sdims, idx), "cfg": c.json(&p.name)});
        let sb = match base_run.sol() {
            Some(s) => s,
            None => {
                out.violations.push(Violation::new(key, "outcome", format!("base run ended with {}", base_run.outcome_name()), desc).with("method", mname(m)).with("symmetry", "scaling"));
                return Some(out);
            }
        };
        out.events = base_run.st.n_ode;
        if sb.naccpt > 1000 {
            out.tag("scaling-long-run");
        }
        if sb.status == Status::ProbablyStiff {
            out.tag("scaling-stiffness-detected");
        }
        for k in [-600i32, -500, -60, -20, -10, 10, 40, 500, 600] {
            let f = 2f64.powi(k);
            let mut cs = c.clone();
            cs.y0 = c.y0.iter().map(|v| v * f).collect();
            cs.atol = Tol::S(1e-6 * f);
            let r = run(&p, &cs);
            out.events += r.st.n_ode;
            match r.sol() {
                Some(s) => {
                    let same = s.status == sb.status && bits_eq(&s.t, &sb.t) && s.y.len() == sb.y.len() && s.y.iter().zip(&sb.y).all(|(u, v)| u.iter().zip(v).all(|(x, y)| x.to_bits() == (y * f).to_bits())) && stats(s) == stats(sb);
                    if !same {
                        out.violations.push(
                            Violation::new(key, "scaling-bitwise", format!("scaling state and atol by 2^{} changes the run: status {:?} vs {:?}, {} vs {} samples, last time {:?} vs {:?}, stats {:?} vs {:?}", k, s.status, sb.status, s.t.len(), sb.t.len(), s.t.last(), sb.t.last(), stats(s), stats(sb)), desc.clone())
                                .with("method", mname(m))
                                .with("symmetry", "scaling"),
                        );
                    }
                    out.validated += 1;
                }
                None => out.violations.push(Violation::new(key, "outcome", format!("scaled run ended with {}", r.outcome_name()), desc.clone()).with("method", mname(m)).with("symmetry", "scaling")),
            }
        }
        out.fp = Some(base_run.st.fp.as_u128() ^ 0x51);
        out.sample = Some(desc);
        Some(out)
    });

    // (a') the mildly stiff system with the implicit methods and the differenced Jacobian: a Jacobian that degrades
    // with the size of the state (increments below an ulp of it, overflowing squares) shows in the step count
    for (mi, m) in [Method::RADAU, Method::BDF].iter().enumerate() {
        for backward in [false, true] {
            let key = format!("scalestiff-fd:{}:{}", mi, backward as u8);
            if only.as_ref().map(|o| *o != key).unwrap_or(false) {
                continue;
            }
            let l = 200.0;
            let p0 = Prob {
                name: format!("oscillator with a relaxing follower, rate {}", l),
                n: 3,
                f: Arc::new(move |_t, y, d| {
                    d[0] = y[1];
                    d[1] = -y[0];
                    d[2] = -l * (y[2] - y[0]);
                }),
                jac: None,
                flow: None,
                y0: vec![1.0, 0.0, 1.0],
                linear_homogeneous: true,
            };
            // (forward only is stiff; the reflected problem run backward is the same computation mirrored)
            let p = if backward { reflect(&p0) } else { p0 };
            let xend = if backward { -6.0 } else { 6.0 };
            let c = Cfg::new(*m, 0.0, xend, &p.y0).tol(1e-4, 1e-7);
            let rb = run(&p, &c);
            rep.evaluations += 1;
            rep.transitions += rb.st.n_ode;
            let sb = match rb.sol().filter(|s| s.status == Status::Success) {
                Some(s) => s,
                None => {
                    rep.violations.push(Violation::new(&key, "outcome", format!("base run ended with {}", rb.outcome_name()), json!({"key": key})).with("method", mname(*m)).with("symmetry", "scaling"));
                    continue;
                }
            };
            for k in [-600i32, -60, 60, 200, 600] {
                let f = 2f64.powi(k);
                let mut cs = c.clone();
                cs.y0 = c.y0.iter().map(|v| v * f).collect();
                cs.atol = Tol::S(1e-7 * f);
                let r = run(&p, &cs);
                rep.evaluations += 1;
                rep.transitions += r.st.n_ode;
                rep.validated += 1;
                *rep.tags.entry("scaling-fd-stiff".into()).or_insert(0) += 1;
                let ok = match r.sol() {
                    Some(s) if s.status == Status::Success => {
                        let (na, nb) = (s.naccpt as f64, sb.naccpt as f64);
                        let dev = s.y.last().unwrap().iter().zip(sb.y.last().unwrap()).fold(0.0f64, |a, (u, v)| a.max((u / f - v).abs()));
                        (na - nb).abs() <= 0.15 * nb + 3.0 && dev <= 50.0 * 1e-4
                    }
                    _ => false,
                };
                if !ok {
                    rep.violations.push(
                        Violation::new(&key, "scaling-fd", format!("{} with the differenced Jacobian on the mildly stiff system scaled by 2^{}: {} with {} accepted steps, unscaled: Success with {}", mname(*m), k, r.outcome_name(), r.sol().map(|s| s.naccpt).unwrap_or(0), sb.naccpt), json!({"key": key}))
                            .with("method", mname(*m))
                            .with("symmetry", "scaling"),
                    );
                }
            }
        }
    }
    // (b) power-of-two scaling of state and atol on linear homogeneous systems, (c) scalar vs vector tolerance
    let lprobs = linear_problems();
    // (2^600 = 4e180: finite, but its square is not)
    let ks = [-600i32, -500, -200, -60, -20, -3, 1, 10, 40, 200, 500, 600];
    let dims_b = vec![
        dim("method", &M6.iter().map(|m| mname(*m)).collect::<Vec<_>>()),
        dim("problem", &lprobs.iter().map(|p| p.name.clone()).collect::<Vec<_>>()),
        dim("tol", &tols),
        dim("direction", &["forward", "backward(reflected)"]),
        dim("first_step", &["auto", "given"]),
    ];
    lattice(&mut rep, "scale", &dims_b, only.as_deref(), |key, idx| {
        let m = M6[idx[0]];
        let p0 = &lprobs[idx[1]];
        let backward = idx[3] == 1;
        let p = if backward { reflect(p0) } else { p0.clone() };
        let xend = if backward { -2.0 } else { 2.0 };
        let tol = tols[idx[2]];
        let mut c = Cfg::new(m, 0.0, xend, &p.y0).tol(tol, tol * 1e-2);
        c.user_jac = true;
        if idx[4] == 1 {
            c.first_step = Some(xend / 40.0);
        }
        let base_run = run(&p, &c);
        let mut out = CaseOut::default();
        let desc = json!({"key": key, "point": describe(&dims_b, idx), "cfg": c.json(&p.name)});
        macro_rules! viol {
            ($c:expr, $m:expr, $s:expr) => {
                out.violations.push(Violation::new(key, $c, $m, desc.clone()).with("method", mname(m)).with("symmetry", $s))
            };
        }
        let sb = match base_run.sol() {
            Some(s) if s.status == Status::Success => s,
            _ => {
                viol!("outcome", format!("base run ended with {}", base_run.outcome_name()), "scaling");
                return Some(out);
            }
        };
        out.events = base_run.st.n_ode;
        for k in ks {
            let f = 2f64.powi(k);
            let mut cs = c.clone();
            cs.y0 = c.y0.iter().map(|v| v * f).collect();
            cs.atol = Tol::S(tol * 1e-2 * f);
            let r = run(&p, &cs);
            out.events += r.st.n_ode;
            match r.sol() {
                Some(s) => {
                    let same = bits_eq(&s.t, &sb.t) && s.y.len() == sb.y.len() && s.y.iter().zip(&sb.y).all(|(u, v)| u.iter().zip(v).all(|(x, y)| x.to_bits() == (y * f).to_bits())) && stats(s) == stats(sb);
                    if !same {
                        viol!("scaling-bitwise", format!("scaling state and atol by 2^{} changes the trajectory ({} vs {} samples, stats {:?} vs {:?})", k, s.t.len(), sb.t.len(), stats(s), stats(sb)), "scaling");
                    }
                    out.validated += 1;
                }
                None => viol!("outcome", format!("scaled run ended with {}", r.outcome_name()), "scaling"),
            }
        }
        out.tag("scaling-checked");
        // (b') the same with the differenced default Jacobian (implicit methods): "to rounding" - the increments are
        // not scale-invariant, so the Jacobians differ in their last digits; the run must still be the scaled image up
        // to a few steps and a small multiple of the tolerance
        if crate::run::is_implicit(m) {
            let mut cf = c.clone();
            cf.user_jac = false;
            let rb = run(&p, &cf);
            out.events += rb.st.n_ode;
            if let Some(sbf) = rb.sol().filter(|s| s.status == Status::Success) {
                for k in [-600i32, -60, 60, 600] {
                    let f = 2f64.powi(k);
                    let mut cs = cf.clone();
                    cs.y0 = cf.y0.iter().map(|v| v * f).collect();
                    cs.atol = Tol::S(tol * 1e-2 * f);
                    let r = run(&p, &cs);
                    out.events += r.st.n_ode;
                    match r.sol() {
                        Some(s) if s.status == Status::Success => {
                            let (na, nb) = (s.naccpt as f64, sbf.naccpt as f64);
                            let (ya, yb) = (s.y.last().unwrap(), sbf.y.last().unwrap());
                            let scale = yb.iter().fold(0.0f64, |a, v| a.max(v.abs())).max(1e-300);
                            let dev = ya.iter().zip(yb).fold(0.0f64, |a, (u, v)| a.max((u / f - v).abs())) / scale;
                            if (na - nb).abs() > 0.15 * nb + 3.0 || dev > 50.0 * tol {
                                viol!("scaling-fd", format!("with the differenced Jacobian, scaling state and atol by 2^{} changes the run beyond rounding: {} vs {} accepted steps, final states differ by {:e} (relative to the state; tolerance {:e})", k, s.naccpt, sbf.naccpt, dev, tol), "scaling");
                            }
                            out.validated += 1;
                            out.tag("scaling-fd-checked");
                        }
                        _ => viol!("scaling-fd", format!("with the differenced Jacobian the run scaled by 2^{} ended with {} (unscaled: Success)", k, r.outcome_name()), "scaling"),
                    }
                }
            }
        }
        // (c) scalar tolerance written as a constant vector
        if p.n >= 2 {
            let mut cv = c.clone();
            cv.rtol = Tol::V(vec![tol; p.n]);
            cv.atol = Tol::V(vec![tol * 1e-2; p.n]);
            let r = run(&p, &cv);
            out.events += r.st.n_ode;
            match r.sol() {
                Some(s) => {
                    let same = bits_eq(&s.t, &sb.t) && s.y.iter().zip(&sb.y).all(|(u, v)| bits_eq(u, v)) && stats(s) == stats(sb);
                    if !same {
                        viol!("tolerance-vector-bitwise", format!("a constant vector tolerance gives a different trajectory than the scalar ({} vs {} samples, stats {:?} vs {:?})", s.t.len(), sb.t.len(), stats(s), stats(sb)), "tolerance-vector");
                    }
                    out.validated += 1;
                    out.tag("tolerance-vector-checked");
                }
                None => viol!("outcome", format!("vector-tolerance run ended with {}", r.outcome_name()), "tolerance-vector"),
            }
        }
        out.fp = Some(base_run.st.fp.as_u128());
        out.sample = Some(desc);
        Some(out)
    });

    // (d) m independent identical copies
    // the last entry is a placeholder: a relaxation started so close to its equilibrium that the scaled
    // initial derivative is 5e-6 (hinit's "nearly zero" guards decide the first step there); its initial
    // state depends on the tolerance and is built per lattice point
    let near_equilibrium = |tol: f64| Prob {
        name: "relaxation started at 1 + 5e-6 tolerance units".into(),
        n: 1,
        f: Arc::new(|_t, y, d| d[0] = -(y[0] - 1.0)),
        jac: Some(Arc::new(|_t, _y| vec![-1.0])),
        flow: Some(Arc::new(|s0, y0, s1| vec![1.0 + (y0[0] - 1.0) * (-(s1 - s0)).exp()])),
        y0: vec![1.0 + 5e-6 * tol * 1.01],
        linear_homogeneous: false,
    };
    let cprobs = vec![base(Base::Harmonic(1.5)), warp(&base(Base::Logistic(2.0)), Warp::Sin), base(Base::Spiral(0.3, 2.0)), base(Base::Riccati), near_equilibrium(1e-6)];
    let ms = [2usize, 3, 4, 8, 16];
    let dims_d = vec![
        dim("method", &M6.iter().map(|m| mname(*m)).collect::<Vec<_>>()),
        dim("problem", &cprobs.iter().map(|p| p.name.clone()).collect::<Vec<_>>()),
        dim("tol", &tols),
        dim("copies", &ms),
        dim("first_step", &["given", "auto", "given too large (first step rejected)"]),
        dim("jacobian", &["user", "finite-difference"]),
    ];
    lattice(&mut rep, "copies", &dims_d, only.as_deref(), |key, idx| {
        let m = M6[idx[0]];
        if idx[5] == 1 && !is_implicit(m) {
            return None;
        }
        let tol = tols[idx[2]];
        let pn;
        let p = if idx[1] == cprobs.len() - 1 {
            pn = near_equilibrium(tol);
            &pn
        } else {
            &cprobs[idx[1]]
        };
        let mc = ms[idx[3]];
        let mut c = Cfg::new(m, 0.0, 3.0, &p.y0).tol(tol, tol * 1e-2);
        c.user_jac = idx[5] == 0;
        if idx[4] == 0 {
            c.first_step = Some(3.0 / 60.0);
        }
        if idx[4] == 2 {
            if m == Method::RK4 {
                return None;
            }
            c.first_step = Some(1.5);
        }
        let pm = copies(p, mc);
        let mut cm = c.clone();
        cm.y0 = pm.y0.clone();
        // the accepted steps as seen by the low-level solver's callbacks (solve_ivp withholds
        // samples before x0 + first_step)
        let (l1, lm) = (crate::run::run_lowlevel(p, &c, &[], &[], None, false), crate::run::run_lowlevel(&pm, &cm, &[], &[], None, false));
        struct Grid {
            t: Vec<f64>,
            y: Vec<Vec<f64>>,
            naccpt: usize,
            nrejct: usize,
        }
        let grid = |l: &crate::run::LowRun| -> Option<Grid> {
            let ir = l.ok()?;
            if ir.status != Status::Success {
                return None;
            }
            Some(Grid { t: l.recs.iter().map(|q| q.x).collect(), y: l.recs.iter().map(|q| q.y.clone()).collect(), naccpt: ir.steps.accepted, nrejct: ir.steps.rejected })
        };
        let (r1, rm) = (grid(&l1), grid(&lm));
        let mut out = CaseOut::default();
        let desc = json!({"key": key, "point": describe(&dims_d, idx), "cfg": c.json(&p.name)});
        macro_rules! viol {
            ($c:expr, $m:expr) => {
                out.violations.push(Violation::new(key, $c, $m, desc.clone()).with("method", mname(m)).with("symmetry", "copies").with("first_step", ["given", "auto", "too-large"][idx[4]]))
            };
        }
        out.events = l1.st.n_ode + lm.st.n_ode;
        match (r1.as_ref(), rm.as_ref()) {
            (Some(s1), Some(sm)) => {
                let n = p.n;
                // inside the m-fold run every copy is bitwise equal to copy 0 (identical arithmetic)
                let mut inside = true;
                for y in &sm.y {
                    for k in 1..mc {
                        if !bits_eq(&y[0..n], &y[k * n..(k + 1) * n]) {
                            inside = false;
                        }
                    }
                }
                if !inside {
                    viol!("copies-differ-inside", "the copies inside one run are not bit-identical to each other".to_string());
                }
                // against the single system: the step sequence is unchanged up to rounding in the error
                // norm.  Rounding can flip a discrete decision of the controllers later in the run (an
                // extra Newton iteration, a kept step size), after which the sequences drift apart at
                // the per-cent level; a norm that depends on the number of components, however, already
                // shows in the first step-size decisions.  Hence: the first accepted steps must agree
                // to 1e-6, the rest to 1e-5 with equal counts (explicit methods); for Radau/BDF the counts within 3 %+2
                // and the final state at tolerance level.
                let early = 3.min(s1.t.len() - 1).min(sm.t.len() - 1);
                let mut early_ok = true;
                for i in 1..=early {
                    if (s1.t[i] - sm.t[i]).abs() > 1e-6 * (1.0 + s1.t[i].abs()) {
                        early_ok = false;
                    }
                    for d in 0..n {
                        if (s1.y[i][d] - sm.y[i][d]).abs() > 1e-6 * (1.0 + s1.y[i][d].abs()) {
                            early_ok = false;
                        }
                    }
                }
                if !early_ok {
                    viol!("copies-first-steps", format!("{} copies: the first accepted steps already differ from the single system: t = {:?} vs {:?}", mc, &sm.t[..=early], &s1.t[..=early]));
                }
                let implicit = is_implicit(m);
                let count_slack = if implicit { 2 + s1.naccpt * 3 / 100 } else { 0 };
                let dn = (s1.naccpt as i64 - sm.naccpt as i64).unsigned_abs() as usize;
                let dr = (s1.nrejct as i64 - sm.nrejct as i64).unsigned_abs() as usize;
                if dn > count_slack || dr > count_slack + if implicit { 2 } else { 0 } {
                    viol!("copies-step-sequence", format!("{} copies: (naccpt,nrejct) = ({},{}) vs ({},{}) for the single system", mc, sm.naccpt, sm.nrejct, s1.naccpt, s1.nrejct));
                } else if s1.t.len() == sm.t.len() {
                    let mut worst_t: f64 = 0.0;
                    let mut worst_y: f64 = 0.0;
                    for i in 0..s1.t.len() {
                        worst_t = worst_t.max((s1.t[i] - sm.t[i]).abs() / (1.0 + s1.t[i].abs()));
                        for d in 0..n {
                            worst_y = worst_y.max((s1.y[i][d] - sm.y[i][d]).abs() / (1.0 + s1.y[i][d].abs()));
                        }
                    }
                    // Radau/BDF: once a last-bit difference of the norm has flipped one discrete decision the
                    // two grids are simply two valid grids (measured: 0.6 % .. 2.5 % apart in t, no natural
                    // limit); what remains comparable is judged above (first steps, counts) and below (final state)
                    let lim = 1e-5;
                    if !implicit && (worst_t > lim || worst_y > lim) {
                        viol!("copies-trajectory", format!("{} copies: trajectories differ by {:e} in t and {:e} in y (relative)", mc, worst_t, worst_y));
                    }
                    if worst_t == 0.0 && worst_y == 0.0 {
                        out.tag("copies-bitwise-equal");
                    }
                }
                // the final states agree at tolerance level in any case
                let (y1l, yml) = (s1.y.last().unwrap(), sm.y.last().unwrap());
                let dfin = (0..n).map(|d| (y1l[d] - yml[d]).abs()).fold(0.0, f64::max);
                let ynorm = y1l.iter().fold(0.0f64, |a, v| a.max(v.abs()));
                if dfin > 50.0 * s1.naccpt.max(1) as f64 * (tol * 1e-2 + tol * ynorm) {
                    viol!("copies-final-state", format!("{} copies: final states differ by {:e}", mc, dfin));
                }
                out.validated = 2;
                out.tag("copies-checked");
                out.fp = Some(lm.st.fp.as_u128());
            }
            _ => viol!("outcome", format!("runs ended with {} / {}", l1.outcome_name(), lm.outcome_name())),
        }
        out.sample = Some(desc);
        Some(out)
    });
    if only.is_some() {
        for v in &rep.violations {
            println!("replay: VIOLATED [{}]: {}\n{}", v.sig["check"], v.msg, serde_json::to_string_pretty(&v.case).unwrap());
        }
        if rep.violations.is_empty() {
            println!("replay: property holds on this case");
        }
        return if rep.violations.is_empty() { 0 } else { 1 };
    }
    rep.violations.extend(regress::violations_for("C13"));
    for t in ["reflection-bitwise-equal", "events-mirrored", "scaling-checked", "tolerance-vector-checked", "copies-checked"] {
        rep.require(t, 20);
    }
    rep.require("scaling-long-run", 4);
    rep.require("scaling-stiffness-detected", 1);
    rep.rule = "symmetry generators applied to every lattice point: (a) time reflection z'=-f(-s,z) on [-x0,-xend]: bitwise for explicit methods and implicit ones with the user Jacobian, 1e-6 with the finite-difference Jacobian, events mirrored within 4e-11; (b) state and atol scaled by 2^k, k in {-600,-500,-200,-60,-20,-3,1,10,40,200,500,600}, on linear homogeneous systems: bitwise; (c) scalar tolerance as constant vector: bitwise; (d) m in {2,3,4,8,16} identical copies, first_step given and automatic: copies bitwise equal inside the run, same naccpt/nrejct and trajectories within 1e-5 of the single system; distinct = distinct RHS fingerprints".into();
    rep.assumptions.push("bitwise equality is only demanded where IEEE arithmetic makes the symmetry exact (negation, powers of two, identical operation sequences)".into());
    rep.finish()
}
