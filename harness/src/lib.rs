pub mod env;
pub mod problems;
pub mod report;
pub mod run;
pub mod util;

pub mod regress;

pub mod c17;
