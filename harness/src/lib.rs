pub mod env;
pub mod problems;
pub mod report;
pub mod run;
pub mod util;

pub mod c17;
