pub mod env;
pub mod events;
pub mod explore;
pub mod problems;
pub mod report;
pub mod run;
pub mod tableau;
pub mod twopass;
pub mod util;

pub mod regress;

pub mod c01;
pub mod c02;
pub mod c03;
pub mod c04;
pub mod c05;
pub mod c06;
pub mod c07;
pub mod c11;
pub mod c12;
pub mod c13;
pub mod c14;
pub mod c15;
pub mod c16;
pub mod c17;
pub mod c18;
pub mod c19;
