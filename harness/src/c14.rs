//! C14 — implicit methods stay stable and cheap on stiff problems.

use crate::explore::{describe, dim, lattice};
use crate::problems::{reflect, Prob};
use crate::report::{is_thorough, CaseOut, Report, Violation};
use crate::run::{mname, run, Cfg, Outcome, MI};
use crate::util::par_map;
use ivp::prelude::*;
use serde_json::{json, Value};
use std::sync::Arc;

const KS: [f64; 5] = [1e2, 1e4, 1e6, 1e8, 1e10];

/// Prothero–Robinson: y' = -k (y - cos t) - sin t, y(0) = 1, exact y = cos t
fn prothero_robinson(k: f64) -> Prob {
    Prob {
        name: format!("prothero-robinson(k={:e})", k),
        n: 1,
        f: Arc::new(move |t, y, d| d[0] = -k * (y[0] - t.cos()) - t.sin()),
        jac: Some(Arc::new(move |_t, _y| vec![-k])),
        flow: Some(Arc::new(|_s0, _y0, s1| vec![s1.cos()])),
        y0: vec![1.0],
        linear_homogeneous: false,
    }
}

/// y' = S diag(lambda) S^-1 y with S unit lower bidiagonal (exact inverse), `fast` modes of rate -k,
/// the others slow (-1, -1.5, ...); y0 = S 1, exact y = S exp(lambda t)
fn linear_system(n: usize, fast: usize, k: f64) -> Prob {
    let lam: Vec<f64> = (0..n).map(|i| if i >= n - fast { -k * (1.0 + 0.25 * (i - (n - fast)) as f64) } else { -1.0 - 0.5 * i as f64 }).collect();
    // S = I + L (ones on the first subdiagonal); S^-1 has entries (-1)^(i-j) for i>=j
    let s = |i: usize, j: usize| -> f64 { if i == j || i == j + 1 { 1.0 } else { 0.0 } };
    let si = |i: usize, j: usize| -> f64 { if i >= j { if (i - j) % 2 == 0 { 1.0 } else { -1.0 } } else { 0.0 } };
    let mut a = vec![0.0; n * n];
    for i in 0..n {
        for j in 0..n {
            let mut v = 0.0;
            for m in 0..n {
                v += s(i, m) * lam[m] * si(m, j);
            }
            a[i * n + j] = v;
        }
    }
    let a2 = a.clone();
    let lam2 = lam.clone();
    let y0: Vec<f64> = (0..n).map(|i| (0..n).map(|j| s(i, j)).sum()).collect();
    Prob {
        name: format!("linear(n={},fast={},k={:e})", n, fast, k),
        n,
        f: Arc::new(move |_t, y, d| {
            for i in 0..n {
                let mut v = 0.0;
                for j in 0..n {
                    v += a[i * n + j] * y[j];
                }
                d[i] = v;
            }
        }),
        jac: Some(Arc::new(move |_t, _y| a2.clone())),
        flow: Some(Arc::new(move |s0, _y0, s1| {
            let e: Vec<f64> = lam2.iter().map(|l| (l * (s1 - s0)).exp()).collect();
            (0..n).map(|i| (0..n).map(|j| if i == j || i == j + 1 { e[j] } else { 0.0 }).sum()).collect()
        })),
        y0,
        linear_homogeneous: true,
    }
}

/// linear kinetics chain y_1 -> y_2 -> ... -> y_n with rates alternating fast (k) and slow: the
/// columns of the matrix sum to zero, so sum(y) is a linear invariant
fn kinetics_chain(n: usize, k: f64) -> Prob {
    let rates: Vec<f64> = (0..n - 1).map(|i| if i % 2 == 0 { k } else { 1.0 + 0.3 * i as f64 }).collect();
    let r2 = rates.clone();
    Prob {
        name: format!("kinetics-chain(n={},k={:e})", n, k),
        n,
        f: Arc::new(move |_t, y, d| {
            for i in 0..n {
                let inflow = if i > 0 { rates[i - 1] * y[i - 1] } else { 0.0 };
                let outflow = if i < n - 1 { rates[i] * y[i] } else { 0.0 };
                d[i] = inflow - outflow;
            }
        }),
        jac: Some(Arc::new(move |_t, _y| {
            let mut j = vec![0.0; n * n];
            for i in 0..n {
                if i > 0 {
                    j[i * n + i - 1] = r2[i - 1];
                }
                if i < n - 1 {
                    j[i * n + i] = -r2[i];
                }
            }
            j
        })),
        flow: None,
        y0: (0..n).map(|i| if i == 0 { 1.0 } else { 0.0 }).collect(),
        linear_homogeneous: true,
    }
}

fn robertson() -> Prob {
    Prob {
        name: "robertson".into(),
        n: 3,
        f: Arc::new(|_t, y, d| {
            d[0] = -0.04 * y[0] + 1e4 * y[1] * y[2];
            d[2] = 3e7 * y[1] * y[1];
            d[1] = -d[0] - d[2];
        }),
        jac: Some(Arc::new(|_t, y| vec![-0.04, 1e4 * y[2], 1e4 * y[1], 0.04, -1e4 * y[2] - 6e7 * y[1], -1e4 * y[1], 0.0, 6e7 * y[1], 0.0])),
        flow: None,
        y0: vec![1.0, 0.0, 0.0],
        linear_homogeneous: false,
    }
}

/// atol/rtol of the nonlinear scenes.  Robertson's second component is about 3.6e-5 and the problem is
/// unstable as soon as it turns negative (finite-time blow-up): an absolute tolerance above its size
/// leaves its sign uncontrolled and the scene is not well-conditioned at that tolerance any more
/// (measured: BDF at rtol 0.1/atol 1e-4 and Radau at rtol 0.3/atol 3e-4 both leave through y2 < 0).
fn atol_factor(p: &Prob) -> f64 {
    if p.name == "robertson" {
        1e-7
    } else {
        1e-3
    }
}

fn vdp(mu: f64) -> Prob {
    Prob {
        name: format!("vanderpol(mu={})", mu),
        n: 2,
        f: Arc::new(move |_t, y, d| {
            d[0] = y[1];
            d[1] = mu * (1.0 - y[0] * y[0]) * y[1] - y[0];
        }),
        jac: Some(Arc::new(move |_t, y| vec![0.0, 1.0, -2.0 * mu * y[0] * y[1] - 1.0, mu * (1.0 - y[0] * y[0])])),
        flow: None,
        y0: vec![2.0, 0.0],
        linear_homogeneous: false,
    }
}

struct Family {
    name: String,
    make: Box<dyn Fn(f64) -> Prob + Sync>,
    span: f64,
    invariant_sum: bool,
}

pub fn run_check(replay: Option<Value>) -> i32 {
    let mut rep = Report::new("C14", "model_checking");
    let only = replay.as_ref().and_then(|c| c["key"].as_str().map(|s| s.to_string()));
    let thorough = is_thorough();
    let mut fams: Vec<Family> = vec![Family { name: "prothero-robinson".into(), make: Box::new(prothero_robinson), span: 2.0, invariant_sum: false }];
    let dims_n: Vec<usize> = if thorough { (1..=8).collect() } else { vec![1, 2, 3, 5, 8] };
    for n in dims_n {
        let fasts: Vec<usize> = if n == 1 { vec![1] } else if thorough { (1..n).collect() } else { vec![1, n - 1] };
        for fast in fasts {
            if n == 1 {
                fams.push(Family { name: "linear(n=1,fast=1)".into(), make: Box::new(move |k| linear_system(1, 1, k)), span: 1.0, invariant_sum: false });
            } else {
                fams.push(Family { name: format!("linear(n={},fast={})", n, fast), make: Box::new(move |k| linear_system(n, fast, k)), span: 1.5, invariant_sum: false });
            }
        }
    }
    for n in [3usize, 5, 8] {
        fams.push(Family { name: format!("kinetics-chain(n={})", n), make: Box::new(move |k| kinetics_chain(n, k)), span: 2.0, invariant_sum: true });
    }
    let tols: Vec<f64> = if thorough { vec![1e-3, 1e-4, 1e-5, 1e-6, 1e-7, 1e-8, 1e-9] } else { vec![1e-4, 1e-6, 1e-8] };
    // --- stiffness ladders: one job = (method, family, tol, jacobian): the whole ladder of k
    let mut jobs = vec![];
    for (mi, m) in MI.iter().enumerate() {
        for (fi, _) in fams.iter().enumerate() {
            for (ti, _) in tols.iter().enumerate() {
                for ji in 0..2 {
                    for shape in 0..2usize {
                        for backward in [false, true] {
                            jobs.push((mi, *m, fi, ti, ji, shape, backward, 1.0f64));
                        }
                        if shape == 0 {
                            // the same homogeneous system with states of size -1e9 (atol scaled alike)
                            jobs.push((mi, *m, fi, ti, ji, shape, false, -1e9f64));
                            // ... in units whose squares over- or underflow (2^600, 2^-600), and in units where the
                            // whole error scale atol + rtol |y| is below the rounding unit of 1 (2^-50)
                            // (with the analytic Jacobian: the differenced one is not scale-invariant, its last digits
                            // leak into the invariant at the tolerance scale - C13 compares those runs)
                            if ji == 0 {
                                for e in [600i32, -600, -50] {
                                    jobs.push((mi, *m, fi, ti, ji, shape, false, 2f64.powi(e)));
                                }
                            }
                            // ... and once with a binding step bound (max_step = span/40; coded as scale 2)
                            jobs.push((mi, *m, fi, ti, ji, shape, false, 2.0f64));
                        }
                    }
                }
            }
        }
    }
    let outs = par_map(jobs.len(), |j| {
        let (mi, m, fi, ti, ji, shape, backward, scale) = jobs[j];
        let bound_steps = scale == 2.0;
        let scale = if bound_steps { 1.0 } else { scale };
        let key = format!("ladder:{}.{}.{}.{}{}{}{}", mi, fi, ti, ji, if shape == 1 { ".v" } else { "" }, if backward { ".b" } else { "" }, if bound_steps { ".m".to_string() } else if scale == -1e9 { ".s".to_string() } else if scale != 1.0 { format!(".s{}", scale.log2().round()) } else { String::new() });
        if let Some(o) = &only {
            if *o != key {
                return None;
            }
        }
        let fam = &fams[fi];
        let tol = tols[ti];
        let mut out = CaseOut::default();
        let mut rows = vec![];
        let mut base_counts: Option<(usize, usize)> = None;
        let mut viols: Vec<(String, String)> = vec![];
        for k in KS {
            // backward: the time-reflected problem integrated from 0 to -span (the same stable dynamics)
            let p = if backward { reflect(&(fam.make)(k)) } else { (fam.make)(k) };
            let xend = if backward { -fam.span } else { fam.span };
            if scale != 1.0 && !p.linear_homogeneous {
                return None;
            }
            let asc = scale.abs();
            let y0s: Vec<f64> = p.y0.iter().map(|v| v * scale).collect();
            // (a per-component atol below 1e-14 on components of size one asks for less than the rounding
            // noise eps*k*|y| of the stiff right-hand side itself: not a valid request)
            if shape == 1 && (p.n < 2 || tol * 1e-6 < 1e-14) {
                return None;
            }
            let mut c = Cfg::new(m, 0.0, xend, &y0s).tol(tol, tol * 1e-2 * asc);
            // shape 1: per-component tolerances with different atol/rtol ratios (odd components 1e4 tighter)
            let atolv: Vec<f64> = (0..p.n).map(|i| if shape == 1 && i % 2 == 1 { tol * 1e-6 } else { tol * 1e-2 }).collect();
            if shape == 1 {
                c.rtol = crate::run::Tol::V(vec![tol; p.n]);
                c.atol = crate::run::Tol::V(atolv.clone());
            }
            c.user_jac = ji == 0;
            if bound_steps {
                c.max_step = Some(fam.span / 40.0);
            }
            let r = run(&p, &c);
            out.events += r.st.n_ode + r.st.n_jac;
            match &r.out {
                Outcome::Ok(s) => {
                    if s.status != Status::Success {
                        viols.push(("status".into(), format!("k={:e}: status {:?}", k, s.status)));
                        continue;
                    }
                    let yl = s.y.last().unwrap();
                    if (s.t.last().unwrap() - xend).abs() > 1e-12 * fam.span {
                        viols.push(("not-at-xend".into(), format!("k={:e}: Success but the last sample is at t={:e}, xend={:e}", k, s.t.last().unwrap(), xend)));
                    }
                    let mut err = f64::NAN;
                    if let Some(ex) = p.exact(0.0, &p.y0, xend) {
                        // worst error over all samples past the initial transient
                        err = 0.0;
                        for (t, y) in s.t.iter().zip(&s.y) {
                            // per-component mode: a fast component crosses many decades inside the first
                            // steps (an initial layer of width 1/k that the first step jumps over); its
                            // own tight atol is a fair demand only once the layer is behind
                            if shape == 1 && t.abs() < 0.1 * fam.span {
                                continue;
                            }
                            let e = p.exact(0.0, &p.y0, *t).unwrap();
                            let ynorm = e.iter().fold(0.0f64, |a, v| a.max(v.abs()));
                            for i in 0..p.n {
                                // per-component tolerances are judged against the component's own size
                                let sc = if shape == 1 { atolv[i] + tol * e[i].abs() } else { tol * 1e-2 + tol * ynorm };
                                err = err.max((y[i] / scale - e[i]).abs() / sc);
                            }
                        }
                        let _ = ex;
                        let bound = 50.0 * s.naccpt.max(1) as f64;
                        if err > bound {
                            viols.push(("accuracy".into(), format!("k={:e}: worst error is {:.1} tolerance units, bound {:.0} (naccpt={})", k, err, bound, s.naccpt)));
                        }
                        out.validated += 1;
                    }
                    if fam.invariant_sum {
                        let s0: f64 = p.y0.iter().sum();
                        let worst = s.y.iter().map(|y| (y.iter().sum::<f64>() / scale - s0).abs()).fold(0.0, f64::max);
                        // with the exact Jacobian every Newton iterate preserves the invariant, so it
                        // holds to rounding; a finite-difference Jacobian has column sums that are only
                        // approximately zero, which leaks (J error) x (Newton residual): tolerance scale
                        let lim = if ji == 0 { 64.0 * f64::EPSILON * s.naccpt.max(1) as f64 } else { tol };
                        if worst > lim {
                            viols.push(("invariant".into(), format!("k={:e}: sum(y) drifts by {:e} over {} steps (limit {:e})", k, worst, s.naccpt, lim)));
                        }
                        out.validated += 1;
                        out.tag("invariant-checked");
                    }
                    // a lower bound on the step size that the run never needs to go below (min_step = first_step
                    // = 1e-9 * span) must not change the amount of work: same problem, same tolerance
                    if shape == 0 && !backward && scale == 1.0 {
                        let mut cm = c.clone();
                        cm.budget = 200_000;
                        cm.min_step = Some(1e-9 * fam.span);
                        cm.first_step = Some(1e-9 * fam.span);
                        let mut cf = c.clone();
                        cf.first_step = Some(1e-9 * fam.span);
                        let (rm, rf) = (run(&p, &cm), run(&p, &cf));
                        out.events += rm.st.n_ode + rf.st.n_ode;
                        match (rm.sol(), rf.sol()) {
                            // (judged when the run without the bound never rejected an attempt: then no step of
                            // it was ever shorter than its first one, and the bound is never needed)
                            (Some(sm), Some(sf)) if sf.status == Status::Success && sf.nrejct == 0 && sf.nstep == sf.naccpt => {
                                if sm.status != Status::Success || sm.naccpt > 2 * sf.naccpt + 20 {
                                    viols.push(("min-step-work".into(), format!("k={:e}: with min_step = first_step = {:e} the run ends with {:?} after {} accepted steps; without min_step {} steps", k, 1e-9 * fam.span, sm.status, sm.naccpt, sf.naccpt)));
                                }
                                out.tag("min-step-checked");
                            }
                            (None, Some(sf)) if sf.status == Status::Success && sf.nrejct == 0 && sf.nstep == sf.naccpt => {
                                viols.push(("min-step-work".into(), format!("k={:e}: with min_step = first_step = {:e} the run ended with {}; without min_step it succeeds in {} steps", k, 1e-9 * fam.span, rm.outcome_name(), sf.naccpt)));
                            }
                            _ => {}
                        }
                    }
                    match base_counts {
                        None => base_counts = Some((s.naccpt, s.nfev)),
                        Some((na, nf)) => {
                            if s.naccpt > 2 * na + 20 {
                                viols.push(("step-count".into(), format!("k={:e}: {} accepted steps, {} at k=1e2: not bounded independently of the stiffness ratio", k, s.naccpt, na)));
                            }
                            if s.nfev > 2 * nf + 100 {
                                viols.push(("work".into(), format!("k={:e}: {} RHS evaluations, {} at k=1e2", k, s.nfev, nf)));
                            }
                        }
                    }
                    rows.push(json!({"k": k, "naccpt": s.naccpt, "nrejct": s.nrejct, "nfev": s.nfev, "njev": s.njev, "err_in_tolerance_units": err, "y_end": yl}));
                }
                _ => viols.push(("outcome".into(), format!("k={:e}: run ended with {}", k, r.outcome_name()))),
            }
        }
        let desc = json!({"key": key, "method": mname(m), "family": fam.name, "tol": tol, "jacobian": if ji == 0 { "user" } else { "finite-difference" }, "state_scale": scale, "max_step": if bound_steps { "span/40" } else { "none" }, "direction": if backward { "backward (reflected)" } else { "forward" }, "tolerances": if shape == 1 { "per component (odd components: atol 1e4 times tighter)" } else { "scalar" }, "ladder": rows});
        for (c, msg) in viols {
            out.violations.push(Violation::new(&key, &c, msg, desc.clone()).with("method", mname(m)).with("family", fam.name.split('(').next().unwrap_or("")));
        }
        out.tag("stiffness-ladder");
        let mut h = crate::util::Fp::default();
        h.s(&key);
        h.u(out.events);
        out.fp = Some(h.as_u128());
        out.sample = Some(desc);
        Some(out)
    });
    rep.absorb(outs.into_iter().flatten().collect());

    // --- nonlinear problems: Robertson (mass invariant) and Van der Pol over a tolerance ladder
    let nl: Vec<(Prob, f64)> = vec![(robertson(), 40.0), (vdp(10.0), 20.0), (vdp(100.0), 200.0), (vdp(1000.0), 2000.0)];
    let rtols: Vec<f64> = vec![1e-1, 1e-2, 1e-3, 1e-4, 1e-5, 1e-6];
    let dims = vec![dim("method", &MI.iter().map(|m| mname(*m)).collect::<Vec<_>>()), dim("problem", &nl.iter().map(|p| p.0.name.clone()).collect::<Vec<_>>()), dim("jacobian", &["user", "finite-difference"]), dim("atol/rtol", &["problem default (1e-3; Robertson 1e-7)", "ten times looser"])];
    lattice(&mut rep, "nonlinear", &dims, only.as_deref(), |key, idx| {
        let m = MI[idx[0]];
        let (p, span) = &nl[idx[1]];
        let mut out = CaseOut::default();
        // reference: Radau at a tolerance far below the tested ones
        let mut cr = Cfg::new(Method::RADAU, 0.0, *span, &p.y0).tol(1e-11, 1e-14);
        cr.user_jac = true;
        let rr = run(p, &cr);
        let yref = match rr.sol() {
            Some(s) if s.status == Status::Success => s.y.last().unwrap().clone(),
            _ => {
                out.violations.push(Violation::new(key, "reference", format!("reference run failed: {}", rr.outcome_name()), json!({"key": key})));
                return Some(out);
            }
        };
        let mut rows = vec![];
        let mut errs: Vec<f64> = vec![];
        let mut viols: Vec<(String, String)> = vec![];
        for rtol in &rtols {
            let atol = rtol * atol_factor(p) * if idx[3] == 1 { 10.0 } else { 1.0 };
            let mut c = Cfg::new(m, 0.0, *span, &p.y0).tol(*rtol, atol);
            c.user_jac = idx[2] == 0;
            let r = run(p, &c);
            out.events += r.st.n_ode + r.st.n_jac;
            match &r.out {
                Outcome::Ok(s) if s.status == Status::Success => {
                    let yl = s.y.last().unwrap();
                    if (s.t.last().unwrap() - span).abs() > 1e-12 * span {
                        viols.push(("not-at-xend".into(), format!("rtol={:e}: Success but the last sample is at t={:e}, xend={:e}", rtol, s.t.last().unwrap(), span)));
                    }
                    let ynorm = yref.iter().fold(0.0f64, |a, v| a.max(v.abs()));
                    let e = yl.iter().zip(&yref).fold(0.0f64, |a, (u, v)| a.max((u - v).abs())) / (atol + rtol * ynorm);
                    errs.push(e);
                    let bound = 50.0 * s.naccpt.max(1) as f64;
                    if e > bound {
                        viols.push(("accuracy".into(), format!("rtol={:e}: final error is {:.1} tolerance units (bound {:.0})", rtol, e, bound)));
                    }
                    if p.name == "robertson" {
                        // per-component absolute tolerances with different atol/rtol ratios: the small
                        // species is governed by its own (1e6 times tighter) entry
                        let av: Vec<f64> = vec![rtol * 1e-4, rtol * 1e-10, rtol * 1e-4];
                        let mut cv = c.clone();
                        cv.rtol = crate::run::Tol::V(vec![*rtol; 3]);
                        cv.atol = crate::run::Tol::V(av.clone());
                        let rv = run(p, &cv);
                        out.events += rv.st.n_ode + rv.st.n_jac;
                        match rv.sol() {
                            Some(sv) if sv.status == Status::Success => {
                                let ylv = sv.y.last().unwrap();
                                for i in 0..3 {
                                    let tol_i = av[i] + rtol * yref[i].abs();
                                    let e_i = (ylv[i] - yref[i]).abs() / tol_i;
                                    let b_i = 50.0 * sv.naccpt.max(1) as f64;
                                    if e_i > b_i {
                                        viols.push(("accuracy-per-component".into(), format!("rtol={:e}, atol={:?}: component {} is off by {:.1} of its own tolerance units (bound {:.0})", rtol, av, i, e_i, b_i)));
                                    }
                                }
                                out.validated += 1;
                                out.tag("per-component-tolerances");
                            }
                            _ => viols.push(("status".into(), format!("rtol={:e} with per-component atol {:?}: run ended with {}", rtol, av, rv.outcome_name()))),
                        }
                        let worst = s.y.iter().map(|y| (y.iter().sum::<f64>() - 1.0).abs()).fold(0.0, f64::max);
                        let lim = if idx[2] == 0 { 64.0 * f64::EPSILON * s.naccpt.max(1) as f64 } else { *rtol };
                        if worst > lim {
                            viols.push(("invariant".into(), format!("rtol={:e}: Robertson mass drifts by {:e}", rtol, worst)));
                        }
                        out.tag("invariant-checked");
                    }
                    rows.push(json!({"rtol": rtol, "naccpt": s.naccpt, "nrejct": s.nrejct, "nstep": s.nstep, "nfev": s.nfev, "err_in_tolerance_units": e, "abs_err": e * (atol + rtol * ynorm)}));
                    out.validated += 1;
                }
                _ => {
                    errs.push(f64::NAN);
                    viols.push(("status".into(), format!("rtol={:e}: run ended with {}", rtol, r.outcome_name())));
                }
            }
        }
        // tightening the tolerance must not increase the (absolute) error by more than 5x
        for i in 0..errs.len().saturating_sub(1) {
            let (a, b) = (errs[i] * rtols[i], errs[i + 1] * rtols[i + 1]); // proportional to the absolute errors
            if a.is_finite() && b.is_finite() && b > 5.0 * a && b * 1.0 > 1e-9 {
                viols.push(("tightening-increases-error".into(), format!("tightening rtol from {:e} to {:e} increased the error {:.1}-fold ({:.2e} -> {:.2e} in units of |y|)", rtols[i], rtols[i + 1], b / a, a, b)));
            }
        }
        if std::env::var("VERIF_DEBUG").is_ok() {
            println!("{} {} {}", key, p.name, serde_json::to_string(&rows).unwrap());
        }
        let desc = json!({"key": key, "point": describe(&dims, idx), "ladder": rows});
        for (c, msg) in viols {
            out.violations.push(Violation::new(key, &c, msg, desc.clone()).with("method", mname(m)).with("problem", p.name.clone()));
        }
        out.tag("tolerance-ladder");
        let mut h = crate::util::Fp::default();
        h.s(key);
        h.u(out.events);
        out.fp = Some(h.as_u128());
        out.sample = Some(desc);
        Some(out)
    });
    // --- every accepted Radau step solves the stage equations: the final stage increments Z_i are read
    // off the collocation polynomial handed to the callback; one exact Newton correction
    // e = (I - h A x J)^-1 (Z - h A F(y+Z)) computed by the harness (A = the extracted tableau, J = the
    // analytic Jacobian) must be below the transformed tolerance scale
    let radau_a: Vec<Vec<f64>> = match crate::tableau::extract(Method::RADAU, 1.0) {
        Ok(ex) => ex.a,
        Err(e) => {
            rep.machinery_errors.push(format!("Radau tableau extraction failed: {}", e));
            vec![vec![0.0; 3]; 3]
        }
    };
    let nprobs: Vec<(Prob, f64)> = vec![(vdp(10.0), 20.0), (vdp(100.0), 200.0), (vdp(1000.0), 2000.0), (robertson(), 40.0), (prothero_robinson(1e6), 2.0)];
    let ndims = vec![dim("problem", &nprobs.iter().map(|p| p.0.name.clone()).collect::<Vec<_>>()), dim("rtol", &rtols), dim("jacobian", &["user", "finite-difference"])];
    lattice(&mut rep, "newton", &ndims, only.as_deref(), |key, idx| {
        let (p, span) = &nprobs[idx[0]];
        let rtol = rtols[idx[1]];
        let atol = rtol * atol_factor(p);
        let mut c = Cfg::new(Method::RADAU, 0.0, *span, &p.y0).tol(rtol, atol);
        c.user_jac = idx[2] == 0;
        c.keep_log = true;
        const C1: f64 = 0.155_051_025_721_682_2;
        const C2: f64 = 0.644_948_974_278_317_8;
        let r = crate::run::run_lowlevel(p, &c, &[], &[C1, C2], None, false);
        let mut out = CaseOut::default();
        out.events = r.st.n_ode;
        let desc = json!({"key": key, "point": describe(&ndims, idx), "cfg": c.json(&p.name), "outcome": r.outcome_name(), "steps": r.recs.len().saturating_sub(1)});
        if r.ok().map(|i| i.status != Status::Success).unwrap_or(true) {
            out.violations.push(Violation::new(key, "status", format!("low-level Radau run ended with {}", r.outcome_name()), desc).with("method", "RADAU"));
            return Some(out);
        }
        let rt = 0.1 * rtol.powf(2.0 / 3.0);
        let at = rt * (atol / rtol);
        let n = p.n;
        let a = &radau_a;
        let cs = [C1, C2, 1.0];
        let mut worst: f64 = 0.0;
        let mut bad = 0;
        let mut first_bad = String::new();
        for j in 1..r.recs.len() {
            let (xo, xn) = (r.recs[j].xold, r.recs[j].x);
            let h = xn - xo;
            let yold = &r.recs[j - 1].y;
            // final stage increments Z_i from the collocation polynomial handed to the callback
            let z: Vec<Vec<f64>> = vec![
                r.interior[j][0].1.iter().zip(yold).map(|(u, v)| u - v).collect(),
                r.interior[j][1].1.iter().zip(yold).map(|(u, v)| u - v).collect(),
                r.recs[j].y.iter().zip(yold).map(|(u, v)| u - v).collect(),
            ];
            // residual R = Z - h (A x I) F(y + Z) and the Newton correction e = (I - h A x J)^-1 R
            let mut fz = vec![vec![0.0; n]; 3];
            for i in 0..3 {
                let yi: Vec<f64> = yold.iter().zip(&z[i]).map(|(u, v)| u + v).collect();
                (p.f)(xo + cs[i] * h, &yi, &mut fz[i]);
            }
            let jm = (p.jac.as_ref().unwrap())(xn, &r.recs[j].y);
            let m3 = 3 * n;
            let mut mat = vec![vec![0.0; m3 + 1]; m3];
            for i in 0..3 {
                for d in 0..n {
                    let row = i * n + d;
                    let mut res = z[i][d];
                    for l in 0..3 {
                        res -= h * a[i][l] * fz[l][d];
                        for e in 0..n {
                            mat[row][l * n + e] = -h * a[i][l] * jm[d * n + e];
                        }
                    }
                    mat[row][row] += 1.0;
                    mat[row][m3] = res;
                }
            }
            // Gaussian elimination with partial pivoting
            let mut ok = true;
            for k in 0..m3 {
                let mut pv = k;
                for i in k..m3 {
                    if mat[i][k].abs() > mat[pv][k].abs() {
                        pv = i;
                    }
                }
                if mat[pv][k] == 0.0 {
                    ok = false;
                    break;
                }
                mat.swap(k, pv);
                for i in k + 1..m3 {
                    let f = mat[i][k] / mat[k][k];
                    if f != 0.0 {
                        for c2 in k..=m3 {
                            mat[i][c2] -= f * mat[k][c2];
                        }
                    }
                }
            }
            if !ok {
                continue;
            }
            let mut e = vec![0.0; m3];
            for k in (0..m3).rev() {
                let mut sacc = mat[k][m3];
                for c2 in k + 1..m3 {
                    sacc -= mat[k][c2] * e[c2];
                }
                e[k] = sacc / mat[k][k];
            }
            let mut d: f64 = 0.0;
            for i in 0..3 {
                for dd in 0..n {
                    let sc = at + rt * (yold[dd] + z[i][dd]).abs();
                    d = d.max(e[i * n + dd].abs() / sc);
                }
            }
            worst = worst.max(d);
            out.validated += 1;
            if d > 1.0 {
                bad += 1;
                if first_bad.is_empty() {
                    first_bad = format!("step {} [{:e},{:e}] accepted with y={:?}: the stage values are {:.1} tolerance units away from a solution of the collocation equations", j, xo, xn, r.recs[j].y, d);
                }
            }
        }
        if bad > 0 {
            out.violations.push(Violation::new(key, "accepted-unsolved-step", format!("{} accepted steps do not solve the stage equations to tolerance; {}", bad, first_bad), desc.clone()).with("method", "RADAU").with("problem", p.name.clone()));
        }
        if std::env::var("VERIF_DEBUG").is_ok() {
            println!("{} {} worst={:.3}", key, p.name, worst);
        }
        out.tag("newton-consistency");
        let mut h = r.st.fp;
        h.f(worst);
        out.fp = Some(h.as_u128());
        out.sample = Some(desc);
        Some(out)
    });
    if only.is_some() {
        for v in &rep.violations {
            println!("replay: VIOLATED [{}]: {}\n{}", v.sig["check"], v.msg, serde_json::to_string_pretty(&v.case).unwrap());
        }
        if rep.violations.is_empty() {
            println!("replay: property holds on this case");
        }
        return if rep.violations.is_empty() { 0 } else { 1 };
    }
    rep.violations.extend(crate::regress::violations_for("C14"));
    if let Value::Array(a) = &mut rep.dims {
        a.insert(0, json!({"group": "ladder", "methods": MI.iter().map(|m| mname(*m)).collect::<Vec<_>>(), "families": fams.iter().map(|f| f.name.clone()).collect::<Vec<_>>(),
            "stiffness_ratios_k": KS, "tolerances": tols, "jacobian": ["user", "finite-difference"]}));
    }
    for t in ["stiffness-ladder", "tolerance-ladder", "invariant-checked", "newton-consistency"] {
        rep.require(t, 4);
    }
    rep.rule = "stiffness ladders: every (method, family, tolerance, Jacobian source) is run for k = 1e2..1e10; oracle: Success, worst sample error <= 50*naccpt tolerance units against the closed form, naccpt(k) <= 2 naccpt(1e2) + 20 and nfev(k) <= 2 nfev(1e2) + 100, linear invariants to 64 eps naccpt; nonlinear problems (Robertson, Van der Pol mu = 10..1000 over one relaxation cycle and more) over a tolerance ladder 1e-1..1e-6 against a reference run at 1e-11: same bound, and tightening rtol tenfold must not increase the error more than fivefold; distinct = distinct ladders".into();
    rep.assumptions.push("linear invariants are demanded to rounding (64 eps naccpt) with the user Jacobian and to the tolerance with the finite-difference Jacobian, whose column sums are only approximately zero".into());
    rep.assumptions.push("reference for the nonlinear problems: Radau at rtol 1e-11 (not independent of the implementation; only required to be far more accurate than the tested tolerances)".into());
    rep.finish()
}
