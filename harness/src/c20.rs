//! C20 — the Python binding returns the Rust solution in SciPy layout.
//! Rust side of the differential: `--emit` writes the case list with the results of the Rust
//! API (hex-encoded doubles); py/c20.py replays every case through the built extension module and
//! writes per-case outcomes; `--absorb` turns those into the report.

use crate::env::{EvKind, EventSpec};
use crate::problems::Prob;
use crate::report::{is_thorough, CaseOut, Report};
use crate::run::{is_implicit, mname, run, Cfg, Tol, M6};
use crate::util::{hex, par_map};
use ivp::prelude::*;
use serde_json::{json, Value};
use std::sync::Arc;

fn hexs(v: &[f64]) -> Value {
    Value::Array(v.iter().map(|x| Value::String(hex(*x))).collect())
}

/// problems defined with exactly the floating-point operations (and their order) of py/c20.py
fn problem(id: &str, args: &[f64]) -> Prob {
    match id {
        "decay" => Prob { name: id.into(), n: 1, f: Arc::new(|_t, y, d| d[0] = -0.5 * y[0]), jac: Some(Arc::new(|_t, _y| vec![-0.5])), flow: None, y0: vec![2.0], linear_homogeneous: true },
        "osc" => Prob {
            name: id.into(),
            n: 2,
            f: Arc::new(|_t, y, d| {
                d[0] = y[1];
                d[1] = -4.0 * y[0];
            }),
            jac: Some(Arc::new(|_t, _y| vec![0.0, 1.0, -4.0, 0.0])),
            flow: None,
            y0: vec![1.0, 0.5],
            linear_homogeneous: true,
        },
        "logi" => {
            let r = args[0];
            Prob { name: id.into(), n: 1, f: Arc::new(move |_t, y, d| d[0] = r * y[0] * (1.0 - y[0])), jac: Some(Arc::new(move |_t, y| vec![r * (1.0 - 2.0 * y[0])])), flow: None, y0: vec![0.25], linear_homogeneous: false }
        }
        // a Jacobian entry that is exactly zero for t >= 1 and nonzero before: the stored pattern of a
        // sparse matrix built from it shrinks during the run
        "switch" => Prob {
            name: id.into(),
            n: 2,
            f: Arc::new(|t, y, d| {
                let s = if t < 1.0 { 1.0 } else { 0.0 };
                d[0] = s * y[1] - 0.25 * y[0];
                d[1] = -y[0] - 0.5 * y[1];
            }),
            jac: Some(Arc::new(|t, _y| vec![-0.25, if t < 1.0 { 1.0 } else { 0.0 }, -1.0, -0.5])),
            flow: None,
            y0: vec![1.0, 0.5],
            linear_homogeneous: true,
        },
        "lin3" => {
            const A: [[f64; 3]; 3] = [[-1.0, 0.5, 0.0], [0.25, -2.0, 0.5], [0.0, 0.75, -3.0]];
            Prob {
                name: id.into(),
                n: 3,
                f: Arc::new(|t, y, d| {
                    for i in 0..3 {
                        d[i] = ((A[i][0] * y[0] + A[i][1] * y[1]) + A[i][2] * y[2]) + 0.125 * t;
                    }
                }),
                jac: Some(Arc::new(|_t, _y| A.iter().flat_map(|r| r.iter().copied()).collect())),
                flow: None,
                y0: vec![1.0, -0.5, 0.75],
                linear_homogeneous: false,
            }
        }
        _ => {
            let mu = args[0];
            Prob {
                name: "vdp".into(),
                n: 2,
                f: Arc::new(move |_t, y, d| {
                    d[0] = y[1];
                    d[1] = mu * (1.0 - y[0] * y[0]) * y[1] - y[0];
                }),
                jac: Some(Arc::new(move |_t, y| vec![0.0, 1.0, -2.0 * mu * y[0] * y[1] - 1.0, mu * (1.0 - y[0] * y[0])])),
                flow: None,
                y0: vec![2.0, 0.0],
                linear_homogeneous: false,
            }
        }
    }
}

/// linear problem whose Jacobian has exactly the boolean pattern `mask` (row-major bits)
fn pattern_problem(n: usize, mask: u64) -> Prob {
    let coef = move |r: usize, c: usize| -> f64 { ((r * 3 + c) % 5 + 1) as f64 * 0.25 * if r == c { -1.0 } else { 1.0 } };
    let has = move |r: usize, c: usize| -> bool { (mask >> (r * n + c)) & 1 == 1 };
    Prob {
        name: format!("pattern(n={},mask={})", n, mask),
        n,
        f: Arc::new(move |_t, y, d| {
            for r in 0..n {
                let mut acc = 0.1 * (r as f64 + 1.0);
                for c in 0..n {
                    if has(r, c) {
                        acc = acc + coef(r, c) * y[c];
                    }
                }
                d[r] = acc;
            }
        }),
        jac: None,
        flow: None,
        y0: (0..n).map(|i| 1.0 + 0.5 * i as f64).collect(),
        linear_homogeneous: false,
    }
}

struct Case {
    id: String,
    prob: String,
    args: Vec<f64>,
    cfg: Cfg,
    jac: &'static str, // none | callable | constant
    events: Vec<Value>,
    sol_ts: Vec<f64>,
    pattern: Option<(usize, u64)>,
}

fn ev_json(e: &EventSpec) -> Value {
    let (kind, i, c) = match e.kind {
        EvKind::T(c) => ("t", 0, c),
        EvKind::Y(i, c) => ("y", i, c),
        EvKind::Y0Y1 => ("y0y1", 0, 0.0),
        _ => ("t", 0, 0.0),
    };
    json!({"kind": kind, "i": i, "c": hex(c), "terminal": e.terminal.is_some(), "direction": match e.dir { Direction::All => 0, Direction::Positive => 1, Direction::Negative => -1 }})
}

fn cases(thorough: bool) -> Vec<Case> {
    let mut v = vec![];
    let probs: Vec<(&str, Vec<f64>, f64)> = vec![("decay", vec![], 3.0), ("osc", vec![], 3.0), ("logi", vec![1.5], 3.0), ("lin3", vec![], 2.0), ("vdp", vec![5.0], 3.0), ("switch", vec![], 3.0),
        // the logistic problem in units of 1e-7 (rate 1.5e7 over [0, 3e-7]): steps far below 1e-6
        ("logi", vec![1.5e7], 3e-7)];
    for m in M6 {
        for (pid, args, span) in &probs {
            let p = problem(pid, args);
            let jacs: Vec<&'static str> = if is_implicit(m) { if *pid == "decay" || *pid == "osc" || *pid == "lin3" { vec!["none", "callable", "constant"] } else if *pid == "switch" { vec!["callable"] } else { vec!["none", "callable"] } } else { vec!["none"] };
            for jac in jacs {
                for opt in 0..14 {
                    if jac != "none" && ![0, 1, 3].contains(&opt) {
                        continue;
                    }
                    let mut c = Cfg::new(m, 0.0, *span, &p.y0);
                    c.rtol = Tol::S(1e-3);
                    c.atol = Tol::S(1e-6);
                    c.user_jac = jac != "none";
                    let mut sol_ts = vec![];
                    match opt {
                        0 => {}
                        1 => {
                            c.rtol = Tol::S(1e-8);
                            c.atol = Tol::S(1e-10);
                            c.dense = true;
                            sol_ts = vec![0.0, 0.03 * span, 0.37 * span, 0.5 * span, 0.77 * span, 0.97 * span, *span, -0.25, span + 0.5];
                        }
                        2 => c.t_eval = Some((0..=6).map(|i| span * i as f64 / 6.0).collect()),
                        3 => {
                            c.dense = true;
                            c.events = vec![EventSpec::new(EvKind::T(0.41 * span)).dir(Direction::Positive), EventSpec::new(EvKind::Y(0, 0.8 * p.y0[0]))];
                            if p.n >= 2 {
                                c.events.push(EventSpec::new(EvKind::Y0Y1).dir(Direction::Negative));
                            }
                            sol_ts = vec![0.1 * span, 0.9 * span];
                        }
                        4 => c.events = vec![EventSpec::new(EvKind::Y(0, 0.8 * p.y0[0])), EventSpec::new(EvKind::T(0.63 * span)).term(1)],
                        5 => c.max_steps = Some(3),
                        6 => {
                            c.first_step = Some(span / 64.0);
                            c.max_step = Some(span / 8.0);
                        }
                        7 => {
                            c.x0 = *span;
                            c.xend = 0.0;
                            c.t_eval = Some((0..=4).map(|i| span - span * i as f64 / 4.0).collect());
                        }
                        10 => {
                            // backward run with dense output: sol(t) across all segments
                            c.x0 = *span;
                            c.xend = 0.0;
                            c.dense = true;
                            sol_ts = vec![*span, 0.97 * span, 0.77 * span, 0.5 * span, 0.37 * span, 0.05 * span, 0.0];
                        }
                        13 => {
                            // backward run with a given first step and step bound
                            c.x0 = *span;
                            c.xend = 0.0;
                            c.first_step = Some(-span / 64.0);
                            c.max_step = Some(span / 8.0);
                        }
                        11 => {
                            // pure relative control (atol = 0 is a value, not "no value")
                            if *pid != "decay" {
                                continue;
                            }
                            c.rtol = Tol::S(1e-6);
                            c.atol = Tol::S(0.0);
                        }
                        12 => {
                            // per-component tolerances with one absolute tolerance of zero
                            if *pid != "lin3" {
                                continue;
                            }
                            c.rtol = Tol::V(vec![1e-5, 1e-6, 1e-5]);
                            c.atol = Tol::V(vec![1e-8, 0.0, 1e-9]);
                        }
                        9 => {
                            // a terminal, direction-filtered event first, then event functions that
                            // carry no attributes at all (their configuration must be the default)
                            c.events = vec![EventSpec::new(EvKind::T(0.8 * span)).dir(Direction::Positive).term(1), EventSpec::new(EvKind::Y(0, 0.8 * p.y0[0])), EventSpec::new(EvKind::T(0.3 * span))];
                        }
                        _ => {
                            if p.n < 2 {
                                continue;
                            }
                            c.rtol = Tol::V((0..p.n).map(|i| 1e-4 * 10f64.powi(-(i as i32))).collect());
                            c.atol = Tol::V((0..p.n).map(|i| 1e-7 * 10f64.powi(-(i as i32))).collect());
                        }
                    }
                    if m == Method::RK4 && (opt == 6 || opt == 13) {
                        c.max_step = None;
                    }
                    let mut events: Vec<Value> = c.events.iter().map(ev_json).collect();
                    if opt == 9 {
                        for e in events.iter_mut().skip(1) {
                            e["plain"] = json!(true);
                        }
                    }
                    v.push(Case { id: format!("case:{}:{}{}:{}:{}", mname(m), pid, if *span < 1e-3 { "@1e-7" } else { "" }, jac, opt), prob: pid.to_string(), args: args.clone(), cfg: c, jac, events, sol_ts, pattern: None });
                }
            }
        }
    }
    // far from the time origin (x0 = 1e6 + 0.3, both directions, dense output queried on the ends of the interval and
    // inside), and a span of 1e-13 with 1001 requested times (spacing 1e-16)
    for m in M6 {
        for pid in ["decay", "osc"] {
            let p = problem(pid, &[]);
            for backward in [false, true] {
                let (a, b) = (1e6 + 0.3, 1e6 + 3.3);
                let (x0, xend) = if backward { (b, a) } else { (a, b) };
                let mut c = Cfg::new(m, x0, xend, &p.y0);
                c.rtol = Tol::S(1e-6);
                c.atol = Tol::S(1e-9);
                c.dense = true;
                let sol_ts = vec![x0, xend, a + 0.37 * 3.0, a + 1.5, a + 0.97 * 3.0];
                v.push(Case { id: format!("case:{}:{}@1e6{}:none:dense", mname(m), pid, if backward { "-backward" } else { "" }), prob: pid.to_string(), args: vec![], cfg: c, jac: "none", events: vec![], sol_ts, pattern: None });
            }
        }
        let p = problem("decay", &[]);
        for sgn in [1.0, -1.0] {
            let span = sgn * 1e-13;
            let mut c = Cfg::new(m, 0.0, span, &p.y0);
            c.rtol = Tol::S(1e-6);
            c.atol = Tol::S(1e-9);
            c.t_eval = Some((0..=1000).map(|i| span * i as f64 / 1000.0).collect());
            v.push(Case { id: format!("case:{}:decay@1e-13{}:none:t_eval1001", mname(m), if sgn < 0.0 { "-backward" } else { "" }), prob: "decay".into(), args: vec![], cfg: c, jac: "none", events: vec![], sol_ts: vec![], pattern: None });
        }
    }
    // every sparsity pattern up to 3x3 (4x4 thorough), and for n = 5, 6, 8 every union of at most
    // three diagonals (banded, arrow-free structured patterns whose groups hold three and more columns)
    let nmax = if thorough { 4 } else { 3 };
    let mut masks: Vec<(usize, u64)> = vec![];
    for n in 1..=nmax {
        for mask in 0..(1u64 << (n * n)) {
            masks.push((n, mask));
        }
    }
    for n in [5usize, 6, 8] {
        let diags: Vec<isize> = (-(n as isize - 1)..=(n as isize - 1)).collect();
        let dmask = |k: isize| -> u64 {
            let mut m = 0u64;
            for r in 0..n {
                let c = r as isize - k;
                if c >= 0 && (c as usize) < n {
                    m |= 1u64 << (r * n + c as usize);
                }
            }
            m
        };
        let nd = diags.len();
        for a in 0..nd {
            masks.push((n, dmask(diags[a])));
            for b in a + 1..nd {
                masks.push((n, dmask(diags[a]) | dmask(diags[b])));
                for c in b + 1..nd {
                    masks.push((n, dmask(diags[a]) | dmask(diags[b]) | dmask(diags[c])));
                }
            }
        }
        // arrows and a dense row/column on top of the diagonal
        let mut arrow = dmask(0);
        let mut rarrow = dmask(0);
        for i in 0..n {
            arrow |= 1u64 << i | 1u64 << (i * n);
            rarrow |= 1u64 << ((n - 1) * n + i) | 1u64 << (i * n + n - 1);
        }
        masks.push((n, arrow));
        masks.push((n, rarrow));
    }
    {
        for (n, mask) in masks {
            for m in [Method::RADAU, Method::BDF] {
                let p = pattern_problem(n, mask);
                let mut c = Cfg::new(m, 0.0, 0.5, &p.y0);
                c.rtol = Tol::S(1e-4);
                c.atol = Tol::S(1e-7);
                v.push(Case { id: format!("pattern:{}:{}:{}", mname(m), n, mask), prob: "pattern".into(), args: vec![], cfg: c, jac: "none", events: vec![], sol_ts: vec![], pattern: Some((n, mask)) });
            }
        }
    }
    v
}

pub fn run_check(args: &[String], _replay: Option<Value>) -> i32 {
    let t_begin = std::time::Instant::now();
    let _ = t_begin;
    let thorough = is_thorough();
    if let Some(p) = args.iter().position(|a| a == "--emit") {
        let path = &args[p + 1];
        let cs = cases(thorough);
        let outs: Vec<Value> = par_map(cs.len(), |i| {
            let c = &cs[i];
            let p = match c.pattern {
                Some((n, mask)) => pattern_problem(n, mask),
                None => problem(&c.prob, &c.args),
            };
            let r = run(&p, &c.cfg);
            let (res, err) = match r.sol() {
                Some(s) => {
                    let status = match s.status {
                        Status::Success => 0,
                        Status::UserInterrupt => 1,
                        _ => -1,
                    };
                    let mut sol_vals = vec![];
                    for t in &c.sol_ts {
                        let v = s.continuous_sol.as_ref().and_then(|co| co.evaluate_extrapolate(*t));
                        let inside = s.sol(*t).ok();
                        // inside the span the reference is the Rust API's own sol(t); outside it (where
                        // the Rust sol refuses) the extrapolating evaluation the binding is built on
                        let v = inside.or(v);
                        sol_vals.push(json!({"t": hex(*t), "y": v.map(|x| hexs(&x))}));
                    }
                    (
                        json!({"t": hexs(&s.t), "y": s.y.iter().map(|r| hexs(r)).collect::<Vec<_>>(), "t_events": s.t_events.iter().map(|e| hexs(e)).collect::<Vec<_>>(),
                            "y_events": s.y_events.iter().map(|e| e.iter().map(|r| hexs(r)).collect::<Vec<_>>()).collect::<Vec<_>>(),
                            "status": status, "status_name": format!("{:?}", s.status), "nfev": s.nfev, "njev": s.njev, "nlu": s.nlu, "sol": sol_vals, "rhs_calls": r.st.n_ode + r.st.n_ode_in_jac}),
                        Value::Null,
                    )
                }
                None => (Value::Null, json!(r.outcome_name())),
            };
            let cf = &c.cfg;
            let tolj = |t: &Tol| match t {
                Tol::S(v) => json!(hex(*v)),
                Tol::V(v) => hexs(v),
            };
            json!({"id": c.id, "problem": c.prob, "args": hexs(&c.args), "pattern": c.pattern.map(|(n, m)| json!({"n": n, "mask": m})),
                "method": mname(cf.method), "t_span": [hex(cf.x0), hex(cf.xend)], "y0": hexs(&cf.y0), "rtol": tolj(&cf.rtol), "atol": tolj(&cf.atol),
                "first_step": cf.first_step.map(hex), "max_step": cf.max_step.map(hex), "max_steps": cf.max_steps, "t_eval": cf.t_eval.as_ref().map(|v| hexs(v)),
                "dense_output": cf.dense, "events": c.events, "jac": c.jac, "sol_ts": hexs(&c.sol_ts), "rust": res, "rust_error": err})
        });
        std::fs::write(path, serde_json::to_string(&json!({"tier": crate::report::tier(), "cases": outs})).unwrap()).expect("cannot write case file");
        println!("emitted {} cases to {}", cs.len(), path);
        return 0;
    }
    if let Some(p) = args.iter().position(|a| a == "--absorb") {
        let txt = std::fs::read_to_string(&args[p + 1]).expect("cannot read python results");
        let v: Value = serde_json::from_str(&txt).expect("python results are not JSON");
        let mut rep = Report::new("C20", "model_checking");
        rep.wall_offset = v["python"]["wall_s"].as_f64().unwrap_or(0.0);
        let outs: Vec<CaseOut> = v["cases"].as_array().unwrap().iter().map(CaseOut::from_json).collect();
        rep.absorb(outs);
        if let Some(errs) = v["machinery_errors"].as_array() {
            for e in errs {
                rep.machinery_errors.push(e.as_str().unwrap_or("").to_string());
            }
        }
        rep.dims = json!({"cases": "six methods x 5 problems x 9 option sets (defaults, tight+dense+sol, t_eval, events+dense, terminal event, max_steps=3, first/max_step, backward+t_eval, vector tolerances, backward+dense+sol) x Jacobian source (none/callable/constant) for the implicit methods",
            "sparsity": format!("every boolean Jacobian pattern on n <= {}, and for n = 5, 6, 8 every union of at most three diagonals plus arrow patterns, x (Radau, BDF) x (without, with jac_sparsity)", if thorough { 4 } else { 3 }), "python": v["python"].clone()});
        for t in ["bitwise-equal", "status-0", "status-1", "status--1", "sparsity-pattern", "sparsity-saves-evaluations", "constant-jac", "args", "sol-outside-span", "jac-representations"] {
            rep.require(t, 1);
        }
        rep.rule = "the harness runs every case through the Rust API and writes the results with hex-encoded doubles; py/c20.py defines each problem with the same floating-point operations in the same order as Python callables, calls ivp.solve_ivp of the extension module built from the working tree, and compares bit patterns, shapes, dtypes, status mapping, counters, sol(t) inside and outside the span, args propagation, constant vs callable Jacobian, the same Jacobian as C-ordered / Fortran-ordered / transposed view / strided view / CSC / CSR (bit-identical results); every sparsity pattern: results bitwise equal with and without jac_sparsity (and equal to the Rust run), RHS calls per Jacobian = groups+1; non-trivial = case executed on both sides; distinct = distinct (case, result fingerprint)".into();
        rep.assumptions.push("CPython float arithmetic is IEEE double without contraction; the right-hand sides use only + - * (no libm calls), so bit equality is meaningful".into());
        return rep.finish();
    }
    eprintln!("C20 is driven by ./check C20 (emit -> py/c20.py -> absorb)");
    2
}
