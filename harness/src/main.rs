use ivp_verif::*;
use serde_json::Value;

fn main() {
    util::install_quiet_panic_hook();
    let args: Vec<String> = std::env::args().collect();
    if args.len() < 2 {
        eprintln!("usage: ivpv <property id> [--replay <file>]");
        std::process::exit(2);
    }
    let id = args[1].as_str();
    let mut replay: Option<Value> = None;
    let mut i = 2;
    while i < args.len() {
        if args[i] == "--replay" && i + 1 < args.len() {
            let txt = std::fs::read_to_string(&args[i + 1]).expect("cannot read replay file");
            let v: Value = serde_json::from_str(&txt).expect("replay file is not JSON");
            replay = Some(v["case"].clone());
            i += 1;
        }
        i += 1;
    }
    if id == "tableau" {
        for m in [ivp::prelude::Method::RADAU] {
            match tableau::extract(m, 1.0) {
                Ok(ex) => println!("{:?}\nb={:?}\nbtheta={:?}", ex.a, ex.b, ex.btheta),
                Err(e) => println!("ERR {}", e),
            }
        }
        std::process::exit(0);
    }
    if id == "regress" {
        let mut bad = 0;
        for r in regress::all() {
            let res = util::guarded(|| (r.f)());
            let txt = match res { Ok(Ok(())) => "ok".to_string(), Ok(Err(m)) => { bad += 1; format!("FAIL: {}", m) }, Err(p) => { bad += 1; format!("PANIC: {}", p) } };
            println!("{:34} {:4} {}", r.name, r.property, txt);
        }
        std::process::exit(if bad > 0 { 1 } else { 0 });
    }
    if let Some(rp) = &replay {
        if let Some(name) = rp["regression"].as_str() {
            std::process::exit(regress::replay(name).unwrap_or(2));
        }
    }
    let code = match id {
        "C01" => c01::run_check(replay),
        "C02" => c02::run_check(replay),
        "C03" => c03::run_check(replay),
        "C04" => c04::run_check(&args, replay),
        "C05" => c05::run_check(replay),
        "C08" => events::run_check(events::Mode::C08, replay),
        "C09" => events::run_check(events::Mode::C09, replay),
        "C10" => events::run_check(events::Mode::C10, replay),
        "C06" => c06::run_check(replay),
        "C11" => c11::run_check(replay),
        "C12" => {
            if let Some(q) = args.iter().position(|a| a == "--seq") {
                let (i, j) = (args[q + 1].parse().unwrap_or(0), args[q + 2].parse().unwrap_or(0));
                std::process::exit(c12::seq_child(i, j));
            }
            if let Some(q) = args.iter().position(|a| a == "--chain") {
                std::process::exit(c12::chain_child(args[q + 1].parse().unwrap_or(0), &args[q + 2], &args[q + 3]));
            }
            c12::run_check(replay)
        }
        "C07" => c07::run_check(replay),
        "C13" => c13::run_check(replay),
        "C14" => c14::run_check(replay),
        "C15" => c15::run_check(replay),
        "C16" => c16::run(replay),
        "C17" => c17::run(replay),
        "C18" => c18::run_check(replay),
        "C19" => c19::run_check(replay),
        "C20" => c20::run_check(&args, replay),
        _ => {
            eprintln!("unknown property id {}", id);
            2
        }
    };
    std::process::exit(code);
}
