#!/opt/veriftools/pyvenv/bin/python
"""C20 — Python side of the binding differential.

  py/c20.py --binary <ivpv> --repo <repo>

1. builds the extension module from the repository working tree (cargo --features python, offline),
2. asks the harness for the case list with the Rust results (hex-encoded doubles),
3. replays every case through ivp.solve_ivp with Python callables that perform the same
   floating-point operations in the same order, and compares bit patterns / shapes / mapping,
4. hands the per-case outcomes back to the harness, which writes evidence and the verdict.
"""
import json, os, shutil, struct, subprocess, sys, time, traceback

VERIF = os.path.dirname(os.path.dirname(os.path.abspath(__file__)))


def arg(name, default=None):
    if name in sys.argv:
        return sys.argv[sys.argv.index(name) + 1]
    return default


BINARY = arg("--binary")
REPO = os.path.abspath(arg("--repo", "/repo"))
TIER = os.environ.get("VERIF_TIER", "quick")
OUT = os.environ.get("VERIF_DIR", VERIF)


def build_extension():
    target = os.path.join(VERIF, ".target-py") if REPO == "/repo" else os.path.join(REPO, ".verif-target-py")
    env = dict(os.environ, CARGO_NET_OFFLINE="true", CARGO_TARGET_DIR=target, PYO3_PYTHON="/opt/veriftools/pyvenv/bin/python")
    p = subprocess.run(["cargo", "build", "--offline", "--features", "python", "--lib", "--quiet"], cwd=REPO, env=env,
                       stdout=subprocess.PIPE, stderr=subprocess.STDOUT, text=True)
    if p.returncode != 0:
        print(p.stdout[-4000:])
        print("MACHINERY-ERROR: building the Python extension failed")
        sys.exit(2)
    mod = os.path.join(target, "pymod")
    os.makedirs(mod, exist_ok=True)
    shutil.copy(os.path.join(target, "debug", "libivp.so"), os.path.join(mod, "ivp.so"))
    return mod


def unhex(s):
    return struct.unpack("<d", struct.pack("<Q", int(s, 16)))[0]


def bits(x):
    return struct.unpack("<Q", struct.pack("<d", float(x)))[0]


def unhexs(v):
    return [unhex(s) for s in v]


# --- problems: the same floating-point operations, in the same order, as harness/src/c20.rs -----

class Counter:
    def __init__(self):
        self.n = 0
        self.bad_args = 0


def make_problem(case, counter):
    pid = case["problem"]
    args = unhexs(case["args"])
    if pid == "decay":
        def f(t, y):
            counter.n += 1
            return [-0.5 * y[0]]
        jac = lambda t, y: np.array([[-0.5]])
        const = np.array([[-0.5]])
    elif pid == "osc":
        def f(t, y):
            counter.n += 1
            return np.array([y[1], -4.0 * y[0]])
        jac = lambda t, y: np.array([[0.0, 1.0], [-4.0, 0.0]])
        const = np.array([[0.0, 1.0], [-4.0, 0.0]])
    elif pid == "logi":
        def f(t, y, r):
            counter.n += 1
            if r != args[0]:
                counter.bad_args += 1
            return (r * y[0] * (1.0 - y[0]),)
        def jac(t, y, r):
            if r != args[0]:
                counter.bad_args += 1
            return np.array([[r * (1.0 - 2.0 * y[0])]])
        const = None
    elif pid == "switch":
        def f(t, y):
            counter.n += 1
            s = 1.0 if t < 1.0 else 0.0
            return [s * y[1] - 0.25 * y[0], -y[0] - 0.5 * y[1]]
        jac = lambda t, y: np.array([[-0.25, 1.0 if t < 1.0 else 0.0], [-1.0, -0.5]])
        const = None
    elif pid == "lin3":
        A = [[-1.0, 0.5, 0.0], [0.25, -2.0, 0.5], [0.0, 0.75, -3.0]]
        def f(t, y):
            counter.n += 1
            return [((A[i][0] * y[0] + A[i][1] * y[1]) + A[i][2] * y[2]) + 0.125 * t for i in range(3)]
        jac = lambda t, y: np.array(A)
        const = np.array(A)
    elif pid == "vdp":
        def f(t, y, mu):
            counter.n += 1
            if mu != args[0]:
                counter.bad_args += 1
            return [y[1], mu * (1.0 - y[0] * y[0]) * y[1] - y[0]]
        def jac(t, y, mu):
            if mu != args[0]:
                counter.bad_args += 1
            return np.array([[0.0, 1.0], [-2.0 * mu * y[0] * y[1] - 1.0, mu * (1.0 - y[0] * y[0])]])
        const = None
    elif pid == "pattern":
        n, mask = case["pattern"]["n"], case["pattern"]["mask"]
        def coef(r, c):
            return ((r * 3 + c) % 5 + 1) * 0.25 * (-1.0 if r == c else 1.0)
        rows = [[c for c in range(n) if (mask >> (r * n + c)) & 1] for r in range(n)]
        cf = [[coef(r, c) for c in range(n)] for r in range(n)]
        # (a required extra parameter, passed through `args`, that multiplies by exactly 1.0: every call site of
        # the right-hand side - also the ones that difference it for the Jacobian - has to hand it over)
        def f(t, y, one):
            counter.n += 1
            if one != 1.0:
                counter.bad_args += 1
            out = []
            for r in range(n):
                acc = 0.1 * (r + 1.0)
                for c in rows[r]:
                    acc = acc + cf[r][c] * y[c]
                out.append(acc * one)
            return out
        jac, const = None, None
        args = [1.0]
    else:
        raise ValueError(pid)
    return f, jac, const, tuple(args)


def make_events(case, counter, args):
    evs = []
    for e in case["events"]:
        c = unhex(e["c"])
        kind, i = e["kind"], e["i"]
        if kind == "t":
            def g(t, y, *a, c=c):
                if a != args:
                    counter.bad_args += 1
                return t - c
        elif kind == "y":
            def g(t, y, *a, c=c, i=i):
                if a != args:
                    counter.bad_args += 1
                return y[i] - c
        else:
            def g(t, y, *a):
                if a != args:
                    counter.bad_args += 1
                return y[0] * y[1]
        if not e.get("plain"):
            g.terminal = bool(e["terminal"])
            g.direction = float(e["direction"])
        evs.append(g)
    return evs


def _strided(a):
    big = np.full((2 * a.shape[0], 3 * a.shape[1]), 7.5)
    big[::2, ::3] = a
    return big[::2, ::3]


# the array representations of one and the same Jacobian that the binding accepts
JAC_REPS = {
    "C": lambda a: a,
    "F": lambda a: np.asfortranarray(a),
    "T-view": lambda a: np.array(a.T).T,
    "strided": _strided,
    "csc": lambda a: sp.csc_matrix(a),
    "csr": lambda a: sp.csr_matrix(a),
    # integer arrays (only for Jacobians whose entries are integers: the value is the same matrix)
    "int64": lambda a: a.astype(np.int64) if np.all(a == np.round(a)) else a,
    "int64-F": lambda a: np.asfortranarray(a.astype(np.int64)) if np.all(a == np.round(a)) else a,
}


def tol(v):
    return unhex(v) if isinstance(v, str) else unhexs(v)


def solve(case, counter, **extra):
    f, jac, const, args = make_problem(case, counter)
    kw = {"method": case["method"], "rtol": tol(case["rtol"]), "atol": tol(case["atol"]), "dense_output": bool(case["dense_output"])}
    if case["t_eval"] is not None:
        kw["t_eval"] = np.array(unhexs(case["t_eval"]))
    if case["first_step"] is not None:
        kw["first_step"] = unhex(case["first_step"])
    if case["max_step"] is not None:
        kw["max_step"] = unhex(case["max_step"])
    if case["max_steps"] is not None:
        kw["max_steps"] = int(case["max_steps"])
    if args:
        kw["args"] = args
    if case["events"]:
        kw["events"] = make_events(case, counter, args)
    rep = JAC_REPS[extra.pop("jac_rep", "C")]
    if case["jac"] == "callable":
        kw["jac"] = lambda *a: rep(jac(*a))
    elif case["jac"] == "constant":
        kw["jac"] = rep(const)
    kw.update(extra)
    t0, tf = unhexs(case["t_span"])
    return ivp.solve_ivp(f, (t0, tf), unhexs(case["y0"]), **kw)


class Out:
    def __init__(self, case):
        self.case = case
        self.viol = []
        self.tags = []
        self.validated = 0
        self.fp = None

    def v(self, check, msg, **sig):
        s = {"check": check, "method": self.case["method"]}
        s.update({k: str(x) for k, x in sig.items()})
        self.viol.append({"key": self.case["id"], "sig": s, "msg": msg,
                          "case": {"key": self.case["id"], "problem": self.case["problem"], "method": self.case["method"], "jac": self.case["jac"],
                                   "events": self.case["events"], "pattern": self.case["pattern"]}})

    def json(self, events):
        return {"fp": self.fp, "events": events, "validated": self.validated, "violations": self.viol, "tags": self.tags,
                "sample": {"key": self.case["id"], "method": self.case["method"], "problem": self.case["problem"], "jac": self.case["jac"], "pattern": self.case["pattern"]}}


def same_bits(a, b):
    a = np.ascontiguousarray(np.asarray(a, dtype=np.float64))
    b = np.ascontiguousarray(np.asarray(b, dtype=np.float64))
    return a.shape == b.shape and np.array_equal(a.view(np.uint64), b.view(np.uint64))


def compare(case, out, res, counter):
    r = case["rust"]
    rt = np.array(unhexs(r["t"]))
    ry = np.array([unhexs(row) for row in r["y"]]).reshape(len(r["t"]), len(case["y0"]))
    if not isinstance(res.t, np.ndarray) or res.t.dtype != np.float64 or res.t.ndim != 1:
        out.v("layout", "t is not a 1-D float64 array: %r" % (getattr(res.t, "shape", None),))
    elif not same_bits(res.t, rt):
        out.v("t-bits", "t differs from the Rust solution (%d vs %d samples)" % (len(res.t), len(rt)))
    n = len(case["y0"])
    if not isinstance(res.y, np.ndarray) or res.y.shape != (n, len(rt)):
        out.v("layout", "y has shape %r, expected (n, m) = %r" % (getattr(res.y, "shape", None), (n, len(rt))))
    elif not same_bits(res.y, ry.T):
        out.v("y-bits", "y[i, j] differs from the Rust y[j][i]")
    else:
        out.tags.append("bitwise-equal")
    out.validated += 2
    if res.status != r["status"] or res.success != (r["status"] >= 0) or not isinstance(res.success, bool):
        out.v("status", "status/success = %r/%r, Rust status %s maps to %d" % (res.status, res.success, r["status_name"], r["status"]))
    out.tags.append("status-%d" % r["status"])
    if res.message != r["status_name"]:
        out.v("status", "message %r, Rust status %s" % (res.message, r["status_name"]))
    want_njev = 0 if case["jac"] == "constant" else r["njev"]
    if (res.nfev, res.njev, res.nlu) != (r["nfev"], want_njev, r["nlu"]):
        out.v("counters", "(nfev, njev, nlu) = %r, expected %r" % ((res.nfev, res.njev, res.nlu), (r["nfev"], want_njev, r["nlu"])))
    if case["jac"] == "constant":
        out.tags.append("constant-jac")
    if case["jac"] == "none" and counter.n != r["rhs_calls"]:
        out.v("rhs-calls", "the Python right-hand side was called %d times, the Rust one %d times" % (counter.n, r["rhs_calls"]))
    # the result object answers res[key] like res.key
    for k in ("t", "y", "status", "success", "message", "nfev", "njev", "nlu", "t_events", "y_events"):
        try:
            byk, bya = res[k], getattr(res, k)
        except BaseException as e:
            out.v("getitem", "res[%r] / res.%s raised %s: %s" % (k, k, type(e).__name__, str(e)[:200]), key=k)
            continue
        def same(a, b):
            if isinstance(a, np.ndarray) or isinstance(b, np.ndarray):
                return isinstance(a, np.ndarray) and isinstance(b, np.ndarray) and same_bits(a, b)
            if isinstance(a, (list, tuple)) or isinstance(b, (list, tuple)):
                return isinstance(a, (list, tuple)) and isinstance(b, (list, tuple)) and len(a) == len(b) and all(same(x, y) for x, y in zip(a, b))
            return type(a) is type(b) and a == b
        if not same(byk, bya):
            out.v("getitem", "res[%r] = %r but res.%s = %r" % (k, byk, k, bya), key=k)
    out.validated += 1
    if counter.bad_args:
        out.v("args", "extra args did not reach a callable unchanged (%d calls)" % counter.bad_args)
    if case["args"]:
        out.tags.append("args")
    # events
    if case["events"]:
        if not isinstance(res.t_events, list) or not isinstance(res.y_events, list) or len(res.t_events) != len(case["events"]) or len(res.y_events) != len(case["events"]):
            out.v("event-layout", "t_events / y_events are not lists with one entry per event function")
        else:
            for i in range(len(case["events"])):
                te = np.array(unhexs(r["t_events"][i]))
                if not same_bits(res.t_events[i], te) or np.asarray(res.t_events[i]).ndim != 1:
                    out.v("event-bits", "t_events[%d] differs from Rust (%r vs %r)" % (i, np.asarray(res.t_events[i]).tolist(), te.tolist()))
                ye = np.array([unhexs(row) for row in r["y_events"][i]]).reshape(len(te), n)
                got = np.asarray(res.y_events[i], dtype=np.float64)
                if len(te) == 0:
                    if got.size != 0:
                        out.v("event-layout", "y_events[%d] should be empty" % i)
                elif got.shape != (len(te), n) or not same_bits(got, ye):
                    out.v("event-bits", "y_events[%d] has shape %r / differs from Rust (expected (k, n) = %r)" % (i, got.shape, (len(te), n)))
            out.validated += 1
    else:
        if res.t_events is not None or res.y_events is not None:
            out.v("event-layout", "t_events / y_events should be None without events")
    # dense output
    if case["dense_output"]:
        if res.sol is None:
            out.v("sol", "dense_output requested but sol is None")
        else:
            ts, ys = [], []
            for sv in r["sol"]:
                if sv["y"] is None:
                    continue
                t = unhex(sv["t"])
                want = np.array(unhexs(sv["y"]))
                got = res.sol(t)
                if not isinstance(got, np.ndarray) or got.shape != (n,) or not same_bits(got, want):
                    out.v("sol", "sol(%r) has shape %r / differs from the Rust continuous solution" % (t, getattr(got, "shape", None)))
                ts.append(t)
                ys.append(want)
                lo, hi = sorted(unhexs(case["t_span"]))
                if t < lo or t > hi:
                    out.tags.append("sol-outside-span")
            if ts:
                got = res.sol(np.array(ts))
                if not isinstance(got, np.ndarray) or got.shape != (n, len(ts)) or not same_bits(got, np.array(ys).T):
                    out.v("sol", "sol(array) has shape %r, expected (n, k) = %r, or differs from Rust" % (getattr(got, "shape", None), (n, len(ts))))
                got = res.sol(list(ts))
                if got.shape != (n, len(ts)):
                    out.v("sol", "sol(list) has shape %r" % (got.shape,))
            out.validated += 1
    elif res.sol is not None:
        out.v("sol", "dense_output not requested but sol is not None")
    out.fp = "%032x" % (hash((case["id"], res.t.tobytes(), res.y.tobytes())) & ((1 << 128) - 1))


def groups_lower_bound(n, mask):
    """columns sharing a row must be in different groups: max number of nonzeros in a row"""
    return max([sum((mask >> (r * n + c)) & 1 for c in range(n)) for r in range(n)] + [0])


def greedy_groups(n, mask):
    col_rows = [[r for r in range(n) if (mask >> (r * n + c)) & 1] for c in range(n)]
    groups = []
    for c in range(n):
        for g in groups:
            if not (g & set(col_rows[c])):
                g |= set(col_rows[c])
                break
        else:
            groups.append(set(col_rows[c]))
    return len(groups)


def run_case(case):
    out = Out(case)
    counter = Counter()
    if case["rust"] is None:
        out.v("rust-error", "the Rust API itself failed on this case: %s" % case["rust_error"])
        return out.json(0)
    try:
        res = solve(case, counter)
    except BaseException as e:  # pyo3 panics surface as BaseException subclasses
        out.v("exception", "ivp.solve_ivp raised %s: %s" % (type(e).__name__, str(e)[:300]))
        return out.json(counter.n)
    compare(case, out, res, counter)
    calls = counter.n
    # a constant or callable Jacobian is honoured whatever array layout it arrives in
    if case["jac"] in ("callable", "constant") and len(case["y0"]) >= 2:
        for name in JAC_REPS:
            if name == "C":
                continue
            c3 = Counter()
            try:
                r3 = solve(case, c3, jac_rep=name)
            except BaseException as e:
                out.v("jac-representation", "ivp.solve_ivp raised %s with the Jacobian given as %s: %s" % (type(e).__name__, name, str(e)[:200]), rep=name)
                continue
            calls += c3.n
            if not (same_bits(r3.t, res.t) and same_bits(r3.y, res.y)) or (r3.nfev, r3.njev, r3.nlu, r3.status) != (res.nfev, res.njev, res.nlu, res.status):
                out.v("jac-representation", "the same Jacobian given as %s changes the result: %d vs %d samples, (nfev, njev, nlu) %r vs %r, y_end %r vs %r" % (
                    name, len(r3.t), len(res.t), (r3.nfev, r3.njev, r3.nlu), (res.nfev, res.njev, res.nlu), r3.y[:, -1].tolist(), res.y[:, -1].tolist()), rep=name)
            out.validated += 1
        out.tags.append("jac-representations")
    # a constant Jacobian is read at every call: the same array object, changed in place between two calls, gives
    # what a fresh array with the new contents gives
    if case["jac"] == "constant" and len(case["y0"]) >= 2:
        _, _, const, _ = make_problem(case, Counter())
        A = np.array(const, dtype=float)
        try:
            r1 = solve(case, Counter(), jac=A)
            A *= 0.5
            r2 = solve(case, Counter(), jac=A)
            r3 = solve(case, Counter(), jac=A.copy())
            if not (same_bits(r1.t, res.t) and same_bits(r1.y, res.y)):
                out.v("jac-object-reuse", "a constant Jacobian passed as a named array object changes the result")
            if not (same_bits(r2.t, r3.t) and same_bits(r2.y, r3.y)) or (r2.nfev, r2.nlu) != (r3.nfev, r3.nlu):
                out.v("jac-object-reuse", "the same array object with new contents gives a different run than a fresh array with those contents: (nfev, nlu) %r vs %r, %d vs %d samples" % ((r2.nfev, r2.nlu), (r3.nfev, r3.nlu), len(r2.t), len(r3.t)))
            out.validated += 1
            out.tags.append("jac-object-reuse")
        except BaseException as e:
            out.v("jac-object-reuse", "ivp.solve_ivp raised %s when a constant Jacobian array was reused: %s" % (type(e).__name__, str(e)[:200]))
    if case["pattern"] is not None:
        n, mask = case["pattern"]["n"], case["pattern"]["mask"]
        P = np.array([[(mask >> (r * n + c)) & 1 for c in range(n)] for r in range(n)], dtype=float)
        c2 = Counter()
        try:
            res2 = solve(case, c2, jac_sparsity=sp.csc_matrix(P))
        except BaseException as e:
            out.v("exception", "ivp.solve_ivp with jac_sparsity raised %s: %s" % (type(e).__name__, str(e)[:300]))
            return out.json(calls)
        calls += c2.n
        if not (same_bits(res2.t, res.t) and same_bits(res2.y, res.y)) or (res2.nfev, res2.njev, res2.status) != (res.nfev, res.njev, res.status):
            out.v("sparsity-changes-result", "jac_sparsity changes the result (pattern %s): %d vs %d samples, y_end %r vs %r" % (P.astype(int).tolist(), len(res2.t), len(res.t), res2.y[:, -1].tolist(), res.y[:, -1].tolist()), n=n)
        out.tags.append("sparsity-pattern")
        # a Jacobian given by the caller is honoured also when a sparsity pattern is given with it: the run with both
        # is the run with the Jacobian alone (the pattern problem is linear: its Jacobian is the coefficient matrix)
        if n <= 3:
            A = np.array([[(((r * 3 + c) % 5 + 1) * 0.25 * (-1.0 if r == c else 1.0)) if (mask >> (r * n + c)) & 1 else 0.0 for c in range(n)] for r in range(n)])
            try:
                cj, cb = Counter(), Counter()
                rj = solve(case, cj, jac=A.copy())
                rb = solve(case, cb, jac=A.copy(), jac_sparsity=sp.csc_matrix(P))
                rc = solve(case, Counter(), jac=(lambda t, y, one: A.copy()), jac_sparsity=sp.csc_matrix(P))
                for (lab, r2, c2b) in (("constant", rb, cb), ("callable", rc, None)):
                    if not (same_bits(r2.t, rj.t) and same_bits(r2.y, rj.y)) or (r2.nfev, r2.nlu) != (rj.nfev, rj.nlu):
                        out.v("jac-with-sparsity", "a %s Jacobian given together with jac_sparsity is not honoured (pattern %s): (nfev, nlu) %r vs %r with the Jacobian alone, %d vs %d samples" % (lab, P.astype(int).tolist(), (r2.nfev, r2.nlu), (rj.nfev, rj.nlu), len(r2.t), len(rj.t)), n=n)
                if cb.n != cj.n:
                    out.v("jac-with-sparsity", "with a constant Jacobian and jac_sparsity the right-hand side is called %d times, with the Jacobian alone %d times" % (cb.n, cj.n), n=n)
                out.validated += 2
                out.tags.append("jac-with-sparsity")
            except BaseException as e:
                out.v("jac-with-sparsity", "ivp.solve_ivp raised %s when jac and jac_sparsity were given together: %s" % (type(e).__name__, str(e)[:200]), n=n)
        if res.njev > 0:
            per_dense = (counter.n - res.nfev) / res.njev
            per_sparse = (c2.n - res2.nfev) / res2.njev
            if per_dense != n + 1:
                out.v("fd-calls", "dense finite differences used %.2f RHS calls per Jacobian, expected n+1 = %d" % (per_dense, n + 1))
            lb = groups_lower_bound(n, mask)
            if per_sparse < lb + 1 or per_sparse > n + 1 or per_sparse != int(per_sparse):
                out.v("sparsity-grouping", "with jac_sparsity %.2f RHS calls per Jacobian; at least %d are needed for pattern %s (columns sharing a row must not be merged) and at most %d make sense" % (per_sparse, lb + 1, P.astype(int).tolist(), n + 1), n=n)
            if greedy_groups(n, mask) < n and per_sparse < n + 1:
                out.tags.append("sparsity-saves-evaluations")
            out.validated += 2
    return out.json(calls)


def main():
    global np, sp, ivp
    t0 = time.time()
    mod = build_extension()
    sys.path.insert(0, mod)
    import numpy as np
    import scipy.sparse as sp
    import ivp
    work = os.path.join(OUT, ".c20")
    os.makedirs(work, exist_ok=True)
    cases_file = os.path.join(work, "cases.json")
    env = dict(os.environ)
    p = subprocess.run([BINARY, "C20", "--emit", cases_file], env=env)
    if p.returncode != 0:
        print("MACHINERY-ERROR: the harness could not emit the case list")
        sys.exit(2)
    data = json.load(open(cases_file))
    only = None
    if "--replay" in sys.argv:
        only = json.load(open(sys.argv[sys.argv.index("--replay") + 1]))["case"]["key"]
    results, errors = [], []
    for case in data["cases"]:
        if only is not None and case["id"] != only:
            continue
        try:
            results.append(run_case(case))
        except Exception:
            errors.append("python side crashed on %s: %s" % (case["id"], traceback.format_exc()[-600:]))
    if only is not None:
        bad = [v for r in results for v in r["violations"]]
        for v in bad:
            print("replay: VIOLATED [%s]: %s" % (v["sig"]["check"], v["msg"]))
        if not bad:
            print("replay: property holds on this case")
        sys.exit(1 if bad else 0)
    res_file = os.path.join(work, "results.json")
    json.dump({"cases": results, "machinery_errors": errors,
               "python": {"version": sys.version.split()[0], "numpy": np.__version__, "cases": len(results), "wall_s": round(time.time() - t0, 1)}}, open(res_file, "w"))
    p = subprocess.run([BINARY, "C20", "--absorb", res_file], env=env)
    sys.exit(p.returncode)


if __name__ == "__main__":
    main()
