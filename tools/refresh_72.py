#!/usr/bin/env python3
"""Rewrite the quick / thorough columns of the table in DESIGN.md section 7.2 (and only there) from
evidence/<id>.json (last quick run) and a thorough sweep log (argument 1)."""
import re, json, sys
log = open(sys.argv[1]).read()
th = {}
for m in re.finditer(r'(C\d\d) tier=thorough evaluations=(\d+).*?wall=([\d.]+)s', log):
    th[m.group(1)] = [int(m.group(2)), float(m.group(3))]
for m in re.finditer(r'(C\d\d) wall=([\d.]+)s', log):
    if m.group(1) in th:
        th[m.group(1)][1] = float(m.group(2))
q = {}
for i in range(1, 21):
    c = f'C{i:02d}'
    e = json.load(open(f'/verif/evidence/{c}.json'))
    q[c] = (e.get('evaluations'), e.get('wall_s'))
def fmt(n):
    if n >= 1e6: return f'{n/1e6:.1f} M'.replace('.0 M', ' M')
    if n >= 1e4: return f'{n/1e3:.0f} k'
    return f'{n:,}'.replace(',', ' ')
units = {'C01': 'ladders', 'C02': 'evaluations', 'C03': 'runs', 'C04': 'fault sets', 'C05': 'runs', 'C06': 'runs, every step', 'C07': 'evaluations', 'C10': 'runs', 'C11': 'runs',
         'C12': 'evaluations (lattice points × subsets, 14 400 call sequences)', 'C13': 'pairs', 'C14': 'ladders', 'C15': 'configurations', 'C16': 'systems', 'C17': 'transitions', 'C18': 'runs', 'C19': 'histories', 'C20': 'cases'}
p = '/verif/DESIGN.md'
s = open(p).read()
a = s.index('### 7.2 Per check'); b = s.index('### 7.3 ', a)
lines = s[a:b].split('\n')
for k, l in enumerate(lines):
    m = re.match(r'\| (C\d\d)(, C09)? \| ([^|]*) \| ([^|]*) \| (.*)$', l)
    if not m: continue
    c = m.group(1)
    if c not in q or q[c][0] is None or c not in th: continue
    if c == 'C08':
        qq = f"{fmt(q['C08'][0])} each ({q['C08'][1]:.1f} / {q['C09'][1]:.1f} s)"
        tt = f"{fmt(th['C08'][0])} each ({th['C08'][1]:.0f} / {th['C09'][1]:.0f} s)"
    else:
        qq = f"{fmt(q[c][0])} {units.get(c, 'evaluations')} ({q[c][1]:.1f} s)"
        tt = f"{fmt(th[c][0])} ({th[c][1]:.0f} s)"
    if c == 'C19': qq = qq.replace('histories', 'histories, d ≤ 2'); tt = tt.replace(' (', ', d ≤ 3 (')
    if c == 'C20': qq += ' + building the extension'
    lines[k] = f"| {m.group(1)}{m.group(2) or ''} | {qq} | {tt} | {m.group(5)}"
s = s[:a] + '\n'.join(lines) + s[b:]
open(p, 'w').write(s)
print('section 7.2 refreshed')
