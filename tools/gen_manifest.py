#!/usr/bin/env python3
"""Generates /verif/MANIFEST.json from the table below (kept in one place so that it is always valid)."""
import json, os
V = os.path.dirname(os.path.dirname(os.path.abspath(__file__)))
ALL = ["C%02d" % i for i in range(1, 21)]

# id -> (category, technique, level text, level note, design ref, engine)
CHECKS = {
 "C01": ("model_checking", "exhaustive lattice of closed-form problems (warps, mixings, directions, scales) x tolerance ladder x tolerance mode x t_eval on the real solve_ivp, against closed forms and an independent reference integrator",
         "Every ladder (method, problem variant, direction, initial-state scale, tolerance mode, t_eval) is run at rtol 1e-3..1e-11; every component of every returned sample is compared with the closed-form solution against K*kappa*naccpt*(atol+rtol*|y|) with the conditioning kappa computed from the closed-form flow; along each ladder tightening never increases the error more than 5x; RK4's global order is measured on a step ladder; thorough adds dissipative polynomial fields against an extrapolated fixed-step reference sharing no code with ivp.",
         "K=50; |y| read as max norm for coupled systems; kappa>20 skipped and counted; rounding floor 64 eps scale sqrt(nfev); 'all smooth problems' is represented by the stated finite lattice only", "DESIGN.md §3 C01", "E1"),
 "C02": ("model_checking", "tableau extraction from the running code by impulse probing (unit-vector environment answers at every stage call) + order conditions over ALL rooted trees up to p; model bound to code by predicting real nonlinear steps",
         "The coefficients (A,b,c) the solvers really apply are read off the arguments of successive RHS calls; the order condition of every rooted tree of order <= p (8/4/17/200/17 conditions) is evaluated on them, Radau's stability function is compared with the (2,3) Pade approximant and with real one-step runs, the real estimator is exercised on every tree of order <= q+1, and the extracted model must predict real steps on 6 nonlinear problems (trace validation); local-error ladders and the step-count law tol^(-1/q) corroborate end to end.",
         "tolerance 1e-12*scale on residuals (a coefficient perturbed below that is not an order violation); 'all smooth right-hand sides' is covered through the complete finite set of rooted trees, the asymptotic statements through the stated finite ladders", "DESIGN.md §3 C02", "E2"),
 "C07": ("model_checking", "dense weights b_j(theta) extracted from the real interpolant by impulse probing + dense order conditions over ALL rooted trees up to q at 9 theta nodes; observed interior-order ladders",
         "For RK4/RK23/DOPRI5/DOP853/Radau the interpolant is linear in the stage answers, so evaluating it after unit-impulse answers yields b_j(theta); sum_j b_j(theta) Phi_j(t) = theta^rho/gamma is checked for every tree of order <= q (3,3,4,7,3) and both step signs; single-step interior error ladders and BDF whole-run comparisons corroborate.",
         "tolerance 1e-12*scale; BDF has no tableau and is judged by interior vs endpoint error", "DESIGN.md §3 C07", "E2"),
 "C03": ("model_checking", "exhaustive configuration lattice on the real solve_ivp with an interval/status trace monitor",
         "The full product method x direction x x0 x span (1e-12..1e9, inf) x first_step x max_step x t_eval x dense x events x problem is run on the real code; a monitor checks ordering, range of every interface call, status <=> coverage and shapes on every execution. Right level: the landing logic fails only on numeric coincidences (first_step >= span, max_step dividing the span, sub-1e-12 spans) which the lattice places by construction.",
         "trusts the instrumented IVP to see every ode/events/jac call; 'to rounding' = 8 ulp (1+n/64); validity predicate of DESIGN §2.4", "DESIGN.md §3 C03", "E1"),
 "C04": ("fault_enumeration", "deviation-bounded fault enumeration at every RHS call index, executions in watched child processes",
         "For every base configuration (method x problem incl. finite-time blow-up, stiff decay, discontinuities x direction x max_steps x min_step) every RHS call index of the nominal run is a decision point whose answer is replaced by NaN/+inf/-inf/1e300 once or persistently; all executions with <= d deviations (d=1 quick, 2 thorough) run to completion under a call budget and a wall-clock watchdog; the C03 prefix monitor and the finiteness clause are evaluated on each.",
         "a run exceeding 10^6 RHS calls or stalling 20 s is a verdict (no return); RK4 exempt from finiteness as the property says", "DESIGN.md §3 C04", "E2"),
 "C05": ("model_checking", "two-pass exhaustive placement enumeration of requested times relative to the accepted-step grid, against a reference model of t_eval",
         "Pass 1 learns the accepted grid of the real run; pass 2 runs every non-decreasing tuple (length <=2 quick, <=3 thorough) of requested times over a placement alphabet anchored on step boundaries (exact, ±1e-13, ±0.9e-12, ±1.1e-12, ±1e-9, interior) for every method x direction x problem x stop cause (none, events, terminal event, step budget), with dense_output off and on; a reference model decides which times must be reported and with which values.",
         "the plain run's grid is the re-run's grid (C12, re-asserted by bitwise comparison of values with the plain interpolant); requested times within 1.2e-12 of the stopping point are not judged", "DESIGN.md §3 C05", "E1"),
 "C08": ("model_checking", "two-pass exhaustive placement enumeration of event roots relative to the accepted-step grid with a per-event oracle",
         "Every event configuration of the alphabet (functions of t and y, scales 1 and 1e-6, three direction filters, roots at and next to step boundaries, several functions firing in one step in both orders and coincident) is run for every method x direction x problem x tolerance; each reported event is checked for bracket, y_e = sol(t_e), |g| at root-finder accuracy, direction, order and shapes.",
         "Lipschitz bounds of the event alphabet are computed from the run's own samples; direction is judged at the bracketing accepted endpoints", "DESIGN.md §3 C08/C09", "E1"),
 "C09": ("model_checking", "same exhaustive event lattice as C08 observed at consecutive accepted endpoints (sign pattern <=> events)",
         "For every run of the lattice the harness evaluates each event function at all accepted endpoints: strict opposite signs in the configured direction <=> exactly one event in that step, equal strict signs => none; ±(t-c) must give exactly one event within 2e-11 of c.",
         "exact zeros at endpoints are excluded from the verdict as the property allows; events at a grid point are attributed to the adjacent step that expects one", "DESIGN.md §3 C08/C09", "E1"),
 "C10": ("model_checking", "exhaustive differential enumeration: each event configuration with and without the terminal flag on each function, counts 1..3, t_eval and dense on/off",
         "The run with a terminal flag must stop exactly at the count-th event of the plain run: status, final sample = event point bitwise, nothing later, earlier events kept, everything before the stop bit-identical to the plain run, sol_span covering the last time; if the count is not reached the runs are identical.",
         "events of other functions at exactly the stopping time may be kept or dropped", "DESIGN.md §3 C10", "E1"),
 "C06": ("model_checking", "exhaustive configuration lattice; every accepted step of every run checked through the low-level SolOut and through Solution::sol",
         "For the full product method x direction x problem x tolerance x first_step (none/small/large forcing rejections) x max_step, each accepted step's interpolant is evaluated at both ends inside the callback; for solve_ivp runs sol is evaluated at every stored sample, across sol_span, on both sides of every interior boundary, clearly outside, through sol_many, with a terminal event, with dense_output off, and for the zero-length run.",
         "endpoint identities to 64 eps(1+|y|); BDF runs are required to contain order raises and drops (vacuity guard)", "DESIGN.md §3 C06", "E1"),
 "C11": ("model_checking", "exhaustive configuration lattice plus EVERY step budget 1..nstep+2 with bitwise prefix comparison",
         "Accepted step lengths (from low-level callbacks) against max_step for automatic and given initial steps, the first trial step read off the RHS interface against first_step (either sign), the first interval when accepted; and for each configuration every max_steps value from 1 to nstep_full+2: nstep <= b+1, status, bit-identical prefix of the unbudgeted run.",
         "step lengths are differences of abscissae (slack 4 ulp); the final step may be stretched by 1%", "DESIGN.md §3 C11", "E1"),
 "C12": ("model_checking", "exhaustive differential enumeration of all 8 subsets of {t_eval, dense_output, non-terminal events} per lattice point, each run twice",
         "The 128-bit fingerprint of every non-Jacobian RHS call (time and state bits), the statistics, the accepted steps/states and the final state of each subset run are compared with the plain run, and each run with its repetition.",
         "the RHS call log is the complete record of a deterministic integration", "DESIGN.md §3 C12", "E1"),
 "C13": ("model_checking", "exhaustive differential enumeration of symmetry generators (time reflection, 2^k scaling, scalar vs vector tolerance, m copies) over a configuration lattice",
         "Each generator is applied to every lattice point (six methods, problems, tolerances, spans, Jacobian sources, events, initial-step modes) and the transformed run is compared with the transformed original: bitwise where IEEE arithmetic makes the symmetry exact, rounding/tolerance level otherwise; copies are compared on the accepted-step grids seen by the low-level callbacks.",
         "copies: first accepted steps to 1e-6, the rest to 1e-5 (explicit) or 2% (Radau/BDF, whose discrete Newton decisions can flip on rounding)", "DESIGN.md §3 C13", "E1"),
 "C14": ("model_checking", "exhaustive stiffness/tolerance ladders on the real Radau and BDF with closed-form and reference oracles, plus a per-step monitor binding accepted Radau steps to the extracted collocation tableau",
         "Every (method, family, tolerance, Jacobian source) is run over the whole stiffness ladder k=1e2..1e10 (Prothero-Robinson, linear systems n=1..8 with 1..n-1 fast modes, kinetics chains) and the nonlinear problems (Robertson, Van der Pol mu=10..1000) over a tolerance ladder: Success, accuracy, step count and work bounded along the ladder, linear invariants; in addition every accepted Radau step of the nonlinear runs must solve the stage equations of the extracted tableau to tolerance (one exact Newton correction computed by the harness).",
         "invariants to rounding with the user Jacobian, to tolerance with the finite-difference one; nonlinear reference = Radau at rtol 1e-11", "DESIGN.md §3 C14", "E1"),
 "C15": ("model_checking", "exhaustive differential enumeration of dimension x mass pattern x Jacobian band pattern x storage pairs on the real Radau/BDF",
         "For every (n, mass pattern, Jacobian band): all storage pairs holding the same entries must give bitwise identical trajectories; M y'=f is compared with y'=M^-1 f; the algebraic residual of the index-1 DAE is checked at every sample; finite-difference vs analytic Jacobian; and with no mass override every mass storage (asymmetric bands included) and the low-level builder defaults must reproduce y'=f bitwise.",
         "tolerance-scale comparisons use 50*naccpt*(atol+rtol*|y|); mass matrices are supported by Radau only (BDF is checked for Jacobian storages)", "DESIGN.md §3 C15", "E1"),
 "C16": ("model_checking", "exhaustive enumeration of all small-alphabet matrices (real and complex, n<=3) plus enumerated structured families to 12x12, residuals in double-double",
         "Every matrix over the alphabet is factorised and solved on the real lu_decomp/lin_solve(_complex); exact integer determinants decide singular vs nonsingular; residual bound, multiplier bound, error kinds and immutability of the factors are checked on every case.",
         "backward-stability constant c = 8*rho (growth factor read off the factors, asserted <= 2^(n-1)); complex multipliers bounded by sqrt(2) because the port pivots on |re|+|im|", "DESIGN.md §3 C16", "E1"),
 "C18": ("model_checking", "exhaustive configuration lattice with a counting environment (instrumented IVP and SolOut)",
         "nfev/njev/naccpt/nstep of every run of the lattice (six methods, stiff and non-stiff problems, tolerances, both directions, user/finite-difference Jacobian, solve_ivp and low-level builders, early/late interrupts, ModifiedSolution, terminal events) are compared with the calls actually observed at the interface.",
         "the instrumented IVP tags RHS calls made inside the default finite-difference jac; expected naccpt under a terminal event is derived from the plain run's step grid (C12)", "DESIGN.md §3 C18", "E1"),
 "C17": ("model_checking", "explicit-state search (stateright BFS+DFS) of the real Matrix against a dense reference model",
         "All reachable (matrix, reference) states from every public constructor under writes, scalar ops and binary ops up to the stated depth for sizes 1..8 are visited; every transition compares all entries with a dense reference. Right level: storage/band index arithmetic fails only for particular (ml,mu,size,operand) combinations, which the search enumerates completely.",
         "trusts stateright's visited-set search (cross-checked by running BFS and DFS and comparing unique-state counts) and the dense reference model in harness/src/c17.rs", "DESIGN.md §3 C17", "E3"),
 "C19": ("model_checking", "deviation-bounded exploration of SolOut answer histories (stateless DFS over callback indices) with a protocol automaton",
         "The default answer Continue is deviated to Interrupt / ModifiedSolution(unchanged) / ModifiedSolution(doubled) at every callback index of the actual run of each of the six low-level solvers, three problems, both directions; all histories with <= 2 (quick) / 3 (thorough) deviations are executed and checked against the protocol automaton and the all-Continue baseline (bit-identical no-op, exact doubling where IEEE scaling is exact).",
         "exact doubling demanded only for explicit methods on the linear homogeneous problem with atol=0; the environment is sealed at Interrupt so any later ode/jac/events call is counted", "DESIGN.md §3 C19", "E2"),
 "C20": ("model_checking", "exhaustive differential enumeration: every case is run through the Rust API and through the built Python extension and compared bit for bit; every sparsity pattern up to 3x3 (4x4 thorough) plus all unions of <= 3 diagonals for n=5,6,8",
         "The harness emits the case list (six methods x problems x option sets x Jacobian sources) with the Rust results as hex-encoded doubles; py/c20.py replays each case through ivp.solve_ivp of the extension module built from the working tree with Python callables performing the same floating-point operations, and compares t, y layout (n,m), events, status mapping, counters, sol(t) inside/outside the span, args propagation, constant vs callable Jacobian; for every enumerated sparsity pattern the result with jac_sparsity must be bitwise equal to the one without (and to Rust) and the RHS calls per Jacobian must lie between max-row-count+1 and n+1.",
         "trusts CPython float arithmetic (IEEE double, no contraction) and the tooling venv's numpy/scipy; right-hand sides use only + - *", "DESIGN.md §3 C20", "E5"),
}
PENDING_REASON = "check not yet implemented in this revision of /verif (see DESIGN.md §6 for the order of work); not claimed until its machinery exists"

def main():
    checks = []
    for pid in ALL:
        if pid not in CHECKS: continue
        cat, tech, text, note, ref, eng = CHECKS[pid]
        checks.append({
            "property_id": pid,
            "quick_cmd": "./check %s --tier quick" % pid,
            "thorough_cmd": "./check %s --tier thorough" % pid,
            "evidence_file": "/verif/evidence/%s.json" % pid,
            "replay_cmd_template": "./check %s --replay {path}" % pid,
            "engine": eng,
            "level_claimed": {"category": cat, "text": text, "design_ref": ref},
            "level_note": note,
            "technique": tech,
        })
    m = {
        "version": 1,
        "setup_cmd": "cd /verif/harness && CARGO_NET_OFFLINE=true CARGO_TARGET_DIR=/verif/.target cargo build --release --offline && cd /repo && CARGO_NET_OFFLINE=true CARGO_TARGET_DIR=/verif/.target-py PYO3_PYTHON=/opt/veriftools/pyvenv/bin/python cargo build --offline --features python --lib",
        "hooks": {
            "guard": "--cfg ivp_verif",
            "enable": "no hooks are needed: every observation point is reachable through the public API (IVP, SolOut, solver builders, Solution, Matrix, lu_decomp/lin_solve, the Python module); checks build /repo as a plain path dependency",
            "baseline_off_cmd": "cd /repo && cargo test --workspace --no-fail-fast --offline",
            "source_commits": [],
            "add_only": True,
        },
        "engines": [
            {"name": "E1", "path": "harness/src/util.rs", "serves_properties": [], "kind_free_text": "exhaustive mixed-radix lattice enumerator over configurations of the real API with trace monitors"},
            {"name": "E2", "path": "harness/src/env.rs", "serves_properties": [], "kind_free_text": "deviation-bounded exploration of environment answers (RHS faults, SolOut flags, unit impulses) at every interface-call index"},
            {"name": "E5", "path": "py/c20.py", "serves_properties": ["C20"], "kind_free_text": "binding differential: Rust results (hex doubles) vs the Python extension module built from the working tree"},
            {"name": "E4", "path": "harness/src/tableau.rs", "serves_properties": ["C02", "C07"], "kind_free_text": "rooted-tree enumeration and (dense) order conditions evaluated on the tableau extracted from the running code"},
            {"name": "E3", "path": "harness/src/c17.rs", "serves_properties": ["C17"], "kind_free_text": "stateright explicit-state BFS/DFS over the real ivp::Matrix with a dense reference model"},
        ],
        "checks": checks,
        "not_applicable": [{"property_id": p, "reason": PENDING_REASON} for p in ALL if p not in CHECKS],
        "notes": "All checks are bounded exhaustive enumerations run on the real code; see DESIGN.md. Exit 2 = machinery failure, never a verdict.",
    }
    for e in m["engines"]:
        if e["name"] in ("E1", "E2"):
            e["serves_properties"] = [c["property_id"] for c in checks if c["engine"] == e["name"]]
    json.dump(m, open(os.path.join(V, "MANIFEST.json"), "w"), indent=1)
    print("wrote MANIFEST.json with", len(checks), "checks,", len(m["not_applicable"]), "not claimed")
main()
