#!/bin/bash
# re-run every kept seeded change against the checks that are expected to catch it
cd "$(dirname "$0")/.."
for d in seeded/*/; do
  n=$(basename $d)
  checks=$(python3 -c "
import json
m=json.load(open('seeded/$n/meta.json'))
print(','.join(m.get('detected_by') or [m['property']]))")
  python3 tools/seed.py recheck $n --checks $checks 2>&1 | grep "^check" | tr '\n' ' '
  echo " <- $n"
done
