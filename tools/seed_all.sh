#!/bin/bash
# re-run every kept seeded change against the checks that are expected to catch it
# usage: tools/seed_all.sh [shard nshards]   (shards can run side by side: every change has its own scratch tree)
cd "$(dirname "$0")/.."
shard=${1:-0}; nsh=${2:-1}; k=0
for d in seeded/*/; do
  k=$((k+1))
  if [ $((k % nsh)) -ne "$shard" ]; then continue; fi
  n=$(basename $d)
  checks=$(python3 -c "
import json
m=json.load(open('seeded/$n/meta.json'))
print(','.join(m.get('detected_by') or [m['property']]))")
  python3 tools/seed.py recheck $n --checks $checks 2>&1 | grep "^check" | tr '\n' ' '
  echo " <- $n"
done
