#!/usr/bin/env python3
"""Confirm a seeded change and run checks against it.

  tools/seed.py confirm <name> [--src /tmp/seed/out/<name>] [--checks C03,C05] [--tier quick]
  tools/seed.py recheck <name> [--checks ...]      (uses /verif/seeded/<name>/patch.diff)

confirm: scratch worktree of /repo HEAD (outside /repo and /verif); the patch must apply, the
repository's own suite must still pass with it, the demonstration must fail with it and pass
without it.  Then the named checks are run against the patched scratch tree (VERIF_REPO) and
their exit codes recorded.  The change is kept as /verif/seeded/<name>/ only if confirmed.
Everything under /tmp is removed afterwards.
"""
import json, os, shutil, subprocess, sys, time

VERIF = os.path.dirname(os.path.dirname(os.path.abspath(__file__)))
ENV = dict(os.environ, CARGO_NET_OFFLINE="true")


def sh(cmd, cwd=None, env=None, timeout=3600):
    p = subprocess.run(cmd, cwd=cwd, env=env or ENV, shell=isinstance(cmd, str), stdout=subprocess.PIPE,
                       stderr=subprocess.STDOUT, text=True, timeout=timeout)
    return p.returncode, p.stdout


def suite(wt, target):
    rc, out = sh("cargo test --workspace --no-fail-fast --offline 2>&1", cwd=wt, env=dict(ENV, CARGO_TARGET_DIR=target))
    passed = sum(int(l.split("ok. ")[1].split(" passed")[0]) for l in out.splitlines() if l.startswith("test result: ok."))
    failed = [l for l in out.splitlines() if l.startswith("test result: FAILED") or "error[" in l or "error: could not compile" in l]
    return rc == 0 and not failed, passed, out[-1500:]


def demo(wt, target):
    rc, out = sh("cargo test --offline --test seed_demo 2>&1", cwd=wt, env=dict(ENV, CARGO_TARGET_DIR=target))
    return rc == 0, out[-1200:]


def main():
    mode, name = sys.argv[1], sys.argv[2]
    args = sys.argv[3:]
    opt = {}
    i = 0
    while i < len(args):
        opt[args[i].lstrip("-")] = args[i + 1]
        i += 2
    owner = name.split("-")[0]
    checks = opt.get("checks", owner).split(",")
    tier = opt.get("tier", "quick")
    src = opt.get("src", "/tmp/seed/out/" + name) if mode == "confirm" else os.path.join(VERIF, "seeded", name)
    wt = "/tmp/seedchk/" + name
    target = "/tmp/seedchk/target-" + name
    os.makedirs("/tmp/seedchk", exist_ok=True)
    sh(["git", "-C", "/repo", "worktree", "remove", "--force", wt])
    shutil.rmtree(wt, ignore_errors=True)
    rc, out = sh(["git", "-C", "/repo", "worktree", "add", "-q", "--detach", wt, "HEAD"])
    assert rc == 0, out
    meta = {"name": name, "property": owner, "repo_head": sh(["git", "-C", "/repo", "rev-parse", "--short", "HEAD"])[1].strip()}
    try:
        patch = os.path.join(src, "patch.diff")
        rc, out = sh(["git", "apply", "--whitespace=nowarn", patch], cwd=wt)
        if rc != 0:
            rc, out = sh(["git", "apply", "--3way", "--whitespace=nowarn", patch], cwd=wt)
        meta["patch_applies"] = rc == 0
        if rc != 0:
            print("PATCH DOES NOT APPLY:", out)
            return finish(meta, name, src, False)
        if mode == "confirm":
            ok, passed, tail = suite(wt, target)
            meta["suite_passes_with_change"] = ok
            meta["suite_passed_tests"] = passed
            print("suite with change: ok=%s passed=%d" % (ok, passed))
            pydemo = os.path.exists(os.path.join(src, "demo.py"))
            run_demo = demo
            if pydemo:
                def run_demo(wt, target):
                    env = dict(ENV, CARGO_TARGET_DIR=target, PYO3_PYTHON="/opt/veriftools/pyvenv/bin/python")
                    rc, out = sh("cargo build --offline --features python --lib 2>&1", cwd=wt, env=env)
                    if rc != 0:
                        return False, out[-1200:]
                    mod = os.path.join(target, "pymod")
                    os.makedirs(mod, exist_ok=True)
                    shutil.copy(os.path.join(target, "debug", "libivp.so"), os.path.join(mod, "ivp.so"))
                    rc, out = sh(["/opt/veriftools/pyvenv/bin/python", os.path.join(src, "demo.py"), mod], cwd=wt, env=dict(ENV, PYTHONPATH=mod))
                    return rc == 0, out[-1200:]
            else:
                shutil.copy(os.path.join(src, "demo.rs"), os.path.join(wt, "tests", "seed_demo.rs"))
            dok, dtail = run_demo(wt, target)
            meta["demo_fails_with_change"] = not dok
            print("demo with change: %s" % ("passes (BAD)" if dok else "fails (good)"))
            sh("git reset -q && git checkout HEAD -- src", cwd=wt)
            dok2, dtail2 = run_demo(wt, target)
            meta["demo_passes_without_change"] = dok2
            print("demo without change: %s" % ("passes (good)" if dok2 else "fails (BAD)"))
            if not dok2:
                print(dtail2)
            if not pydemo:
                os.remove(os.path.join(wt, "tests", "seed_demo.rs"))
            rc, out = sh(["git", "apply", "--whitespace=nowarn", patch], cwd=wt)
            if rc != 0:
                sh(["git", "apply", "--3way", "--whitespace=nowarn", patch], cwd=wt)
            meta["ran"] = ["cargo test --workspace --no-fail-fast --offline (with change)",
                           ("python demo.py against the extension built with --features python" if pydemo else "cargo test --offline --test seed_demo") + " (with change, without change)"]
            confirmed = ok and (not dok) and dok2
        else:
            confirmed = True
        meta["confirmed"] = confirmed
        results = {}
        if confirmed:
            # run the checks from a snapshot of /verif so that concurrent edits do not disturb them
            snap = "/tmp/seedchk/verif-" + name
            shutil.rmtree(snap, ignore_errors=True)
            sh(["rsync", "-a", "--exclude", ".target*", "--exclude", ".git", "--exclude", "replays", "--exclude", "evidence", "--exclude", "seeded", VERIF + "/", snap + "/"])
            for c in checks:
                t0 = time.time()
                rc, out = sh([os.path.join(snap, "check"), c, "--tier", tier], cwd=snap,
                             env=dict(ENV, VERIF_REPO=wt, VERIF_DIR="/tmp/seedchk/vd-" + name), timeout=7200)
                lines = [l for l in out.splitlines() if l.startswith("VIOLATION") or l.startswith("  ") or l.startswith("MACHINERY") or l.startswith("KNOWN")]
                results[c] = {"exit": rc, "wall_s": round(time.time() - t0, 1), "first_lines": lines[:6]}
                print("check %s -> exit %d (%.0fs)" % (c, rc, time.time() - t0))
                for l in lines[:4]:
                    print("   ", l[:300])
        meta["checks"] = results
        meta["detected_by"] = [c for c, r in results.items() if r["exit"] == 1]
        return finish(meta, name, src, confirmed)
    finally:
        sh(["git", "-C", "/repo", "worktree", "remove", "--force", wt])
        shutil.rmtree(wt, ignore_errors=True)
        shutil.rmtree(target, ignore_errors=True)
        shutil.rmtree("/tmp/seedchk/vd-" + name, ignore_errors=True)
        shutil.rmtree("/tmp/seedchk/verif-" + name, ignore_errors=True)
        sh(["git", "-C", "/repo", "worktree", "prune"])


def finish(meta, name, src, keep):
    dst = os.path.join(VERIF, "seeded", name)
    if keep:
        os.makedirs(dst, exist_ok=True)
        for f in ("patch.diff", "demo.rs", "demo.py", "notes.md"):
            if os.path.exists(os.path.join(src, f)) and os.path.abspath(src) != os.path.abspath(dst):
                shutil.copy(os.path.join(src, f), os.path.join(dst, f))
        old = {}
        mp = os.path.join(dst, "meta.json")
        if os.path.exists(mp):
            old = json.load(open(mp))
        # keep the confirmation record of an earlier `confirm` when re-checking
        for k, v in old.items():
            if k not in meta or (k in ("suite_passes_with_change", "demo_fails_with_change", "demo_passes_without_change", "ran", "needs", "breaks") and k not in meta):
                meta[k] = v
        if "history" in old:
            meta["history"] = old["history"]
        meta.setdefault("history", []).append({"at": time.strftime("%Y-%m-%d %H:%M"), "checks": {c: r["exit"] for c, r in meta.get("checks", {}).items()}})
        json.dump(meta, open(mp, "w"), indent=1)
    print(json.dumps({k: meta[k] for k in meta if k not in ("checks", "history")}))
    return 0


if __name__ == "__main__":
    sys.exit(main())
